package main

// Seed streams (valid encodings of generated values in every auto-detectable
// format), an independent ZNG frame/typedef/value walker, and the structural
// fault generators (truncation at every offset, boundary values written over
// every header / typedef / tag / type value / VNG metadata field).

import (
	"bytes"
	"encoding/binary"
	"fmt"
	"io"
	"math/rand"
	"sort"
	"strings"

	zed "github.com/brimdata/super"
	"github.com/brimdata/super/zio"
	"github.com/brimdata/super/zio/anyio"
	"github.com/brimdata/super/zio/zngio"
	"github.com/brimdata/super/zson"
	"github.com/pierrec/lz4/v4"
)

// ---------------------------------------------------------------- universe

// universe lists ZSON texts of the generated values.  Each group becomes one
// small stream.  The groups cross the whole type system (every complex kind,
// nested, named, nulls, type values, unions, enums, errors).
var universe = map[string][]string{
	"prims": {
		`{a:1,b:"s",c:1.5,d:true,e:null(string)}`,
		`{a:2,b:"tt",c:-0.,d:false,e:"x"}`,
	},
	"widths": {
		`{u8:255(uint8),i16:-3(int16),u64:18446744073709551615(uint64),f32:1.5(float32),du:1h2m,t:2020-01-02T03:04:05Z}`,
		`{ip:10.0.0.1,ip6:fe80::1,net:10.0.0.0/8,by:0x0102ff,n:null}`,
	},
	"containers": {
		`{arr:[1,2,3],set:|[1,2]|,m:|{"k":1,"j":2}|,r:{s:[{t:1},{t:2}]}}`,
		`{arr:[]([int64]),set:|[3]|,m:|{"z":9}|,r:{s:null([{t:int64}])}}`,
	},
	"unions": {
		`{u:1((int64,string)),v:["a",1]}`,
		`{u:"s"((int64,string)),v:[2,"b"]}`,
	},
	"named": {
		`{p:80(port=uint16),q:{x:1}(=pt)}`,
		`{p:81(port=uint16),q:{x:2}(=pt)}`,
	},
	"enumerr": {
		`{e:%b(enum(a,b,c)),x:error("boom"),y:error({code:1})}`,
		`{e:%a(enum(a,b,c)),x:error("bam"),y:error({code:2})}`,
	},
	"typevals": {
		`{t:<int64>,u:<{a:int64,b:[string]}>,v:<foo=(int64,string)>}`,
		`{t:<|[ip]|>,u:<|{string:{x:enum(k,l)}}|>,v:<error(foo=(int64,string))>}`,
	},
	"toplevel": {
		`1`, `"str"`, `[1,2]`, `null`, `<{a:int64}>`,
	},
	"repeat": { // compressible payloads, several values
		`{s:"aaaaaaaaaaaaaaaaaaaaaaaaaaaaaaaaaaaaaaaaaaaaaaaaaaaaaaaaaaaaaaaaaaaaaaaa",n:1}`,
		`{s:"aaaaaaaaaaaaaaaaaaaaaaaaaaaaaaaaaaaaaaaaaaaaaaaaaaaaaaaaaaaaaaaaaaaaaaaa",n:2}`,
		`{s:"aaaaaaaaaaaaaaaaaaaaaaaaaaaaaaaaaaaaaaaaaaaaaaaaaaaaaaaaaaaaaaaaaaaaaaaa",n:3}`,
	},
}

// flat groups are the ones CSV/TSV/Zeek/JSON writers can represent.
var flatGroups = map[string][]string{
	"flat": {
		`{a:1,b:"s",c:1.5,d:true}`,
		`{a:2,b:"t,u",c:2.5,d:false}`,
		`{a:3,b:"q\"r",c:-1.,d:true}`,
	},
	"flatnet": {
		`{ts:2020-01-02T03:04:05Z,ip:10.0.0.1,p:80(port=uint16),s:"x"}`,
		`{ts:2020-01-02T03:04:06Z,ip:fe80::1,p:81(port=uint16),s:"-"}`,
	},
}

func groupNames(m map[string][]string) []string {
	var out []string
	for k := range m {
		out = append(out, k)
	}
	sort.Strings(out)
	return out
}

type nopWC struct{ *bytes.Buffer }

func (nopWC) Close() error { return nil }

func parseValues(zctx *zed.Context, texts []string) ([]zed.Value, error) {
	var out []zed.Value
	for _, t := range texts {
		v, err := zson.ParseValue(zctx, t)
		if err != nil {
			return nil, fmt.Errorf("universe value %s: %w", t, err)
		}
		out = append(out, v)
	}
	return out, nil
}

func encodeWith(format string, vals []zed.Value, zopts *zngio.WriterOpts) ([]byte, error) {
	var buf bytes.Buffer
	w, err := anyio.NewWriter(nopWC{&buf}, anyio.WriterOpts{Format: format, ZNG: zopts})
	if err != nil {
		return nil, err
	}
	for _, v := range vals {
		if err := w.Write(v); err != nil {
			return nil, err
		}
	}
	if err := w.Close(); err != nil {
		return nil, err
	}
	return buf.Bytes(), nil
}

// Seed is a valid input for one reader.
type Seed struct {
	Name   string
	Format string
	Data   []byte
	Values int
}

// zngVariant builds a ZNG stream with explicit framing so that every frame
// kind appears: per-value frames (thresh 1), an EOS between halves, a
// control frame, and (comp) real LZ4-compressed values frames.
func zngVariant(vals []zed.Value, variant string) ([]byte, error) {
	var buf bytes.Buffer
	switch variant {
	case "one": // one types frame + one values frame + EOS
		w := zngio.NewWriterWithOpts(nopWC{&buf}, zngio.WriterOpts{FrameThresh: 1 << 20})
		for _, v := range vals {
			if err := w.Write(v); err != nil {
				return nil, err
			}
		}
		err := w.Close()
		return buf.Bytes(), err
	case "each": // a frame pair per value, control frame after the first, EOS in the middle
		w := zngio.NewWriterWithOpts(nopWC{&buf}, zngio.WriterOpts{FrameThresh: 1})
		for i, v := range vals {
			if err := w.Write(v); err != nil {
				return nil, err
			}
			if i == 0 {
				if err := w.WriteControl([]byte(`{"k":1}`), zngio.ControlFormatJSON); err != nil {
					return nil, err
				}
			}
			if i == len(vals)/2 && len(vals) > 1 {
				if err := w.EndStream(); err != nil {
					return nil, err
				}
			}
		}
		err := w.Close()
		return buf.Bytes(), err
	case "comp": // compressed frames (the writer compresses only when it pays off)
		w := zngio.NewWriterWithOpts(nopWC{&buf}, zngio.WriterOpts{Compress: true, FrameThresh: 100})
		for k := 0; k < 2; k++ {
			for _, v := range vals {
				if err := w.Write(v); err != nil {
					return nil, err
				}
			}
		}
		err := w.Close()
		return buf.Bytes(), err
	}
	return nil, fmt.Errorf("unknown variant %s", variant)
}

func zeekSeed() []byte {
	return []byte("#separator \\x09\n#set_separator\t,\n#empty_field\t(empty)\n#unset_field\t-\n#path\tconn\n" +
		"#fields\tts\tuid\tid.orig_h\tid.orig_p\tproto\tduration\ttags\tok\n" +
		"#types\ttime\tstring\taddr\tport\tenum\tinterval\tset[string]\tbool\n" +
		"1521911721.255387\tC8Tful1TvM3Zf5x8fl\t10.164.94.120\t39681\ttcp\t0.5\ta,b\tT\n" +
		"1521911721.411148\tCXWfTK3LRdiuQxBbM6\t10.47.25.80\t50817\tudp\t-\t(empty)\tF\n" +
		"#close\t2018-03-24-17-15-21\n")
}

func buildSeeds() ([]Seed, error) {
	zctx := zed.NewContext()
	var seeds []Seed
	add := func(name, format string, data []byte, n int) {
		seeds = append(seeds, Seed{Name: name, Format: format, Data: data, Values: n})
	}
	for _, g := range groupNames(universe) {
		vals, err := parseValues(zctx, universe[g])
		if err != nil {
			return nil, err
		}
		for _, variant := range []string{"one", "each", "comp"} {
			if variant == "comp" && g != "repeat" {
				continue
			}
			b, err := zngVariant(vals, variant)
			if err != nil {
				return nil, fmt.Errorf("zng %s/%s: %w", g, variant, err)
			}
			n := len(vals)
			if variant == "comp" {
				n *= 2
			}
			add(g+"/"+variant, "zng", b, n)
		}
		for _, f := range []string{"zson", "zjson"} {
			b, err := encodeWith(f, vals, nil)
			if err != nil {
				return nil, fmt.Errorf("%s %s: %w", f, g, err)
			}
			add(g, f, b, len(vals))
		}
		if g != "toplevel" { // VNG: any value; keep one object per group
			b, err := encodeWith("vng", vals, nil)
			if err != nil {
				return nil, fmt.Errorf("vng %s: %w", g, err)
			}
			add(g, "vng", b, len(vals))
		}
	}
	for _, g := range groupNames(flatGroups) {
		vals, err := parseValues(zctx, flatGroups[g])
		if err != nil {
			return nil, err
		}
		for _, f := range []string{"json", "csv", "tsv", "zeek"} {
			if f == "zeek" && g != "flatnet" {
				continue
			}
			b, err := encodeWith(f, vals, nil)
			if err != nil {
				return nil, fmt.Errorf("%s %s: %w", f, g, err)
			}
			add(g, f, b, len(vals))
		}
	}
	add("nested", "json", []byte(`{"a":[1,2.5,"x",null,true,{"b":{"c":[]}}],"d":"\u00e9\n"}`+"\n"+`[1,{"e":-1e3}] "s" 12`+"\n"), 4)
	add("conn", "zeek", zeekSeed(), 2)
	add("text", "line", []byte("first line\nsecond\n\nlast without newline"), 4)
	return seeds, nil
}

// readAll decodes data with the given format (used for self-checks of seeds).
func readAll(format string, data []byte) (int, error) {
	zr, err := anyio.NewReaderWithOpts(zed.NewContext(), bytes.NewReader(data), nil, anyio.ReaderOpts{Format: format, ZNG: zngio.ReaderOpts{Threads: 1}})
	if err != nil {
		return 0, err
	}
	defer zr.Close()
	n := 0
	for {
		v, err := zr.Read()
		if err != nil {
			return n, err
		}
		if v == nil {
			return n, nil
		}
		n++
	}
}

var _ zio.Reader

// ------------------------------------------------------- ZNG frame walker
// Independent of zngio: decodes only what docs/formats/zng.md specifies.

type span struct{ Off, Len int } // byte range in the stream

type zframe struct {
	Off      int    // offset of the code byte
	Kind     string // "types" | "values" | "control" | "eos"
	Comp     bool
	HdrLen   int  // bytes of code + length uvarint (+ format + usize)
	Length   int  // declared length
	LenSpan  span // the length uvarint
	FmtOff   int  // offset of the compression format byte (Comp)
	USize    int
	USizeSp  span
	Payload  span // payload bytes as stored (compressed if Comp)
	Fields   []zfield
	NextType int // type id that the next typedef after this frame would get
}

// zfield is a mutable site inside a frame payload (uncompressed frames only).
type zfield struct {
	Where string // structural name, e.g. "typedef.record.nfields"
	Sp    span   // location of a uvarint or a single byte
	Kind  string // "uvarint" | "byte" | "typevalue" | "bound"
	Val   uint64
	Bound int // Kind "bound": the first invalid value of this one-byte field
	Step  int // ... and the distance between consecutive values
}

func uvarintAt(b []byte, off int) (uint64, int, bool) {
	if off >= len(b) {
		return 0, 0, false
	}
	v, n := binary.Uvarint(b[off:])
	if n <= 0 {
		return 0, 0, false
	}
	return v, n, true
}

type wtype struct {
	kind  string // prim|record|array|set|map|union|enum|error|named
	id    int
	elems []int // child type ids
	nsym  int   // enum: number of symbols
}

type zwalker struct {
	b     []byte
	types map[int]wtype
	next  int
}

func walkZNG(b []byte) ([]zframe, error) {
	w := &zwalker{b: b, types: map[int]wtype{}, next: 30}
	var frames []zframe
	off := 0
	for off < len(b) {
		code := b[off]
		if code == 0xff {
			frames = append(frames, zframe{Off: off, Kind: "eos", HdrLen: 1, NextType: w.next})
			w.types = map[int]wtype{}
			w.next = 30
			off++
			continue
		}
		if code&0x80 != 0 {
			return frames, fmt.Errorf("bad version at %d", off)
		}
		f := zframe{Off: off, Comp: code&0x40 != 0}
		switch (code >> 4) & 3 {
		case 0:
			f.Kind = "types"
		case 1:
			f.Kind = "values"
		case 2:
			f.Kind = "control"
		default:
			return frames, fmt.Errorf("bad frame type at %d", off)
		}
		v, n, ok := uvarintAt(b, off+1)
		if !ok {
			return frames, fmt.Errorf("bad length at %d", off)
		}
		f.LenSpan = span{off + 1, n}
		f.Length = int(v<<4) | int(code&0xf)
		p := off + 1 + n
		plen := f.Length
		if f.Comp {
			f.FmtOff = p
			us, un, ok := uvarintAt(b, p+1)
			if !ok {
				return frames, fmt.Errorf("bad usize at %d", off)
			}
			f.USize = int(us)
			f.USizeSp = span{p + 1, un}
			plen -= 1 + un
			p += 1 + un
		}
		if plen < 0 || p+plen > len(b) {
			return frames, fmt.Errorf("frame at %d overruns the stream", off)
		}
		f.HdrLen = p - off
		f.Payload = span{p, plen}
		if !f.Comp {
			switch f.Kind {
			case "types":
				if err := w.walkTypes(&f); err != nil {
					return frames, err
				}
			case "values":
				if err := w.walkValues(&f); err != nil {
					return frames, err
				}
			}
		}
		f.NextType = w.next
		frames = append(frames, f)
		off = p + plen
	}
	return frames, nil
}

func (w *zwalker) uv(f *zframe, off *int, where string) (uint64, error) {
	v, n, ok := uvarintAt(w.b, *off)
	if !ok || *off+n > f.Payload.Off+f.Payload.Len {
		return 0, fmt.Errorf("walker: bad uvarint for %s at %d", where, *off)
	}
	f.Fields = append(f.Fields, zfield{Where: where, Sp: span{*off, n}, Kind: "uvarint", Val: v})
	*off += n
	return v, nil
}

func (w *zwalker) str(f *zframe, off *int, where string) error {
	n, err := w.uv(f, off, where+".namelen")
	if err != nil {
		return err
	}
	if *off+int(n) > f.Payload.Off+f.Payload.Len {
		return fmt.Errorf("walker: name overruns frame")
	}
	*off += int(n)
	return nil
}

func (w *zwalker) walkTypes(f *zframe) error {
	off := f.Payload.Off
	end := off + f.Payload.Len
	for off < end {
		code := w.b[off]
		f.Fields = append(f.Fields, zfield{Where: "typedef.code", Sp: span{off, 1}, Kind: "byte", Val: uint64(code)})
		off++
		t := wtype{id: w.next}
		switch code {
		case 0: // record
			t.kind = "record"
			n, err := w.uv(f, &off, "typedef.record.nfields")
			if err != nil {
				return err
			}
			for i := 0; i < int(n); i++ {
				if err := w.str(f, &off, "typedef.record.field"); err != nil {
					return err
				}
				id, err := w.uv(f, &off, "typedef.record.field.typeid")
				if err != nil {
					return err
				}
				t.elems = append(t.elems, int(id))
			}
		case 1, 2, 6:
			t.kind = map[byte]string{1: "array", 2: "set", 6: "error"}[code]
			id, err := w.uv(f, &off, "typedef."+t.kind+".typeid")
			if err != nil {
				return err
			}
			t.elems = []int{int(id)}
		case 3:
			t.kind = "map"
			for _, s := range []string{"keyid", "valid"} {
				id, err := w.uv(f, &off, "typedef.map."+s)
				if err != nil {
					return err
				}
				t.elems = append(t.elems, int(id))
			}
		case 4:
			t.kind = "union"
			n, err := w.uv(f, &off, "typedef.union.ntypes")
			if err != nil {
				return err
			}
			for i := 0; i < int(n); i++ {
				id, err := w.uv(f, &off, "typedef.union.typeid")
				if err != nil {
					return err
				}
				t.elems = append(t.elems, int(id))
			}
		case 5:
			t.kind = "enum"
			n, err := w.uv(f, &off, "typedef.enum.nsymbols")
			if err != nil {
				return err
			}
			t.nsym = int(n)
			for i := 0; i < int(n); i++ {
				if err := w.str(f, &off, "typedef.enum.symbol"); err != nil {
					return err
				}
			}
		case 7:
			t.kind = "named"
			if err := w.str(f, &off, "typedef.named"); err != nil {
				return err
			}
			id, err := w.uv(f, &off, "typedef.named.typeid")
			if err != nil {
				return err
			}
			t.elems = []int{int(id)}
		default:
			return fmt.Errorf("walker: unknown typedef code %d", code)
		}
		w.types[w.next] = t
		w.next++
	}
	return nil
}

func (w *zwalker) walkValues(f *zframe) error {
	off := f.Payload.Off
	end := off + f.Payload.Len
	for off < end {
		id, err := w.uv(f, &off, "value.typeid")
		if err != nil {
			return err
		}
		if err := w.walkBody(f, &off, end, int(id), "value", 0); err != nil {
			return err
		}
	}
	return nil
}

// walkBody records the tag of the value at *off and descends into containers
// (type-directed), recording every nested tag and every type-value body.
func (w *zwalker) walkBody(f *zframe, off *int, end int, id int, where string, depth int) error {
	tag, n, ok := uvarintAt(w.b, *off)
	if !ok || *off+n > end {
		return fmt.Errorf("walker: bad tag at %d", *off)
	}
	name := where + ".tag"
	if depth > 0 {
		name = where + ".inner.tag"
	}
	f.Fields = append(f.Fields, zfield{Where: name, Sp: span{*off, n}, Kind: "uvarint", Val: tag})
	*off += n
	if tag == 0 {
		return nil
	}
	blen := int(tag) - 1
	if *off+blen > end {
		return fmt.Errorf("walker: body overruns at %d", *off)
	}
	bend := *off + blen
	t, complex := w.types[id]
	for complex && (t.kind == "named" || t.kind == "error") {
		id = t.elems[0]
		t, complex = w.types[id]
	}
	if !complex {
		if id == 28 && blen > 0 { // type value
			f.Fields = append(f.Fields, zfield{Where: "value.typevalue", Sp: span{*off, blen}, Kind: "typevalue"})
		}
		*off = bend
		return nil
	}
	switch t.kind {
	case "record":
		for _, c := range t.elems {
			if err := w.walkBody(f, off, bend, c, where, depth+1); err != nil {
				return err
			}
		}
	case "array", "set":
		for *off < bend {
			if err := w.walkBody(f, off, bend, t.elems[0], where, depth+1); err != nil {
				return err
			}
		}
	case "map":
		for i := 0; *off < bend; i++ {
			if err := w.walkBody(f, off, bend, t.elems[i%2], where, depth+1); err != nil {
				return err
			}
		}
	case "union":
		// tag element (int) then the value
		stag, sn, ok := uvarintAt(w.b, *off)
		if !ok || stag == 0 {
			return fmt.Errorf("walker: bad union selector")
		}
		f.Fields = append(f.Fields, zfield{Where: "value.union.selector.tag", Sp: span{*off, sn}, Kind: "uvarint", Val: stag})
		selOff := *off + sn
		sel := 0
		if stag > 1 {
			f.Fields = append(f.Fields, zfield{Where: "value.union.selector", Sp: span{selOff, 1}, Kind: "byte", Val: uint64(w.b[selOff])})
			// the bound of the selector is the number of members (zigzag encoding: 2*n)
			f.Fields = append(f.Fields, zfield{Where: "value.union.selector", Sp: span{selOff, 1}, Kind: "bound", Val: uint64(w.b[selOff]), Bound: 2 * len(t.elems), Step: 2})
			sel = int(w.b[selOff]) >> 1 // zigzag, small non-negative
		}
		*off = selOff + int(stag) - 1
		if sel < len(t.elems) {
			if err := w.walkBody(f, off, bend, t.elems[sel], where, depth+1); err != nil {
				return err
			}
		}
	case "enum":
		if blen > 0 {
			f.Fields = append(f.Fields, zfield{Where: "value.enum.selector", Sp: span{*off, 1}, Kind: "byte", Val: uint64(w.b[*off])})
			// the bound of the selector is the number of symbols
			f.Fields = append(f.Fields, zfield{Where: "value.enum.selector", Sp: span{*off, 1}, Kind: "bound", Val: uint64(w.b[*off]), Bound: t.nsym, Step: 1})
		}
	}
	*off = bend
	return nil
}

// regionAt names the structural region that contains byte offset off.
func regionAt(frames []zframe, off int) string {
	for i := range frames {
		f := &frames[i]
		end := f.Payload.Off + f.Payload.Len
		if f.Kind == "eos" {
			end = f.Off + 1
		}
		if off < f.Off || off >= end {
			continue
		}
		if f.Kind == "eos" {
			return "eos"
		}
		c := ""
		if f.Comp {
			c = ".comp"
		}
		if off < f.Payload.Off {
			switch {
			case off == f.Off:
				return f.Kind + c + ".hdr.code"
			case off < f.LenSpan.Off+f.LenSpan.Len:
				return f.Kind + c + ".hdr.len"
			case f.Comp && off == f.FmtOff:
				return f.Kind + c + ".hdr.format"
			default:
				return f.Kind + c + ".hdr.usize"
			}
		}
		for _, fl := range f.Fields {
			if off >= fl.Sp.Off && off < fl.Sp.Off+fl.Sp.Len {
				return f.Kind + c + "." + fl.Where
			}
		}
		return f.Kind + c + ".payload"
	}
	return "end"
}

// ------------------------------------------------------------- mutations

// Mutant is one faulted input.
type Mutant struct {
	Class string // fault class (part of the signature)
	Where string // structural site (part of the signature)
	Note  string // concrete detail (offset, value) -- not part of the signature
	Data  []byte
}

type bval struct {
	Class string
	V     uint64
}

// boundary values for a length/count/id field whose valid value is cur and
// where max is the configured limit in force (0 = none).
func boundaryUvarints(cur uint64, max uint64) []bval {
	out := []bval{
		{"zero", 0}, {"one", 1},
		{"minus1", cur - 1}, {"plus1", cur + 1},
		{"b127", 127}, {"b128", 128}, {"b16k", 1 << 14},
		{"i32max", 1<<31 - 1}, {"u32", 1 << 32},
		{"i64max", 1<<63 - 1}, {"neg", 1 << 63}, {"negone", 1<<64 - 1},
	}
	if max > 0 {
		out = append(out, bval{"max", max}, bval{"gtmax", max + 1})
	}
	var res []bval
	for _, b := range out {
		if b.V == cur || (b.Class == "minus1" && cur == 0) {
			continue
		}
		res = append(res, b)
	}
	return res
}

func splice(b []byte, sp span, repl []byte) []byte {
	out := make([]byte, 0, len(b)-sp.Len+len(repl))
	out = append(out, b[:sp.Off]...)
	out = append(out, repl...)
	return append(out, b[sp.Off+sp.Len:]...)
}

// frameHeader encodes a frame header.
func frameHeader(kind string, comp bool, length int, format byte, usize uint64) []byte {
	t := map[string]int{"types": 0, "values": 1, "control": 2}[kind]
	code := byte(t<<4) | byte(length&0xf)
	if comp {
		code |= 0x40
	}
	h := []byte{code}
	h = binary.AppendUvarint(h, uint64(length>>4))
	if comp {
		h = append(h, format)
		h = binary.AppendUvarint(h, usize)
	}
	return h
}

// rebuildFrame replaces the payload of frame f and re-encodes a consistent header.
func rebuildFrame(b []byte, f *zframe, payload []byte) []byte {
	var hdr []byte
	if f.Comp {
		hdr = frameHeader(f.Kind, true, len(payload)+1+uvLen(uint64(f.USize)), b[f.FmtOff], uint64(f.USize))
	} else {
		hdr = frameHeader(f.Kind, false, len(payload), 0, 0)
	}
	out := append([]byte{}, b[:f.Off]...)
	out = append(out, hdr...)
	out = append(out, payload...)
	return append(out, b[f.Payload.Off+f.Payload.Len:]...)
}

func uvLen(v uint64) int { return len(binary.AppendUvarint(nil, v)) }

// typeValueBytes are the boundary bytes written over every byte of a type value.
var typeValueBytes = []struct {
	Class string
	B     byte
}{
	{"tv.prim0", 0}, {"tv.null", 29}, {"tv.record", 30}, {"tv.array", 31}, {"tv.set", 32}, {"tv.map", 33},
	{"tv.union", 34}, {"tv.enum", 35}, {"tv.error", 36}, {"tv.namedef", 37}, {"tv.nameref", 38},
	{"tv.max+1", 39}, {"tv.7f", 0x7f}, {"tv.80", 0x80}, {"tv.ff", 0xff},
}

// zngMutants enumerates the structural faults of one ZNG stream.  readMax is
// the frame limit the reader will be configured with.
func zngMutants(b []byte, readMax int, full bool) ([]Mutant, error) {
	frames, err := walkZNG(b)
	if err != nil {
		return nil, err
	}
	var out []Mutant
	add := func(class, where, note string, data []byte) {
		out = append(out, Mutant{Class: class, Where: where, Note: note, Data: data})
	}
	// 1. truncation at every byte offset
	for off := 0; off < len(b); off++ {
		add("trunc", regionAt(frames, off), fmt.Sprintf("cut@%d", off), append([]byte{}, b[:off]...))
	}
	for i := range frames {
		f := &frames[i]
		if f.Kind == "eos" {
			// EOS replaced by each other frame code class
			add("code", "eos", "eos->0x80", splice(b, span{f.Off, 1}, []byte{0x80}))
			add("drop", "eos", "eos removed", splice(b, span{f.Off, 1}, nil))
			continue
		}
		c := ""
		if f.Comp {
			c = ".comp"
		}
		k := f.Kind + c
		code := b[f.Off]
		// 2. header code byte: version bit, frame type 3, each other frame type, compression bit
		add("badversion", k+".hdr.code", "", splice(b, span{f.Off, 1}, []byte{code | 0x80}))
		add("badframetype", k+".hdr.code", "", splice(b, span{f.Off, 1}, []byte{code | 0x30}))
		for t := 0; t < 3; t++ {
			nc := code&^0x30 | byte(t<<4)
			if nc != code {
				add(fmt.Sprintf("frametype%d", t), k+".hdr.code", "", splice(b, span{f.Off, 1}, []byte{nc}))
			}
		}
		add("flipcomp", k+".hdr.code", "", splice(b, span{f.Off, 1}, []byte{code ^ 0x40}))
		add("eos", k+".hdr.code", "code->0xff", splice(b, span{f.Off, 1}, []byte{0xff}))
		// 3. header length: boundary values (header re-encoded, payload untouched)
		for _, bv := range boundaryUvarints(uint64(f.Length), uint64(readMax)) {
			var hdr []byte
			l := int(bv.V)
			hi := bv.V >> 4
			nc := code&^0xf | byte(bv.V&0xf)
			hdr = append([]byte{nc}, binary.AppendUvarint(nil, hi)...)
			_ = l
			add("len."+bv.Class, k+".hdr.len", fmt.Sprint(bv.V), splice(b, span{f.Off, 1 + f.LenSpan.Len}, hdr))
		}
		// raw 10-byte uvarint in the length field (value << 4 overflows int)
		for _, bv := range []bval{{"rawneg", 1 << 63}, {"rawnegone", 1<<64 - 1}, {"raw2p59", 1 << 59}, {"raw2p60", 1 << 60}} {
			add("len."+bv.Class, k+".hdr.len", fmt.Sprint(bv.V), splice(b, f.LenSpan, binary.AppendUvarint(nil, bv.V)))
		}
		// overlong uvarint (11 continuation bytes)
		add("len.overlong", k+".hdr.len", "", splice(b, f.LenSpan, bytes.Repeat([]byte{0xff}, 11)))
		if f.Comp {
			// 4. compression header
			for _, fb := range []byte{1, 2, 0x7f, 0xff} {
				add("badcompformat", k+".hdr.format", fmt.Sprint(fb), splice(b, span{f.FmtOff, 1}, []byte{fb}))
			}
			for _, bv := range boundaryUvarints(uint64(f.USize), uint64(readMax)) {
				// keep the frame length consistent with the new usize encoding
				nb := splice(b, f.USizeSp, binary.AppendUvarint(nil, bv.V))
				delta := uvLen(bv.V) - f.USizeSp.Len
				nl := f.Length + delta
				hdr := append([]byte{code&^0xf | byte(nl&0xf)}, binary.AppendUvarint(nil, uint64(nl>>4))...)
				nb = splice(nb, span{f.Off, 1 + f.LenSpan.Len}, hdr)
				add("usize."+bv.Class, k+".hdr.usize", fmt.Sprint(bv.V), nb)
				if bv.Class == "neg" || bv.Class == "negone" || bv.Class == "i64max" {
					// same, but without fixing the length (declared length then too short by delta)
					add("usize."+bv.Class+".rawlen", k+".hdr.usize", fmt.Sprint(bv.V), splice(b, f.USizeSp, binary.AppendUvarint(nil, bv.V)))
				}
			}
			// 5. decompress errors: corrupt the LZ4 payload at each offset (bounded), empty payload
			step := 1
			if !full && f.Payload.Len > 24 {
				step = f.Payload.Len / 24
			}
			for o := 0; o < f.Payload.Len; o += step {
				for _, x := range []byte{0x00, 0xff} {
					if b[f.Payload.Off+o] != x {
						add("lz4corrupt", k+".payload", fmt.Sprintf("@%d=%#x", o, x), splice(b, span{f.Payload.Off + o, 1}, []byte{x}))
					}
				}
			}
			add("lz4empty", k+".payload", "", rebuildFrame(b, f, nil))
			continue
		}
		// 6. fields inside uncompressed types / values frames (frame length kept consistent)
		for _, fl := range f.Fields {
			rel := span{fl.Sp.Off - f.Payload.Off, fl.Sp.Len}
			payload := b[f.Payload.Off : f.Payload.Off+f.Payload.Len]
			switch fl.Kind {
			case "uvarint":
				max := uint64(0)
				if strings.HasSuffix(fl.Where, "typeid") || strings.HasSuffix(fl.Where, "keyid") || strings.HasSuffix(fl.Where, "valid") {
					max = uint64(f.NextType) // first undefined id
				}
				for _, bv := range boundaryUvarints(fl.Val, max) {
					add("uv."+bv.Class, f.Kind+"."+fl.Where, fmt.Sprint(bv.V), rebuildFrame(b, f, splice(payload, rel, binary.AppendUvarint(nil, bv.V))))
				}
			case "byte":
				for _, x := range []byte{0, 1, 7, 8, 0x7f, 0x80, 0xff} {
					if byte(fl.Val) != x {
						add(fmt.Sprintf("byte.%#x", x), f.Kind+"."+fl.Where, "", rebuildFrame(b, f, splice(payload, rel, []byte{x})))
					}
				}
			case "bound":
				// bound-1, bound, bound+1 of a selector
				for _, d := range []int{-1, 0, 1} {
					x := fl.Bound + d*fl.Step
					if x < 0 || x > 0xff || uint64(x) == fl.Val {
						continue
					}
					add(fmt.Sprintf("bound%+d", d), f.Kind+"."+fl.Where, fmt.Sprint(x), rebuildFrame(b, f, splice(payload, rel, []byte{byte(x)})))
				}
			case "typevalue":
				for o := 0; o < rel.Len; o++ {
					for _, tb := range typeValueBytes {
						if payload[rel.Off+o] != tb.B {
							add(tb.Class, "values.value.typevalue", fmt.Sprintf("@%d", o), rebuildFrame(b, f, splice(payload, span{rel.Off + o, 1}, []byte{tb.B})))
						}
					}
				}
				// truncated type value with consistent tags is not expressible without re-tagging; cut the tail and re-tag the enclosing scalar only when top-level
			}
		}
		// 7. frame with an empty payload, frame duplicated
		add("emptyframe", k, "", rebuildFrame(b, f, nil))
		add("dupframe", k, "", splice(b, span{f.Off, 0}, b[f.Off:f.Payload.Off+f.Payload.Len]))
	}
	return out, nil
}

// typeValueStream wraps raw type-value bytes tv as the single value of a
// ZNG stream (value of primitive type `type`), uncompressed.
func typeValueStream(tv []byte) []byte {
	var payload []byte
	payload = binary.AppendUvarint(payload, 28)
	payload = binary.AppendUvarint(payload, uint64(len(tv))+1)
	payload = append(payload, tv...)
	out := frameHeader("values", false, len(payload), 0, 0)
	out = append(out, payload...)
	return append(out, 0xff)
}

// typeValueMutants: hand-built malformed type values (each class x each
// complex kind), exercising Context.DecodeTypeValue through Validate / format.
func typeValueMutants() []Mutant {
	var out []Mutant
	uv := func(v uint64) []byte { return binary.AppendUvarint(nil, v) }
	cat := func(parts ...[]byte) []byte { return bytes.Join(parts, nil) }
	kinds := []struct {
		name string
		code byte
	}{{"record", 30}, {"union", 34}, {"enum", 35}}
	for _, k := range kinds {
		for _, bv := range []bval{{"zero", 0}, {"one", 1}, {"b128", 128}, {"u32", 1 << 32}, {"i64max", 1<<63 - 1}, {"neg", 1 << 63}, {"negone", 1<<64 - 1}} {
			// count then nothing
			out = append(out, Mutant{Class: "tvcount." + bv.Class, Where: "typevalue." + k.name + ".count", Note: "no members", Data: typeValueStream(cat([]byte{k.code}, uv(bv.V)))})
			// count then one well-formed member
			var member []byte
			switch k.name {
			case "record":
				member = cat(uv(1), []byte("a"), []byte{9})
			case "union":
				member = []byte{9}
			case "enum":
				member = cat(uv(1), []byte("a"))
			}
			out = append(out, Mutant{Class: "tvcount." + bv.Class, Where: "typevalue." + k.name + ".count", Note: "one member", Data: typeValueStream(cat([]byte{k.code}, uv(bv.V), member))})
		}
	}
	// name lengths
	for _, bv := range []bval{{"zero", 0}, {"plus1", 2}, {"b128", 128}, {"i64max", 1<<63 - 1}, {"neg", 1 << 63}, {"negone", 1<<64 - 1}} {
		out = append(out,
			Mutant{Class: "tvname." + bv.Class, Where: "typevalue.record.field.namelen", Data: typeValueStream(cat([]byte{30}, uv(1), uv(bv.V), []byte("a"), []byte{9}))},
			Mutant{Class: "tvname." + bv.Class, Where: "typevalue.namedef.namelen", Data: typeValueStream(cat([]byte{37}, uv(bv.V), []byte("a"), []byte{9}))},
			Mutant{Class: "tvname." + bv.Class, Where: "typevalue.nameref.namelen", Data: typeValueStream(cat([]byte{38}, uv(bv.V), []byte("a")))},
			Mutant{Class: "tvname." + bv.Class, Where: "typevalue.enum.symbol.namelen", Data: typeValueStream(cat([]byte{35}, uv(1), uv(bv.V), []byte("a")))})
	}
	// a failed inner decode inside each container kind (DESIGN 6.2 #17)
	for _, inner := range []struct {
		name string
		b    []byte
	}{{"unknownprim", []byte{0x7f}}, {"missing", nil}, {"undefnameref", cat([]byte{38}, uv(1), []byte("q"))}, {"truncrecord", []byte{30, 2, 1, 'a', 9}}} {
		out = append(out,
			Mutant{Class: "tvinner." + inner.name, Where: "typevalue.union.member", Data: typeValueStream(cat([]byte{34}, uv(2), []byte{9}, inner.b))},
			Mutant{Class: "tvinner." + inner.name, Where: "typevalue.union.member0", Data: typeValueStream(cat([]byte{34}, uv(2), inner.b, []byte{9}))},
			Mutant{Class: "tvinner." + inner.name, Where: "typevalue.array.elem", Data: typeValueStream(cat([]byte{31}, inner.b))},
			Mutant{Class: "tvinner." + inner.name, Where: "typevalue.set.elem", Data: typeValueStream(cat([]byte{32}, inner.b))},
			Mutant{Class: "tvinner." + inner.name, Where: "typevalue.map.key", Data: typeValueStream(cat([]byte{33}, inner.b, []byte{9}))},
			Mutant{Class: "tvinner." + inner.name, Where: "typevalue.map.val", Data: typeValueStream(cat([]byte{33}, []byte{9}, inner.b))},
			Mutant{Class: "tvinner." + inner.name, Where: "typevalue.error.inner", Data: typeValueStream(cat([]byte{36}, inner.b))},
			Mutant{Class: "tvinner." + inner.name, Where: "typevalue.record.fieldtype", Data: typeValueStream(cat([]byte{30}, uv(1), uv(1), []byte("a"), inner.b))},
			Mutant{Class: "tvinner." + inner.name, Where: "typevalue.namedef.inner", Data: typeValueStream(cat([]byte{37}, uv(1), []byte("n"), inner.b))})
	}
	// duplicate record fields / union members / rebinding
	out = append(out,
		Mutant{Class: "tvdup", Where: "typevalue.record.fields", Data: typeValueStream(cat([]byte{30}, uv(2), uv(1), []byte("a"), []byte{9}, uv(1), []byte("a"), []byte{9}))},
		Mutant{Class: "tvdup", Where: "typevalue.union.members", Data: typeValueStream(cat([]byte{34}, uv(2), []byte{9}, []byte{9}))},
		Mutant{Class: "tvdeep", Where: "typevalue.array.nest", Data: typeValueStream(append(bytes.Repeat([]byte{31}, 2000), 9))},
		Mutant{Class: "tvdeep.trunc", Where: "typevalue.array.nest", Data: typeValueStream(bytes.Repeat([]byte{31}, 2000))},
		Mutant{Class: "tvtrailing", Where: "typevalue.tail", Data: typeValueStream([]byte{9, 9, 9})})
	return out
}

// ---------------------------------------------------------- VNG mutations

func vngMutants(b []byte, full bool) ([]Mutant, error) {
	if len(b) < 24 || string(b[:3]) != "VNG" {
		return nil, fmt.Errorf("not a VNG object")
	}
	meta := int(binary.LittleEndian.Uint64(b[8:]))
	data := int(binary.LittleEndian.Uint64(b[16:]))
	if 24+meta+data != len(b) {
		return nil, fmt.Errorf("VNG sizes do not add up: %d+%d+24 != %d", meta, data, len(b))
	}
	var out []Mutant
	add := func(class, where, note string, d []byte) {
		out = append(out, Mutant{Class: class, Where: where, Note: note, Data: d})
	}
	region := func(off int) string {
		switch {
		case off < 4:
			return "header.magic"
		case off < 8:
			return "header.version"
		case off < 16:
			return "header.metasize"
		case off < 24:
			return "header.datasize"
		case off < 24+meta:
			return "metadata"
		}
		return "data"
	}
	for off := 0; off < len(b); off++ {
		add("trunc", region(off), fmt.Sprintf("cut@%d", off), append([]byte{}, b[:off]...))
	}
	put32 := func(off int, v uint32) []byte {
		d := append([]byte{}, b...)
		binary.LittleEndian.PutUint32(d[off:], v)
		return d
	}
	put64 := func(off int, v uint64) []byte {
		d := append([]byte{}, b...)
		binary.LittleEndian.PutUint64(d[off:], v)
		return d
	}
	for i := 0; i < 4; i++ {
		add("magic", "header.magic", fmt.Sprint(i), splice(b, span{i, 1}, []byte{b[i] ^ 0xff}))
	}
	for _, v := range []uint32{0, 3, 5, 1 << 31, 1<<32 - 1} {
		add(fmt.Sprintf("version.%d", v), "header.version", "", put32(4, v))
	}
	sizes := func(cur uint64, lim uint64) []bval {
		return []bval{{"zero", 0}, {"one", 1}, {"minus1", cur - 1}, {"plus1", cur + 1}, {"max", lim}, {"gtmax", lim + 1},
			{"i32max", 1<<31 - 1}, {"u32", 1 << 32}, {"i64max", 1<<63 - 1}, {"neg", 1 << 63}, {"negone", 1<<64 - 1}}
	}
	for _, bv := range sizes(uint64(meta), 100*1024*1024) {
		add("metasize."+bv.Class, "header.metasize", fmt.Sprint(bv.V), put64(8, bv.V))
	}
	for _, bv := range sizes(uint64(data), 2*1024*1024*1024) {
		add("datasize."+bv.Class, "header.datasize", fmt.Sprint(bv.V), put64(16, bv.V))
	}
	// metadata section is a ZNG stream: every ZNG fault class inside it, header kept consistent
	mm, err := zngMutants(b[24:24+meta], 0, full)
	if err != nil {
		return nil, fmt.Errorf("VNG metadata walk: %w", err)
	}
	for _, m := range mm {
		if m.Class == "trunc" {
			continue // covered by whole-file truncation; here sizes stay consistent
		}
		d := append([]byte{}, b[:24]...)
		binary.LittleEndian.PutUint64(d[8:], uint64(len(m.Data)))
		d = append(d, m.Data...)
		d = append(d, b[24+meta:]...)
		add("meta."+m.Class, "metadata."+m.Where, m.Note, d)
	}
	// metadata leaf values (segment offsets/lengths, counts ...): every one-byte
	// scalar leaf body overwritten with boundary bytes is covered above via tags;
	// here: each byte of the metadata values frames set to 0x00/0x7f/0xff
	frames, _ := walkZNG(b[24 : 24+meta])
	for i := range frames {
		f := &frames[i]
		if f.Kind != "values" || f.Comp {
			continue
		}
		step := 1
		if !full && f.Payload.Len > 160 {
			step = 2
		}
		for o := 0; o < f.Payload.Len; o += step {
			for _, x := range []byte{0x00, 0x01, 0x7f, 0xff} {
				at := 24 + f.Payload.Off + o
				if b[at] != x {
					add(fmt.Sprintf("metabyte.%#x", x), "metadata.values.payload", fmt.Sprintf("@%d", o), splice(b, span{at, 1}, []byte{x}))
				}
			}
		}
	}
	// data section: byte overwrites
	for o := 24 + meta; o < len(b); o++ {
		for _, x := range []byte{0x00, 0xff} {
			if b[o] != x {
				add(fmt.Sprintf("databyte.%#x", x), "data", fmt.Sprintf("@%d", o-24-meta), splice(b, span{o, 1}, []byte{x}))
			}
		}
	}
	return out, nil
}

// --------------------------------------------------------- text mutations

func charClass(c byte) string {
	switch {
	case c == '\n':
		return "nl"
	case c == '\t':
		return "tab"
	case c == ' ':
		return "sp"
	case c >= '0' && c <= '9':
		return "digit"
	case c >= 'a' && c <= 'z' || c >= 'A' && c <= 'Z' || c == '_':
		return "alpha"
	case c >= 0x80:
		return "hi"
	case c < 0x20:
		return "ctl"
	}
	return "'" + string(c) + "'"
}

func textMutants(b []byte, format string, full bool) []Mutant {
	var out []Mutant
	add := func(class, where, note string, d []byte) {
		out = append(out, Mutant{Class: class, Where: where, Note: note, Data: d})
	}
	for off := 0; off < len(b); off++ {
		add("trunc", "at:"+charClass(b[off]), fmt.Sprintf("cut@%d", off), append([]byte{}, b[:off]...))
	}
	subs := []byte{'{', '}', '[', ']', '(', ')', '<', '>', '|', '"', '\'', '\\', ':', ',', '=', '%', '-', '.', '/', '#', '\n', '\t', ' ', '0', '9', 'e', 'x', 0x00, 0x7f, 0x80, 0xff}
	step := 1
	if !full && len(b) > 200 {
		step = 3
	}
	for off := 0; off < len(b); off += step {
		structural := strings.IndexByte("{}[]()<>|\"'\\:,=%#\n\t", b[off]) >= 0
		for _, s := range subs {
			if s == b[off] {
				continue
			}
			if !structural && !full && strings.IndexByte("{[(<|\"\\\n\x00\xff", s) < 0 {
				continue
			}
			add("subst:"+charClass(s), "at:"+charClass(b[off]), fmt.Sprintf("@%d", off), splice(b, span{off, 1}, []byte{s}))
		}
		if structural {
			add("del", "at:"+charClass(b[off]), fmt.Sprintf("@%d", off), splice(b, span{off, 1}, nil))
			add("dup", "at:"+charClass(b[off]), fmt.Sprintf("@%d", off), splice(b, span{off, 0}, []byte{b[off]}))
		}
	}
	// deep nesting / long tokens (bounded sizes)
	for _, n := range []int{100, 3000} {
		add(fmt.Sprintf("nest%d", n), "prefix:'['", "", append(bytes.Repeat([]byte{'['}, n), b...))
		add(fmt.Sprintf("nest%d", n), "prefix:'{'", "", append(bytes.Repeat([]byte("{a:"), n), b...))
		add(fmt.Sprintf("nest%d", n), "prefix:'<'", "", append(bytes.Repeat([]byte("<["), n), b...))
		add(fmt.Sprintf("nest%d", n), "prefix:'('", "", append(append([]byte("1"), bytes.Repeat([]byte("("), n)...), b...))
		add(fmt.Sprintf("long%d", n), "prefix:digit", "", append(bytes.Repeat([]byte{'9'}, n), b...))
		add(fmt.Sprintf("long%d", n), "prefix:'\"'", "", append(append([]byte{'"'}, bytes.Repeat([]byte{'a'}, n)...), b...))
	}
	return out
}

// randomMutants adds seeded multi-site mutations (2-3 boundary overwrites / cuts at once).
func randomMutants(rng *rand.Rand, b []byte, n int) []Mutant {
	var out []Mutant
	for i := 0; i < n && len(b) > 2; i++ {
		d := append([]byte{}, b...)
		k := 2 + rng.Intn(2)
		for j := 0; j < k; j++ {
			o := rng.Intn(len(d))
			d[o] = []byte{0, 1, 0x7f, 0x80, 0xff, 30, 34, 37}[rng.Intn(8)]
		}
		if rng.Intn(3) == 0 {
			d = d[:rng.Intn(len(d))]
		}
		out = append(out, Mutant{Class: "random", Where: "multi", Note: fmt.Sprintf("r%d", i), Data: d})
	}
	return out
}

// lz4Block compresses b (helper for building compressed frames by hand).
func lz4Block(b []byte) []byte {
	dst := make([]byte, lz4.CompressBlockBound(len(b)))
	var c lz4.Compressor
	n, err := c.CompressBlock(b, dst)
	if err != nil || n == 0 {
		return nil
	}
	return dst[:n]
}

var _ = io.EOF
