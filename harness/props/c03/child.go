package main

import (
	"bufio"
	"bytes"
	"encoding/json"
	"errors"
	"fmt"
	"io"
	"os"
	"runtime"
	"runtime/debug"
	"sort"
	"strings"
	"sync"
	"time"

	zed "github.com/brimdata/super"
	"github.com/brimdata/super/compiler/optimizer/demand"
	"github.com/brimdata/super/pkg/field"
	"github.com/brimdata/super/runtime/vam"
	"github.com/brimdata/super/runtime/vcache"
	"github.com/brimdata/super/vng"
	"github.com/brimdata/super/zbuf"
	"github.com/brimdata/super/zcode"
	"github.com/brimdata/super/zio"
	"github.com/brimdata/super/zio/vngio"
	"github.com/brimdata/super/zio/zsonio"
	"github.com/brimdata/super/zson"
)

// The real VNG code runs in a child process: the vector cache loads columns
// in errgroup goroutines, so a panic there cannot be recovered in-process.
// Protocol: one JSON request per line on stdin; for every request the child
// prints a stage marker before each risky stage and finally one result line.

type request struct {
	ID       int          `json:"id"`
	Label    string       `json:"label,omitempty"` // what the request is (for attribution of a late death)
	Universe int          `json:"universe"`
	Ty       []Term       `json:"ty"`    // the family's type table
	TIdx     []int        `json:"tidx"`  // type index of every value
	Values   []string     `json:"values"` // typed ZSON
	Projs    [][][]string `json:"projs"`
	Meta     bool         `json:"meta"` // also report the metadata shape
	SkipVec  bool         `json:"skipvec,omitempty"` // only write, metadata and row reader
	// Fault > 0: fetch ONE cached vcache.Object Fetches times; the ReadAt of
	// the Arm-th segment (file order, 0 = none) fails once.
	Fetches int `json:"fetches,omitempty"`
	Arm     int `json:"arm,omitempty"`
}

type readResult struct {
	Vals []string `json:"vals,omitempty"`
	Flat []int    `json:"flat,omitempty"`
	Err  string   `json:"err,omitempty"`
	// Nav[i][j]: data at path j of value i ("MISSING" if absent)
	Nav [][]string `json:"nav,omitempty"`
}

type response struct {
	ID    int          `json:"id"`
	Stage string       `json:"stage,omitempty"` // marker: about to run this stage
	Done  bool         `json:"done,omitempty"`
	Err   string       `json:"err,omitempty"` // harness-level problem (cannot parse input...)
	In    []string     `json:"in,omitempty"`
	Row   *readResult  `json:"row,omitempty"`
	Vec   *readResult  `json:"vec,omitempty"`
	Proj  []readResult `json:"proj,omitempty"`
	Full  [][][]string `json:"full,omitempty"` // Full[p][i][j]: nav of the full read for projection p
	Warm  []readResult `json:"warm,omitempty"` // Warm[p]: the full read of the SAME cached object after projection p
	Meta  []Shape      `json:"meta,omitempty"`
	Tags  []int        `json:"tags,omitempty"`
	Size  int          `json:"size,omitempty"`
	NSegs   int           `json:"nsegs,omitempty"`
	Fetched []fetchResult `json:"fetched,omitempty"`
	// a panic on the request's own goroutine (recovered): stage and message
	PanicStage string `json:"panic_stage,omitempty"`
	Panic      string `json:"panic,omitempty"`
}

type fetchResult struct {
	Vals  []string `json:"vals,omitempty"`
	Err   string   `json:"err,omitempty"`
	Reads int      `json:"reads"`
	Fired bool     `json:"fired,omitempty"` // the injected failure was delivered during this fetch
}

// faultReader is the storage under the cached object: it counts the
// non-empty reads and fails the read at offset arm once.
type faultReader struct {
	r     *bytes.Reader
	mu    sync.Mutex
	offs  map[int64]bool
	reads int
	arm   int64
	fired bool
	hit   bool
}

func (f *faultReader) ReadAt(b []byte, off int64) (int, error) {
	if len(b) > 0 {
		f.mu.Lock()
		f.reads++
		if f.offs != nil {
			f.offs[off] = true
		}
		if f.arm >= 0 && off == f.arm && !f.fired {
			f.fired, f.hit = true, true
			f.mu.Unlock()
			return 0, errors.New("injected storage failure")
		}
		f.mu.Unlock()
	}
	return f.r.ReadAt(b, off)
}

func fetchAll(vo *vcache.Object) ([]zed.Value, error) {
	p := vam.NewProjection(zed.NewContext(), vo, nil)
	var out []zed.Value
	for {
		b, err := p.Pull(false)
		if err != nil {
			return out, err
		}
		if b == nil {
			return out, nil
		}
		for _, v := range b.Values() {
			out = append(out, v.Copy())
		}
	}
}

// runFaults fetches one cached object several times with a one-shot failure.
func runFaults(req *request, res *response, data []byte, emit func(*response)) {
	emit(&response{ID: req.ID, Stage: "fetch-dry"})
	dry := &faultReader{r: bytes.NewReader(data), offs: map[int64]bool{}, arm: -1}
	o, err := vng.NewObject(dry)
	if err != nil {
		res.Err = "object: " + err.Error()
		return
	}
	dry.mu.Lock()
	dry.offs = map[int64]bool{} // only the reads of the fetch itself
	dry.mu.Unlock()
	if _, err := fetchAll(vcache.NewObjectFromVNG(o)); err != nil {
		res.Err = "fault-free fetch fails: " + err.Error()
		return
	}
	var offs []int64
	for off := range dry.offs {
		offs = append(offs, off)
	}
	sort.Slice(offs, func(i, j int) bool { return offs[i] < offs[j] })
	res.NSegs = len(offs)
	arm := int64(-1)
	if req.Arm > 0 {
		if req.Arm > len(offs) {
			res.Err = fmt.Sprintf("segment %d requested, the fetch reads %d segments", req.Arm, len(offs))
			return
		}
		arm = offs[req.Arm-1]
	}
	fr := &faultReader{r: bytes.NewReader(data), arm: -1}
	o2, err := vng.NewObject(fr)
	if err != nil {
		res.Err = "object: " + err.Error()
		return
	}
	vo := vcache.NewObjectFromVNG(o2)
	fr.mu.Lock()
	fr.arm = arm
	fr.mu.Unlock()
	for k := 0; k < req.Fetches; k++ {
		emit(&response{ID: req.ID, Stage: fmt.Sprintf("fetch%d", k+1)})
		fr.mu.Lock()
		fr.reads, fr.hit = 0, false
		fr.mu.Unlock()
		vals, err := fetchAll(vo)
		fr.mu.Lock()
		out := fetchResult{Reads: fr.reads, Fired: fr.hit}
		fr.mu.Unlock()
		if err != nil {
			out.Err = err.Error()
		} else {
			for _, v := range vals {
				out.Vals = append(out.Vals, canon(v))
			}
		}
		res.Fetched = append(res.Fetched, out)
	}
}

func childMain() {
	in := bufio.NewReaderSize(os.Stdin, 1<<20)
	out := bufio.NewWriter(os.Stdout)
	emit := func(r *response) {
		b, _ := json.Marshal(r)
		out.Write(b)
		out.WriteByte('\n')
		out.Flush()
	}
	for {
		line, err := in.ReadBytes('\n')
		if len(line) > 0 {
			var req request
			if e := json.Unmarshal(line, &req); e != nil {
				emit(&response{ID: -1, Done: true, Err: "bad request: " + e.Error()})
			} else {
				runRequest(&req, emit)
			}
		}
		if err != nil {
			return
		}
	}
}

func runRequest(req *request, emit func(*response)) {
	res := &response{ID: req.ID, Done: true}
	stage := "start"
	mark := emit
	base := runtime.NumGoroutine()
	// settle waits until every goroutine the stage started is gone.  A panic
	// in a loader goroutine lets errgroup.Wait return (its deferred Done runs
	// while the panic unwinds) and kills the process a moment later: by
	// waiting here the death always falls into the stage that caused it.
	settle := func() {
		for deadline := time.Now().Add(3 * time.Second); runtime.NumGoroutine() > base && time.Now().Before(deadline); {
			time.Sleep(50 * time.Microsecond)
		}
		time.Sleep(200 * time.Microsecond)
	}
	emit = func(r *response) {
		settle()
		if r.Stage != "" {
			stage = r.Stage
		}
		mark(r)
	}
	defer func() {
		if r := recover(); r != nil {
			res = &response{ID: req.ID, Done: true, PanicStage: stage, Panic: fmt.Sprintf("panic: %v\n%s", r, firstFrames(debug.Stack()))}
			mark(res)
			// goroutines of the failed load may still be running: do not let
			// them disturb the next request
			os.Exit(3)
		}
		settle()
		mark(res)
	}()
	u := newUni(req.Universe)
	zctx := zed.NewContext()
	zr := zsonio.NewReader(zctx, strings.NewReader(strings.Join(req.Values, "\n")))
	var vals []zed.Value
	for {
		v, err := zr.Read()
		if err != nil {
			res.Err = "cannot parse input: " + err.Error()
			return
		}
		if v == nil {
			break
		}
		vals = append(vals, v.Copy())
	}
	if len(vals) != len(req.Values) {
		res.Err = fmt.Sprintf("parsed %d values from %d literals", len(vals), len(req.Values))
		return
	}
	for _, v := range vals {
		res.In = append(res.In, canon(v))
	}
	// write
	emit(&response{ID: req.ID, Stage: "write"})
	var buf bytes.Buffer
	w := vngio.NewWriter(zio.NopCloser(&buf))
	for _, v := range vals {
		if err := w.Write(v); err != nil {
			res.Err = "write: " + err.Error()
			return
		}
	}
	if err := w.Close(); err != nil {
		res.Err = "close: " + err.Error()
		return
	}
	res.Size = buf.Len()
	data := buf.Bytes()
	typeOf := func(i int) Term {
		if i < len(req.TIdx) && req.TIdx[i] >= 1 && req.TIdx[i] <= len(req.Ty) {
			return req.Ty[req.TIdx[i]-1]
		}
		return Term{K: "prim", S: []string{"i"}}
	}
	flatAll := func(vs []zed.Value) []int {
		var out []int
		for i, v := range vs {
			t := 0
			if i < len(req.TIdx) {
				t = req.TIdx[i]
			}
			out = append(out, 7, t)
			out = append(out, u.flat(typeOf(i), v.Type(), v.Bytes())...)
		}
		return out
	}
	// metadata
	if req.Meta {
		emit(&response{ID: req.ID, Stage: "meta"})
		o, err := vng.NewObject(bytes.NewReader(data))
		if err != nil {
			res.Err = "object: " + err.Error()
			return
		}
		res.Meta, res.Tags, err = metaShape(o)
		if err != nil {
			res.Err = "metadata: " + err.Error()
			return
		}
	}
	if req.Fetches > 0 {
		runFaults(req, res, data, emit)
		return
	}
	// row reader
	emit(&response{ID: req.ID, Stage: "row"})
	res.Row = &readResult{}
	rowVals, err := readRows(data)
	if err != nil {
		res.Row.Err = err.Error()
	}
	for _, v := range rowVals {
		res.Row.Vals = append(res.Row.Vals, canon(v))
	}
	res.Row.Flat = flatAll(rowVals)
	if req.SkipVec {
		return
	}
	// vector cache + materializer, whole values
	emit(&response{ID: req.ID, Stage: "vec"})
	res.Vec = &readResult{}
	vecVals, err := readVector(data, nil)
	if err != nil {
		res.Vec.Err = err.Error()
	}
	for _, v := range vecVals {
		res.Vec.Vals = append(res.Vec.Vals, canon(v))
	}
	res.Vec.Flat = flatAll(vecVals)
	// projections
	for pi, paths := range req.Projs {
		emit(&response{ID: req.ID, Stage: fmt.Sprintf("proj%d", pi)})
		var fps []field.Path
		for _, p := range paths {
			fps = append(fps, field.Path(p))
		}
		pr := readResult{}
		pvals, err := readVector(data, fps)
		if err != nil {
			pr.Err = err.Error()
		}
		for _, v := range pvals {
			pr.Vals = append(pr.Vals, canon(v))
			var navs []string
			for _, p := range fps {
				navs = append(navs, nav(v, p))
			}
			pr.Nav = append(pr.Nav, navs)
		}
		pr.Flat = flatAll(pvals)
		res.Proj = append(res.Proj, pr)
		// reference: the same paths of the full row read
		var full [][]string
		for _, v := range rowVals {
			var navs []string
			for _, p := range fps {
				navs = append(navs, nav(v, p))
			}
			full = append(full, navs)
		}
		res.Full = append(res.Full, full)
	}
	// one warm object: a projection, then the whole values from the same cache
	for pi, paths := range req.Projs {
		emit(&response{ID: req.ID, Stage: fmt.Sprintf("warm%d", pi)})
		var fps []field.Path
		for _, p := range paths {
			fps = append(fps, field.Path(p))
		}
		wr := readResult{}
		o, err := vng.NewObject(bytes.NewReader(data))
		if err != nil {
			wr.Err = err.Error()
			res.Warm = append(res.Warm, wr)
			continue
		}
		vo := vcache.NewObjectFromVNG(o)
		if _, err := pullAll(vam.NewProjection(zed.NewContext(), vo, fps)); err != nil {
			wr.Err = "projection: " + err.Error()
		} else if vals, err := pullAll(vam.NewProjection(zed.NewContext(), vo, nil)); err != nil {
			wr.Err = "full read after the projection: " + err.Error()
		} else {
			for _, v := range vals {
				wr.Vals = append(wr.Vals, canon(v))
			}
		}
		res.Warm = append(res.Warm, wr)
	}
}

func pullAll(p zbuf.Puller) ([]zed.Value, error) {
	var out []zed.Value
	for {
		b, err := p.Pull(false)
		if err != nil {
			return out, err
		}
		if b == nil {
			return out, nil
		}
		for _, v := range b.Values() {
			out = append(out, v.Copy())
		}
	}
}

// canon formats a value after normalizing every set and map in it (element
// order of sets and maps is not part of the value).
func canon(v zed.Value) string {
	if v.IsNull() {
		return zson.FormatValue(v)
	}
	var b zcode.Builder
	normalize(&b, v.Type(), v.Bytes())
	return zson.FormatValue(zed.NewValue(v.Type(), b.Bytes().Body()))
}

func normalize(b *zcode.Builder, typ zed.Type, body zcode.Bytes) {
	if body == nil {
		b.Append(nil)
		return
	}
	switch t := typ.(type) {
	case *zed.TypeNamed:
		normalize(b, t.Type, body)
	case *zed.TypeError:
		normalize(b, t.Type, body)
	case *zed.TypeRecord:
		b.BeginContainer()
		it := body.Iter()
		for _, f := range t.Fields {
			normalize(b, f.Type, it.Next())
		}
		b.EndContainer()
	case *zed.TypeArray:
		b.BeginContainer()
		for it := body.Iter(); !it.Done(); {
			normalize(b, t.Type, it.Next())
		}
		b.EndContainer()
	case *zed.TypeSet:
		b.BeginContainer()
		for it := body.Iter(); !it.Done(); {
			normalize(b, t.Type, it.Next())
		}
		b.TransformContainer(zed.NormalizeSet)
		b.EndContainer()
	case *zed.TypeMap:
		b.BeginContainer()
		for it := body.Iter(); !it.Done(); {
			normalize(b, t.KeyType, it.Next())
			normalize(b, t.ValType, it.Next())
		}
		b.TransformContainer(zed.NormalizeMap)
		b.EndContainer()
	case *zed.TypeUnion:
		it := body.Iter()
		tag := zed.DecodeInt(it.Next())
		inner, err := t.Type(int(tag))
		if err != nil {
			b.Append(body)
			return
		}
		b.BeginContainer()
		b.Append(zed.EncodeInt(tag))
		normalize(b, inner, it.Next())
		b.EndContainer()
	default:
		b.Append(body)
	}
}

// nav is the data at a path of a value; absent paths read as MISSING.
func nav(v zed.Value, p field.Path) string {
	for _, name := range p {
		if v.IsMissing() {
			return "MISSING"
		}
		rt := zed.TypeRecordOf(v.Type())
		if rt == nil || v.IsNull() {
			return "MISSING"
		}
		i, ok := rt.IndexOfField(name)
		if !ok {
			return "MISSING"
		}
		it := v.Bytes().Iter()
		var b []byte
		for k := 0; k <= i; k++ {
			b = it.Next()
		}
		v = zed.NewValue(rt.Fields[i].Type, b)
	}
	if v.IsMissing() {
		return "MISSING"
	}
	return canon(v)
}

func readRows(data []byte) ([]zed.Value, error) {
	zctx := zed.NewContext()
	r, err := vngio.NewReader(zctx, bytes.NewReader(data), demand.All())
	if err != nil {
		return nil, err
	}
	var out []zed.Value
	for {
		v, err := r.Read()
		if err != nil {
			return out, err
		}
		if v == nil {
			return out, nil
		}
		out = append(out, v.Copy())
	}
}

func readVector(data []byte, paths []field.Path) ([]zed.Value, error) {
	o, err := vng.NewObject(bytes.NewReader(data))
	if err != nil {
		return nil, err
	}
	vo := vcache.NewObjectFromVNG(o)
	p := vam.NewProjection(zed.NewContext(), vo, paths)
	var out []zed.Value
	for {
		b, err := p.Pull(false)
		if err != nil {
			return out, err
		}
		if b == nil {
			return out, nil
		}
		for _, v := range b.Values() {
			out = append(out, v.Copy())
		}
	}
}

// metaShape projects the real metadata tree onto the spec's Shape.
func metaShape(o *vng.Object) ([]Shape, []int, error) {
	r := o.DataReader()
	ints := func(loc vng.Segment) ([]int, error) {
		if loc.MemLength == 0 {
			return nil, nil
		}
		v, err := vng.ReadIntVector(loc, r)
		if err != nil {
			return nil, err
		}
		out := make([]int, len(v))
		for i, x := range v {
			out[i] = int(x)
		}
		return out, nil
	}
	var walk func(m vng.Metadata) (Shape, error)
	walk = func(m vng.Metadata) (Shape, error) {
		switch m := m.(type) {
		case *vng.Named:
			k, err := walk(m.Values)
			return Shape{K: "named", Kids: []Shape{k}}, err
		case *vng.Error:
			k, err := walk(m.Values)
			return Shape{K: "err", Kids: []Shape{k}}, err
		case *vng.Nulls:
			k, err := walk(m.Values)
			if err != nil {
				return Shape{}, err
			}
			runs, err := ints(m.Runs)
			return Shape{K: "nulls", Kids: []Shape{k}, N: append([]int{int(m.Count)}, runs...)}, err
		case *vng.Const:
			return Shape{K: "const", N: []int{int(m.Count)}}, nil
		case *vng.Primitive:
			if len(m.Dict) > 0 {
				sel := make([]byte, m.Location.MemLength)
				if err := m.Location.Read(r, sel); err != nil {
					return Shape{}, err
				}
				n := []int{int(m.Count), len(m.Dict)}
				for _, b := range sel {
					n = append(n, int(b))
				}
				return Shape{K: "dict", N: n}, nil
			}
			return Shape{K: "plain", N: []int{int(m.Count)}}, nil
		case *vng.Record:
			s := Shape{K: "rec", N: []int{int(m.Length)}}
			for _, f := range m.Fields {
				k, err := walk(f.Values)
				if err != nil {
					return Shape{}, err
				}
				s.Kids = append(s.Kids, k)
			}
			return s, nil
		case *vng.Array:
			k, err := walk(m.Values)
			if err != nil {
				return Shape{}, err
			}
			lens, err := ints(m.Lengths)
			return Shape{K: "arr", Kids: []Shape{k}, N: append([]int{int(m.Length)}, lens...)}, err
		case *vng.Set:
			k, err := walk(m.Values)
			if err != nil {
				return Shape{}, err
			}
			lens, err := ints(m.Lengths)
			return Shape{K: "set", Kids: []Shape{k}, N: append([]int{int(m.Length)}, lens...)}, err
		case *vng.Map:
			ks, err := walk(m.Keys)
			if err != nil {
				return Shape{}, err
			}
			vs, err := walk(m.Values)
			if err != nil {
				return Shape{}, err
			}
			lens, err := ints(m.Lengths)
			return Shape{K: "map", Kids: []Shape{ks, vs}, N: append([]int{int(m.Length)}, lens...)}, err
		case *vng.Union:
			s := Shape{K: "union"}
			for _, v := range m.Values {
				k, err := walk(v)
				if err != nil {
					return Shape{}, err
				}
				s.Kids = append(s.Kids, k)
			}
			tags, err := ints(m.Tags)
			s.N = append([]int{int(m.Length)}, tags...)
			return s, err
		}
		return Shape{}, fmt.Errorf("unknown metadata %T", m)
	}
	if d, ok := o.Metadata().(*vng.Dynamic); ok {
		var cols []Shape
		for _, v := range d.Values {
			s, err := walk(v)
			if err != nil {
				return nil, nil, err
			}
			cols = append(cols, s)
		}
		tags, err := ints(d.Tags)
		return cols, tags, err
	}
	s, err := walk(o.Metadata())
	return []Shape{s}, nil, err
}

var _ = io.EOF

// firstFrames keeps the frames of the code under test from a stack dump.
func firstFrames(stack []byte) string {
	var out []string
	for _, l := range strings.Split(string(stack), "\n") {
		if strings.Contains(l, "/repo/") || strings.Contains(l, "brimdata/super") {
			out = append(out, strings.TrimSpace(l))
		}
		if len(out) >= 6 {
			break
		}
	}
	return strings.Join(out, " | ")
}
