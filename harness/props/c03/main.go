// C03 -- VNG columnar round trip is the identity for both read paths.
//
// specs/VngEnc.tla transcribes the VNG writer (column tree, encoding choice
// const/dict/plain from the statistics with DictMax, null run lengths, tag
// and length vectors), the row-reconstructing reader, the vector cache
// loader with the materializer, and projection.  TLC enumerates every value
// sequence up to a length over small type families, checks the three round
// trip equalities (row reader, vector path, projections against the data at
// the projected paths) and exports every case with the predicted column tree
// and the predicted results of both read paths.
//
// This harness instantiates every exported case with concrete types and
// values (seed-chosen variants), writes it with vngio.NewWriter, reads it
// back with vngio.NewReader and with vcache + vam (whole values and
// projections) in a child process, and checks (oracle) that both read paths
// return the input and that projections return the data at their paths, and
// (binding) that the real metadata tree -- encoding kinds, null runs, tags,
// lengths, dictionary selectors -- and the real results equal the spec's
// predictions.  The encoding rule is bound at the real constant with
// boundary cases of 1, 2, 255, 256, 257 and 300 distinct values whose
// predicted kind comes from the spec's rule table evaluated by TLC at
// DictMax = 256.
package main

import (
	"bufio"
	"bytes"
	"encoding/json"
	"fmt"
	"hash/fnv"
	"io"
	"os"
	"os/exec"
	"sort"
	"strings"
	"sync"
	"time"

	"verif/core"
)

// ---------------------------------------------------------------- child pool

type child struct {
	cmd    *exec.Cmd
	in     io.WriteCloser
	out    *bufio.Reader
	stderr *bytes.Buffer
}

func startChild() (*child, error) {
	cmd := exec.Command(os.Args[0])
	cmd.Env = append(os.Environ(), "C03_CHILD=1")
	in, err := cmd.StdinPipe()
	if err != nil {
		return nil, err
	}
	outp, err := cmd.StdoutPipe()
	if err != nil {
		return nil, err
	}
	var eb bytes.Buffer
	cmd.Stderr = &eb
	if err := cmd.Start(); err != nil {
		return nil, err
	}
	return &child{cmd: cmd, in: in, out: bufio.NewReaderSize(outp, 1<<20), stderr: &eb}, nil
}

func (c *child) stop() {
	c.in.Close()
	done := make(chan struct{})
	go func() { c.cmd.Wait(); close(done) }()
	select {
	case <-done:
	case <-time.After(5 * time.Second):
		c.cmd.Process.Kill()
	}
}

// outcome of one request on the real code.
type outcome struct {
	res     *response
	crashed bool
	stage   string // stage in which the child died
	panic   string // first lines of the child's stderr
}

type runner struct {
	mu   sync.Mutex
	c    *child
	prev string
	seq  int
	hist []string
	served int // requests the current child has answered
	late   int // children found dead after having answered
	last   string   // label of the request answered last
	lateOf []string // labels of requests after whose answer the child died
}

// do sends one request; if the child dies it is restarted for the next one.
//
// reset discards the current child (after an answer that may have left a
// panicking goroutine behind).
func (r *runner) reset() {
	r.mu.Lock()
	defer r.mu.Unlock()
	if r.c != nil {
		r.c.cmd.Process.Kill()
		r.c.cmd.Wait()
		r.c = nil
	}
	r.served = 0
}

// A panic in one of the loader's goroutines lets errgroup.Wait return (its
// deferred Done runs while the panic unwinds), so the child may still answer
// the request -- with a wrong result -- and die only afterwards.  A child
// that is found dead before it printed the first stage marker of a request
// therefore died of the PREVIOUS request (which has been judged on its
// answer); the request is repeated once on a fresh child.
func (r *runner) do(req *request) (*outcome, error) {
	r.mu.Lock()
	defer r.mu.Unlock()
	out, err := r.doOnce(req)
	if err == errChildGone || (err == nil && out.crashed && out.stage == "start" && r.served > 0) {
		// The child settles after every stage, so it cannot die between two
		// requests; if it did nevertheless, the death belongs to the request
		// it answered last.  Report that and run this request on a fresh child.
		r.late++
		r.lateOf = append(r.lateOf, r.last)
		r.served = 0
		out, err = r.doOnce(req)
	}
	if err == nil && !out.crashed {
		r.served++
	} else {
		r.served = 0
	}
	r.last = req.Label
	return out, err
}

var errChildGone = fmt.Errorf("the child process was gone before the request could be written")

func (r *runner) doOnce(req *request) (*outcome, error) {
	if r.c == nil {
		c, err := startChild()
		if err != nil {
			return nil, err
		}
		r.c = c
	}
	r.seq++
	req.ID = r.seq
	b, _ := json.Marshal(req)
	r.hist = append(r.hist, fmt.Sprintf("%d:%v", req.ID, req.Values[:min(3, len(req.Values))]))
	if len(r.hist) > 4 {
		r.hist = r.hist[1:]
	}
	r.prev = strings.Join(r.hist, " | ")
	if _, err := r.c.in.Write(append(b, '\n')); err != nil {
		r.c.cmd.Wait()
		r.c = nil
		return nil, errChildGone
	}
	stage := "start"
	var trail []string
	for {
		line, err := r.c.out.ReadBytes('\n')
		if os.Getenv("C03_DEBUG") != "" {
			t := string(line)
			if len(t) > 80 {
				t = t[:80]
			}
			trail = append(trail, fmt.Sprintf("%q/%v", t, err))
		}
		if len(line) > 0 {
			var res response
			if e := json.Unmarshal(line, &res); e != nil {
				return nil, fmt.Errorf("bad child output %q: %v", line, e)
			}
			if res.ID != req.ID {
				return nil, fmt.Errorf("child answered request %d while %d was pending", res.ID, req.ID)
			}
			if res.Done {
				if res.Panic != "" {
					r.c.cmd.Wait() // the child exits after reporting a panic
					r.c = nil
					return &outcome{crashed: true, stage: res.PanicStage, panic: res.Panic}, nil
				}
				return &outcome{res: &res}, nil
			}
			stage = res.Stage
			continue
		}
		if err != nil {
			// the child died: a panic in the code under test
			r.c.cmd.Wait()
			msg := r.c.stderr.String()
			if i := strings.Index(msg, "\n\n"); i > 0 {
				msg = msg[:i]
			}
			if len(msg) > 600 {
				msg = msg[:600]
			}
			if d := os.Getenv("C03_DEBUG"); d != "" {
				os.WriteFile(fmt.Sprintf("%s/crash-%d.txt", d, time.Now().UnixNano()), []byte(string(b)+"\nTRAIL "+strings.Join(trail, " ; ")+"\nPREV "+r.prev+"\n"+r.c.stderr.String()), 0o644)
			}
			r.c = nil
			return &outcome{crashed: true, stage: stage, panic: msg}, nil
		}
	}
}

// ------------------------------------------------------------------- checks

// sink collects the verdicts of one job; they are reported in job order after
// all jobs have run, so that the output of a run does not depend on how the
// parallel workers interleave.
type sink struct {
	acts []func()
}

func (k *sink) Violate(c *core.Ctx, sig, what string, wit any) {
	k.acts = append(k.acts, func() { c.Violate(sig, what, wit) })
}

func (k *sink) drift(e *env, format string, a ...any) {
	msg := fmt.Sprintf(format, a...)
	k.acts = append(k.acts, func() { e.drift("%s", msg) })
}

func (k *sink) flush() {
	for _, f := range k.acts {
		f()
	}
	k.acts = nil
}

type env struct {
	c      *core.Ctx
	pool   chan *runner
	all    []*runner
	mu     sync.Mutex
	kinds  map[string]int
	defect map[string]int
	rule   struct {
		Dictable []string `json:"dictable"`
		Eightbit []string `json:"eightbit"`
	}
	drifts int
	skipped int // defect cases replayed without the vector path
	fetchCases, faulted int
	quiet  bool // negative control: count drift, do not report it
	lastQuiet string
}

func shapeKinds(s Shape, m map[string]int) {
	m[s.K]++
	for _, k := range s.Kids {
		shapeKinds(k, m)
	}
}

// expectReal maps the spec's predicted shape (DictMax = 2) to what the real
// writer (MaxDictSize = 256) must produce for the same column: a plain column
// of a dictionary-capable type with 2..256 distinct values is a dict column
// whose selectors are the ranks of the values.
func (e *env) expectReal(s Shape, dictable func(path []int) bool, path []int) Shape {
	out := Shape{K: s.K, N: s.N}
	if s.K == "plain" {
		cnt, distinct, vals := s.N[0], s.N[1], s.N[2:]
		out.N = []int{cnt}
		if dictable(path) && distinct < len(e.rule.Dictable) && e.rule.Dictable[distinct] == "dict" {
			ds := append([]int(nil), vals...)
			sort.Ints(ds)
			var uniq []int
			for i, v := range ds {
				if i == 0 || v != ds[i-1] {
					uniq = append(uniq, v)
				}
			}
			n := []int{cnt, len(uniq)}
			for _, v := range vals {
				n = append(n, sort.SearchInts(uniq, v))
			}
			out.K, out.N = "dict", n
		}
	}
	for i, k := range s.Kids {
		out.Kids = append(out.Kids, e.expectReal(k, dictable, append(append([]int(nil), path...), i)))
	}
	return out
}

func shapeEq(a, b Shape) bool {
	if a.K != b.K || !eqInts(a.N, b.N) || len(a.Kids) != len(b.Kids) {
		return false
	}
	for i := range a.Kids {
		if !shapeEq(a.Kids[i], b.Kids[i]) {
			return false
		}
	}
	return true
}

func shapeStr(s Shape) string {
	var kids []string
	for _, k := range s.Kids {
		kids = append(kids, shapeStr(k))
	}
	return fmt.Sprintf("%s%v(%s)", s.K, s.N, strings.Join(kids, ","))
}

// leafDictable reports whether the leaf reached by path in the column of
// type t keeps a dictionary (every primitive but the 8-bit ones).
func leafKind(t Term, s Shape, path []int) string {
	// walk type and shape together
	for {
		switch s.K {
		case "named", "err":
			if t.K == "named" || t.K == "err" {
				t = t.C[0]
			}
			if len(path) == 0 {
				return ""
			}
			s, path = s.Kids[path[0]], path[1:]
			continue
		case "nulls":
			if len(path) == 0 {
				return ""
			}
			s, path = s.Kids[path[0]], path[1:]
			continue
		}
		for t.K == "named" || t.K == "err" {
			t = t.C[0]
		}
		if len(path) == 0 {
			if t.K == "prim" {
				return t.S[0]
			}
			return ""
		}
		i := path[0]
		switch t.K {
		case "rec", "union", "map":
			t = t.C[i]
		case "arr", "set":
			t = t.C[0]
		}
		s, path = s.Kids[i], path[1:]
	}
}

func pickUniverse(seed int64, key string) int {
	h := fnv.New64a()
	fmt.Fprintf(h, "%d|%s", seed, key)
	return int(h.Sum64() % numUniverses)
}

type witness struct {
	Kind     string   `json:"kind"` // "case" | "boundary"
	Family   string   `json:"family,omitempty"`
	Universe int      `json:"universe"`
	Scale    int      `json:"scale,omitempty"`
	Case     *Case    `json:"case,omitempty"`
	Values   []string `json:"values,omitempty"`
	Paths    [][]string `json:"paths,omitempty"`
}

const defectReplays = 40

// sigUnionNulls is the one open finding (F-C03-1); the others are fixed in
// the repository and kept as regression signatures (a recurrence is a VIOLATION).
const (
	sigUnionNulls = "vector-path:union-with-nulls"
	sigErrorNulls = "vector-path:error-under-nullable-record"
	sigEnum       = "vector-path:enum-column"
	sigNetPlain   = "vector-path:net-plain-column"
	sigPartial    = "projection:path-into-container-of-records"
)

func defectSig(defects []string) string {
	switch {
	case has(defects, "union-nulls"):
		return sigUnionNulls
	case has(defects, "error-nulls"):
		return sigErrorNulls
	case has(defects, "enum"):
		return sigEnum
	}
	return ""
}

func has(s []string, x string) bool {
	for _, y := range s {
		if y == x {
			return true
		}
	}
	return false
}

func typeKinds(t Term, m map[string]bool) {
	m[t.K] = true
	for _, c := range t.C {
		typeKinds(c, m)
	}
}

// caseShape is a literal-free description of a case for violation signatures.
func caseShape(cs *Case) string {
	m := map[string]bool{}
	for _, ti := range cs.Types {
		typeKinds(cs.Ty[ti-1], m)
	}
	var ks []string
	for k := range m {
		ks = append(ks, k)
	}
	sort.Strings(ks)
	return strings.Join(ks, "+")
}

// checkCase runs one exported case at the given scale (1 = as exported;
// w > 1 = every element repeated w times with token 1 spread over 255
// distinct values so that columns reach the real dictionary limit).
func (e *env) checkCase(sk *sink, family string, cs *Case, uniIdx, scale int, skipVec bool) error {
	c := e.c
	u := newUni(uniIdx)
	wit := &witness{Kind: "case", Family: family, Universe: uniIdx, Scale: scale, Case: cs}
	req := &request{ID: 1, Universe: uniIdx, Ty: cs.Ty, Meta: scale == 1}
	for _, el := range cs.Seq {
		t := cs.Ty[el.T-1]
		for rep := 0; rep < scale; rep++ {
			tok := u.unitTok
			if scale > 1 {
				rep := rep
				tok = func(kind string, k int) string { return u.wideTok(kind, k, rep) }
			}
			s, err := u.value(t, el.D, tok)
			if err != nil {
				return err
			}
			req.Values = append(req.Values, s)
			req.TIdx = append(req.TIdx, el.T)
		}
	}
	for _, p := range cs.Proj {
		req.Projs = append(req.Projs, p.Paths)
	}
	req.SkipVec = skipVec
	{
		key, _ := json.Marshal(cs.Seq)
		req.Label = fmt.Sprintf("%s|%d|%s", family, scale, key)
	}
	run := <-e.pool
	defer func() { e.pool <- run }()
	out, err := run.do(req)
	if err != nil {
		return err
	}
	e.mu.Lock()
	defer e.mu.Unlock()
	shape := caseShape(cs)
	known := defectSig(cs.Defects)
	if out.crashed {
		what := fmt.Sprintf("the process panics in stage %q for the sequence %v: %s", out.stage, req.Values, out.panic)
		switch {
		case out.stage == "vec" && known != "":
			sk.Violate(c, known, what, wit)
		case (strings.HasPrefix(out.stage, "proj") || strings.HasPrefix(out.stage, "warm")) && known != "":
			sk.Violate(c, known, what, wit)
		case strings.HasPrefix(out.stage, "proj") && e.partialAt(cs, out.stage):
			sk.Violate(c, sigPartial, what, wit)
		default:
			sk.Violate(c, "crash:"+out.stage[:min(4, len(out.stage))]+":"+shape, what, wit)
		}
		return nil
	}
	res := out.res
	if res.Err != "" {
		return fmt.Errorf("case %v: %s", req.Values, res.Err)
	}
	if req.SkipVec && res.Row != nil {
		res.Vec = &readResult{Vals: res.In}
		res.Proj = nil
	}
	if res.Row == nil || res.Vec == nil || (!req.SkipVec && (len(res.Proj) != len(cs.Proj) || len(res.Warm) != len(cs.Proj))) {
		b, _ := json.Marshal(res)
		return fmt.Errorf("incomplete child response for %v: %s", req.Values, b)
	}
	// ---- oracle: both read paths return the input
	if res.Row.Err != "" || strings.Join(res.Row.Vals, "\n") != strings.Join(res.In, "\n") {
		sk.Violate(c, "row-reader:"+shape, fmt.Sprintf("vngio.NewReader returns %v (%s) for the written sequence %v", res.Row.Vals, res.Row.Err, res.In), wit)
	}
	vecOK := res.Vec.Err == "" && strings.Join(res.Vec.Vals, "\n") == strings.Join(res.In, "\n")
	if !vecOK {
		if has(cs.Defects, "enum") || known == "" {
			run.reset() // a loader goroutine may still be panicking
		}
		what := fmt.Sprintf("vcache+vam materialize %v (%s) for the written sequence %v", res.Vec.Vals, res.Vec.Err, res.In)
		if known != "" {
			sk.Violate(c, known, what, wit)
		} else {
			sk.Violate(c, "vector-path:"+shape, what, wit)
		}
	}
	// ---- oracle: projections return the data at their paths
	for pi, pr := range res.Proj {
		full := res.Full[pi]
		bad := pr.Err != "" || len(pr.Nav) != len(full)
		if !bad {
			for i := range full {
				if strings.Join(pr.Nav[i], "\x00") != strings.Join(full[i], "\x00") {
					bad = true
				}
			}
		}
		if !bad {
			continue
		}
		if has(cs.Defects, "enum") || (known == "" && !cs.Proj[pi].Partial) {
			run.reset()
		}
		what := fmt.Sprintf("projection %v of %v yields %v (%s); data at those paths in the full read: %v", cs.Proj[pi].Paths, res.In, pr.Vals, pr.Err, full)
		switch {
		case known != "":
			sk.Violate(c, known, what, wit)
		case cs.Proj[pi].Partial:
			sk.Violate(c, sigPartial, what, wit)
		default:
			sk.Violate(c, "projection:"+shape, what, wit)
		}
	}
	// ---- oracle: the whole values read from the SAME cached object after a
	// projection (what the vector cache does between queries) are the input
	for pi, wr := range res.Warm {
		if wr.Err == "" && strings.Join(wr.Vals, "\n") == strings.Join(res.In, "\n") {
			continue
		}
		what := fmt.Sprintf("after projection %v on a cached object of %v, the full read of the same object yields %v (%s)", cs.Proj[pi].Paths, res.In, wr.Vals, wr.Err)
		if known != "" {
			sk.Violate(c, known, what, wit)
		} else {
			run.reset()
			sk.Violate(c, "warm-object:full-read-after-projection:"+shape, what, wit)
		}
	}
	// ---- binding: the spec's predictions
	if scale == 1 {
		if !eqInts(res.Row.Flat, cs.Row) {
			sk.drift(e, "row reader: spec predicts %v, real %v for %v", cs.Row, res.Row.Flat, res.In)
		}
		// for cases with a modelled defect the spec predicts THAT the vector
		// path fails, not the exact shape of the failure
		if len(cs.Defects) == 0 && !req.SkipVec && !eqInts(res.Vec.Flat, cs.Vec) {
			sk.drift(e, "vector path: spec predicts %v, real %v (%s) for %v", cs.Vec, res.Vec.Flat, res.Vec.Err, res.In)
		}
		for pi, pr := range res.Proj {
			want := cs.Proj[pi].Res
			if len(cs.Defects) == 0 && !cs.Proj[pi].Partial && !eqInts(pr.Flat, want) {
				sk.drift(e, "projection %v: spec predicts %v, real %v (%s) for %v", cs.Proj[pi].Paths, want, pr.Flat, pr.Err, res.In)
			}
		}
		if len(res.Meta) != len(cs.Cols) {
			sk.drift(e, "metadata: spec predicts %d columns, real %d for %v", len(cs.Cols), len(res.Meta), res.In)
		} else {
			if !eqInts(res.Tags, cs.Tags) && len(cs.Cols) > 1 {
				sk.drift(e, "type tags: spec %v real %v for %v", cs.Tags, res.Tags, res.In)
			}
			for j := range cs.Cols {
				t := cs.Ty[cs.Types[j]-1]
				specCol := cs.Cols[j]
				want := e.expectReal(specCol, func(path []int) bool {
					k := leafKind(t, specCol, path)
					return k != "b" && k != ""
				}, nil)
				if !shapeEq(want, res.Meta[j]) {
					sk.drift(e, "metadata of column %d: spec predicts %s, real %s for %v", j, shapeStr(want), shapeStr(res.Meta[j]), res.In)
				}
				shapeKinds(res.Meta[j], e.kinds)
			}
		}
	}
	return nil
}

func (e *env) partialAt(cs *Case, stage string) bool {
	var pi int
	if _, err := fmt.Sscanf(stage, "proj%d", &pi); err != nil || pi >= len(cs.Proj) {
		return false
	}
	return cs.Proj[pi].Partial
}

func (e *env) drift(format string, a ...any) {
	e.drifts++
	if e.quiet {
		e.lastQuiet = fmt.Sprintf(format, a...)
		return
	}
	e.c.Drift(format, a...)
}

func min(a, b int) int {
	if a < b {
		return a
	}
	return b
}

// wideTok spreads token 1 over 255 distinct values (rep selects one), keeps
// tokens 0 and 2 single: a column holding {0,1} has 256 distinct values, one
// holding {0,1,2} has 257.
func (u *uni) wideTok(kind string, k, rep int) string {
	if k != 1 || kind == "b" || kind == "e" {
		return u.unitTok(kind, k)
	}
	n := rep % 255
	switch u.prims[kind].Type {
	case "int64":
		return fmt.Sprint(1000 + n)
	case "float64":
		return fmt.Sprintf("%d.5", 1000+n)
	case "duration":
		return fmt.Sprintf("%dms", 1000+n)
	case "time":
		return fmt.Sprintf("2001-01-01T00:00:%02d.%03dZ", n/10, n%10)
	case "string":
		return fmt.Sprintf("%q", fmt.Sprintf("w%03d", n))
	case "bytes":
		return fmt.Sprintf("0x01%02x", n)
	}
	return u.unitTok(kind, k)
}

// ------------------------------------------------------------ fault cases

// FCase is one line exported by TLC from VngFetch.tla.
type FCase struct {
	Seq   []Elem `json:"seq"`
	Ty    []Term `json:"ty"`
	Segs  []int  `json:"segs"`
	Armed int    `json:"armed"`
	Log   []struct {
		Ok    bool `json:"ok"`
		Reads int  `json:"reads"`
	} `json:"log"`
}

// checkFetchCase fetches one cached object len(Log) times with a one-shot
// ReadAt failure at the armed segment.  Oracle: a fetch returns an error
// only when the injected failure was delivered in it, otherwise the written
// sequence -- in particular the fetch after the failed one.
func (e *env) checkFetchCase(sk *sink, family string, fc *FCase, uniIdx int) error {
	c := e.c
	u := newUni(uniIdx)
	req := &request{Universe: uniIdx, Ty: fc.Ty, Fetches: len(fc.Log), Arm: fc.Armed, Label: fmt.Sprintf("fetch|%s|%d", family, fc.Armed)}
	for _, el := range fc.Seq {
		s, err := u.value(fc.Ty[el.T-1], el.D, u.unitTok)
		if err != nil {
			return err
		}
		req.Values = append(req.Values, s)
		req.TIdx = append(req.TIdx, el.T)
	}
	wit := map[string]any{"kind": "fetch", "family": family, "universe": uniIdx, "values": req.Values, "armed_segment": fc.Armed, "fetches": len(fc.Log)}
	run := <-e.pool
	defer func() { e.pool <- run }()
	out, err := run.do(req)
	if err != nil {
		return err
	}
	e.mu.Lock()
	defer e.mu.Unlock()
	e.fetchCases++
	if fc.Armed > 0 {
		e.faulted++
	}
	if out.crashed {
		sk.Violate(c, "fetch-after-io-fault:crash", fmt.Sprintf("fetching the cached object of %v again after a failed read of segment %d panics in stage %q: %s", req.Values, fc.Armed, out.stage, out.panic), wit)
		return nil
	}
	res := out.res
	if res.Err != "" {
		return fmt.Errorf("fetch case %v: %s", req.Values, res.Err)
	}
	if len(res.Fetched) != len(fc.Log) {
		return fmt.Errorf("fetch case %v: %d fetch results for %d fetches", req.Values, len(res.Fetched), len(fc.Log))
	}
	suspicious := false
	for k, fr := range res.Fetched {
		switch {
		case fr.Err != "" && !fr.Fired:
			suspicious = true
			sk.Violate(c, "fetch-after-io-fault:error-without-fault", fmt.Sprintf("fetch %d of the cached object of %v fails (%s) although no read failed in it (segment %d failed once earlier)", k+1, req.Values, fr.Err, fc.Armed), wit)
		case fr.Err == "" && fr.Fired:
			suspicious = true
			sk.Violate(c, "fetch-after-io-fault:error-swallowed", fmt.Sprintf("fetch %d of %v returns %v although the read of segment %d failed in it", k+1, req.Values, fr.Vals, fc.Armed), wit)
		case fr.Err == "" && strings.Join(fr.Vals, "\n") != strings.Join(res.In, "\n"):
			suspicious = true
			sk.Violate(c, "fetch-after-io-fault:wrong-data", fmt.Sprintf("fetch %d of the cached object returns %v for the written sequence %v (the read of segment %d failed once in an earlier fetch)", k+1, fr.Vals, res.In, fc.Armed), wit)
		}
		// binding: which fetch fails and how many segments each one reads
		if (fr.Err == "") != fc.Log[k].Ok || fr.Reads != fc.Log[k].Reads {
			sk.drift(e, "cached fetch %d of %v with segment %d failing once: spec predicts ok=%v reads=%d, real ok=%v reads=%d (%s)", k+1, req.Values, fc.Armed, fc.Log[k].Ok, fc.Log[k].Reads, fr.Err == "", fr.Reads, fr.Err)
		}
	}
	if res.NSegs != len(fc.Segs) {
		sk.drift(e, "segments read by a fetch of %v: spec predicts %d, real %d", req.Values, len(fc.Segs), res.NSegs)
	}
	if suspicious {
		run.reset()
	}
	return nil
}

func parseFCases(res *core.TLCResult) ([]FCase, error) {
	var out []FCase
	for _, p := range res.Prints {
		if !strings.HasPrefix(p, "\"") {
			continue
		}
		var s string
		if err := json.Unmarshal([]byte(p), &s); err != nil {
			return nil, err
		}
		var fc FCase
		if err := json.Unmarshal([]byte(s), &fc); err != nil {
			return nil, fmt.Errorf("cannot parse exported fetch case: %v", err)
		}
		out = append(out, fc)
	}
	keys := make([]string, len(out))
	for i := range out {
		b, _ := json.Marshal(out[i].Seq)
		keys[i] = fmt.Sprintf("%s|%03d", b, out[i].Armed)
	}
	sort.Sort(&byKey{keys: keys, swap: func(i, j int) { out[i], out[j] = out[j], out[i] }})
	return out, nil
}

// ----------------------------------------------------------------- boundary

// boundary binds the encoding rule at the real constant: columns with d
// distinct values, the predicted kind taken from the spec's rule table.
func (e *env) boundary() error {
	c := e.c
	type prim struct {
		typ      string
		lit      func(i int) string
		eightbit bool
	}
	prims := []prim{
		{"int64", func(i int) string { return fmt.Sprint(i - 5) }, false},
		{"string", func(i int) string { return fmt.Sprintf("%q", fmt.Sprintf("s%d", i)) }, false},
		{"float64", func(i int) string { return fmt.Sprintf("%d.25", i) }, false},
		{"ip", func(i int) string { return fmt.Sprintf("10.1.%d.%d", i/256, i%256) }, false},
		{"net", func(i int) string { return fmt.Sprintf("10.%d.%d.0/24", i/256, i%256) }, false},
		{"bytes", func(i int) string { return fmt.Sprintf("0x%04x", i) }, false},
		{"type", func(i int) string { return fmt.Sprintf("<{f%d:int64}>", i) }, false},
		{"uint16", func(i int) string { return fmt.Sprint(i) }, false},
		{"uint8", func(i int) string { return fmt.Sprint(i % 256) }, true},
	}
	ds := []int{1, 2, 255, 256, 257, 300}
	n := 0
	var jobs []func(sk *sink) error
	for pi, p := range prims {
		for _, d := range ds {
			if p.eightbit && d > 256 {
				continue
			}
			for nullMode := 0; nullMode < 4; nullMode++ { // none, start, middle, end
				for wrap := 0; wrap < 3; wrap++ { // top level, record field, array elements
					if !c.Quick() || (n+int(c.Seed))%3 == 0 || wrap == 0 {
						pi, p, d, nullMode, wrap := pi, p, d, nullMode, wrap
						jobs = append(jobs, func(sk *sink) error {
							return e.boundaryCase(sk, pi, p.typ, p.lit, p.eightbit, d, nullMode, wrap)
						})
					}
					n++
				}
			}
		}
	}
	return runJobs(jobs, cap(e.pool))
}

func (e *env) boundaryCase(sk *sink, pi int, typ string, lit func(int) string, eightbit bool, d, nullMode, wrap int) error {
	c := e.c
	var lits []string
	total := d + 7
	if d == 1 {
		total = 3
	}
	for i := 0; i < total; i++ {
		lits = append(lits, lit(i%d))
	}
	null := "null"
	switch nullMode {
	case 1:
		lits = append([]string{null, null}, lits...)
	case 2:
		mid := len(lits) / 2
		lits = append(lits[:mid:mid], append([]string{null}, lits[mid:]...)...)
	case 3:
		lits = append(lits, null, null, null)
	}
	var values []string
	var paths [][]string
	switch wrap {
	case 0:
		for _, l := range lits {
			values = append(values, l+"("+typ+")")
		}
	case 1:
		for i, l := range lits {
			values = append(values, fmt.Sprintf("{k:%d,v:%s}({k:int64,v:%s})", i%2, l, typ))
		}
		paths = [][]string{{"v"}}
	case 2:
		values = append(values, "["+strings.Join(lits, ",")+"](["+typ+"])", "[](["+typ+"])")
	}
	req := &request{ID: 2, Universe: 0, Values: values, Meta: true, Label: fmt.Sprintf("boundary|%s|%d|%d|%d", typ, d, nullMode, wrap)}
	if paths != nil {
		req.Projs = [][][]string{paths}
	}
	wit := &witness{Kind: "boundary", Values: values, Paths: paths}
	run := <-e.pool
	defer func() { e.pool <- run }()
	out, err := run.do(req)
	if err != nil {
		return err
	}
	e.mu.Lock()
	defer e.mu.Unlock()
	key := fmt.Sprintf("boundary|%s|%d|%d|%d", typ, d, nullMode, wrap)
	c.Eval(key, true)
	table := e.rule.Dictable
	if eightbit {
		table = e.rule.Eightbit
	}
	want := table[d]
	plainNet := typ == "net" && want == "plain"
	if out.crashed {
		what := fmt.Sprintf("the process panics in stage %q for %d values of type %s with %d distinct values: %s", out.stage, len(lits), typ, d, out.panic)
		if plainNet && (out.stage == "vec" || strings.HasPrefix(out.stage, "proj")) {
			sk.Violate(c, sigNetPlain, what, wit)
		} else {
			sk.Violate(c, fmt.Sprintf("crash:%s:boundary:%s:%s", out.stage[:min(4, len(out.stage))], typ, want), what, wit)
		}
		return nil
	}
	res := out.res
	if res.Err != "" {
		return fmt.Errorf("boundary %s: %s", key, res.Err)
	}
	if res.Row.Err != "" || strings.Join(res.Row.Vals, "\n") != strings.Join(res.In, "\n") {
		sk.Violate(c, fmt.Sprintf("row-reader:boundary:%s:%s", typ, want), fmt.Sprintf("vngio.NewReader does not return the %d written values of type %s with %d distinct values (%s)", len(res.In), typ, d, res.Row.Err), wit)
	}
	if res.Vec.Err != "" || strings.Join(res.Vec.Vals, "\n") != strings.Join(res.In, "\n") {
		run.reset()
		what := fmt.Sprintf("vcache+vam do not return the %d written values of type %s with %d distinct values (%s)", len(res.In), typ, d, res.Vec.Err)
		if plainNet {
			sk.Violate(c, sigNetPlain, what, wit)
		} else {
			sk.Violate(c, fmt.Sprintf("vector-path:boundary:%s:%s", typ, want), what, wit)
		}
	}
	for pi, pr := range res.Proj {
		full := res.Full[pi]
		bad := pr.Err != "" || len(pr.Nav) != len(full)
		for i := 0; !bad && i < len(full); i++ {
			bad = strings.Join(pr.Nav[i], "\x00") != strings.Join(full[i], "\x00")
		}
		if bad {
			run.reset()
			if plainNet {
				sk.Violate(c, sigNetPlain, "projection of a plain net column fails: "+pr.Err, wit)
			} else {
				sk.Violate(c, fmt.Sprintf("projection:boundary:%s:%s", typ, want), fmt.Sprintf("projection %v does not return the data at its path (%s)", paths, pr.Err), wit)
			}
		}
	}
	// binding: the leaf's real encoding kind is the one the spec's rule gives
	got := leafOf(res.Meta)
	if got != want {
		sk.drift(e, "encoding rule: %d distinct values of %s: spec (DictMax=256) says %s, real metadata has %s", d, typ, want, got)
	}
	e.kinds["boundary-"+got]++
	return nil
}

// fixedCases re-runs the minimal witness of every known finding on each
// invocation (nothing is reported when the code no longer fails on it).
func (e *env) fixedCases() error {
	type fixed struct {
		sig    string
		values []string
		paths  [][]string
	}
	cases := []fixed{
		{sigUnionNulls, []string{`1((int64,string))`, `null((int64,string))`, `"a"((int64,string))`}, nil},
		{sigUnionNulls, []string{`null({u:(int64,string),b:int64})`, `{u:1,b:1}({u:(int64,string),b:int64})`}, nil},
		{sigErrorNulls, []string{`null({e:error(string),a:int64})`, `{e:null,a:1}({e:error(string),a:int64})`}, nil},
		{sigEnum, []string{`%x(enum(x,y))`, `%y(enum(x,y))`}, nil},
		{sigPartial, []string{`{r:[{a:1,b:"x"}],c:1}({r:[{a:int64,b:string}],c:int64})`}, [][]string{{"r", "a"}}},
		// a forked projection one leg of which continues below a record whose
		// other columns have nulls of their own: dictionary-encoded sibling
		// (the loader must not walk it without its nulls) and constant sibling
		// (the full read of the same warm object must still see its nulls)
		{"projection:forked-below-record-with-null-siblings", []string{`{id:1,a:{x:1,y:"p"}}`, `{id:2,a:{x:2,y:null(string)}}`, `{id:3,a:{x:3,y:"q"}}`}, [][]string{{"id"}, {"a", "x"}}},
		{"projection:forked-below-record-with-null-siblings", []string{`{id:1,a:{x:1,y:"same"}}`, `{id:2,a:{x:2,y:null(string)}}`, `{id:3,a:{x:3,y:"same"}}`}, [][]string{{"id"}, {"a", "x"}}},
	}
	for i, fc := range cases {
		req := &request{Values: fc.values, Label: fmt.Sprintf("fixed|%d", i)}
		if fc.paths != nil {
			req.Projs = [][][]string{fc.paths}
		}
		wit := &witness{Kind: "boundary", Values: fc.values, Paths: fc.paths}
		run := <-e.pool
		out, err := run.do(req)
		e.pool <- run
		if err != nil {
			return err
		}
		e.c.Eval(fmt.Sprintf("fixed|%d", i), true)
		if out.crashed {
			e.c.Violate(fc.sig, fmt.Sprintf("the process panics in stage %q for %v: %s", out.stage, fc.values, out.panic), wit)
			continue
		}
		res := out.res
		if res.Err != "" {
			return fmt.Errorf("fixed case %v: %s", fc.values, res.Err)
		}
		if res.Row.Err != "" || strings.Join(res.Row.Vals, "\n") != strings.Join(res.In, "\n") {
			e.c.Violate("row-reader:fixed", fmt.Sprintf("vngio.NewReader returns %v for %v", res.Row.Vals, res.In), wit)
		}
		if res.Vec.Err != "" || strings.Join(res.Vec.Vals, "\n") != strings.Join(res.In, "\n") {
			run.reset()
			e.c.Violate(fc.sig, fmt.Sprintf("vcache+vam materialize %v (%s) for the written sequence %v", res.Vec.Vals, res.Vec.Err, res.In), wit)
		}
		for pi, pr := range res.Proj {
			full := res.Full[pi]
			bad := pr.Err != "" || len(pr.Nav) != len(full)
			for k := 0; !bad && k < len(full); k++ {
				bad = strings.Join(pr.Nav[k], "\x00") != strings.Join(full[k], "\x00")
			}
			if bad {
				e.c.Violate(fc.sig, fmt.Sprintf("projection %v of %v yields %v (%s)", fc.paths, res.In, pr.Vals, pr.Err), wit)
			}
		}
		for _, wr := range res.Warm {
			if wr.Err != "" || strings.Join(wr.Vals, "\n") != strings.Join(res.In, "\n") {
				run.reset()
				e.c.Violate(fc.sig, fmt.Sprintf("after projection %v on a cached object of %v, the full read of the same object yields %v (%s)", fc.paths, res.In, wr.Vals, wr.Err), wit)
			}
		}
	}
	return nil
}

func leafOf(cols []Shape) string {
	if len(cols) == 0 {
		return "none"
	}
	s := cols[0]
	for {
		switch s.K {
		case "const", "dict", "plain":
			return s.K
		}
		if len(s.Kids) == 0 {
			return s.K
		}
		s = s.Kids[len(s.Kids)-1]
	}
}

// --------------------------------------------------------------------- main

func parseCases(res *core.TLCResult) ([]Case, error) {
	var out []Case
	for _, p := range res.Prints {
		if !strings.HasPrefix(p, "\"") {
			continue
		}
		var s string
		if err := json.Unmarshal([]byte(p), &s); err != nil {
			return nil, err
		}
		var cs Case
		if err := json.Unmarshal([]byte(s), &cs); err != nil {
			return nil, fmt.Errorf("cannot parse exported case: %v", err)
		}
		out = append(out, cs)
	}
	// TLC's workers print in no particular order: fix one, so that sampling
	// (scale 255, defect replays, evidence samples) is the same in every run
	keys := make([]string, len(out))
	for i := range out {
		b, _ := json.Marshal(out[i].Seq)
		keys[i] = string(b)
	}
	sort.Sort(&byKey{keys: keys, swap: func(i, j int) { out[i], out[j] = out[j], out[i] }})
	return out, nil
}

type byKey struct {
	keys []string
	swap func(i, j int)
}

func (b *byKey) Len() int           { return len(b.keys) }
func (b *byKey) Less(i, j int) bool { return b.keys[i] < b.keys[j] }
func (b *byKey) Swap(i, j int)      { b.keys[i], b.keys[j] = b.keys[j], b.keys[i]; b.swap(i, j) }

func run(c *core.Ctx) error {
	c.Trust("TLC 1.8; the harness's instantiation of abstract values as ZSON literals (zson parser) and its projection of real values/metadata onto the spec's vocabulary; child-process isolation of panics")
	c.Assume("type families of depth <= 3 (primitives incl. 8-bit and enum, records, nested records, arrays/sets/maps of records, unions, named and error types), sequences of <= 3-4 values (scaled x255 for the dictionary boundary), primitive tokens mapped to int64/float64/duration/time, string/bytes, uint8/int8/bool variants; compression codec and segment byte layout are exercised, not modelled")
	c.Note("VngFetch.tla: one cached vcache.Object fetched 3 times with a one-shot ReadAt failure at every segment (file order); a fetch fails only when the failure is delivered in it, every other fetch returns the written sequence and reads nothing twice")
	c.Rule("cases = every value sequence up to MaxLen over each family's alphabet enumerated by TLC from VngEnc.tla (with the predicted column tree and the predicted results of the row reader, the vector path and each projection), instantiated with a seed-chosen variant of concrete types at scale 1 and, for a sample, at scale 255 (columns of 255/256/257 distinct values), plus boundary columns of 1,2,255,256,257,300 distinct values x null placement x nesting whose kind is predicted by the spec's rule table at DictMax=256; distinct = (family, sequence, scale) / boundary parameters; non-trivial = the sequence is non-empty")
	e := &env{c: c, kinds: map[string]int{}, defect: map[string]int{}}
	nrun := 8
	e.pool = make(chan *runner, nrun)
	for i := 0; i < nrun; i++ {
		r := &runner{}
		e.all = append(e.all, r)
		e.pool <- r
	}
	defer func() {
		for _, r := range e.all {
			if r.c != nil {
				r.c.stop()
			}
		}
	}()
	if c.Replay != "" {
		return replay(e)
	}
	tier := "quick"
	if !c.Quick() {
		tier = "thorough"
	}
	families := []string{"prim", "rec", "nest", "arr", "union", "wrap"}
	if only := os.Getenv("C03_ONLY"); only != "" {
		families = strings.Split(only, ",")
	}
	type tout struct {
		res    *core.TLCResult
		cases  []Case
		fcases []FCase
		err    error
	}
	fetchFams := []string{"rec", "arr"}
	if !c.Quick() {
		fetchFams = []string{"rec", "arr", "nest", "wrap"}
	}
	if os.Getenv("C03_ONLY") != "" {
		fetchFams = nil
	}
	runs := append(append([]string{}, families...), "rule")
	for _, f := range fetchFams {
		runs = append(runs, "fetch-"+f)
	}
	outs := make([]tout, len(runs))
	var wg sync.WaitGroup
	sem := make(chan struct{}, 9)
	for i, f := range runs {
		wg.Add(1)
		go func(i int, f string) {
			defer wg.Done()
			sem <- struct{}{}
			defer func() { <-sem }()
			module, cfg := "VngEnc", "VngEnc."+f+"."+tier+".cfg"
			if f == "rule" {
				cfg = "VngEnc.rule.cfg"
			}
			if strings.HasPrefix(f, "fetch-") {
				module, cfg = "VngFetch", "VngFetch."+strings.TrimPrefix(f, "fetch-")+"."+tier+".cfg"
			}
			res := c.MustHold(core.TLCRun{Module: module, Cfg: cfg, Workers: 4, Timeout: 15 * time.Minute})
			if res == nil {
				outs[i].err = fmt.Errorf("TLC run %s did not hold", f)
				return
			}
			outs[i].res = res
			if strings.HasPrefix(f, "fetch-") {
				outs[i].fcases, outs[i].err = parseFCases(res)
			} else if f != "rule" {
				outs[i].cases, outs[i].err = parseCases(res)
			}
		}(i, f)
	}
	wg.Wait()
	for i, f := range runs {
		if outs[i].err != nil {
			return fmt.Errorf("%s: %w", f, outs[i].err)
		}
		if strings.HasPrefix(f, "fetch-") {
			c.Logf("TLC %-10s %6d states, %d fetch schedules: FetchOK holds (%.1fs)", f, outs[i].res.Distinct, len(outs[i].fcases), outs[i].res.Wall.Seconds())
			c.Set("tlc_"+f, map[string]any{"states": outs[i].res.Distinct, "schedules": len(outs[i].fcases), "wall_s": outs[i].res.Wall.Seconds()})
			continue
		}
		if f == "rule" {
			for _, p := range outs[i].res.Prints {
				var s string
				if json.Unmarshal([]byte(p), &s) == nil && strings.HasPrefix(s, "{\"dictable\"") {
					if err := json.Unmarshal([]byte(s), &e.rule); err != nil {
						return err
					}
				}
			}
			if len(e.rule.Dictable) < 258 {
				return fmt.Errorf("TLC did not export the encoding rule table")
			}
			c.Set("rule_table", fmt.Sprintf("d=0:%s 1:%s 2:%s 256:%s 257:%s; 8-bit 1:%s 2:%s", e.rule.Dictable[0], e.rule.Dictable[1], e.rule.Dictable[2], e.rule.Dictable[256], e.rule.Dictable[257], e.rule.Eightbit[1], e.rule.Eightbit[2]))
			continue
		}
		c.Logf("TLC %-6s %6d sequences: RowOK, VecOK, ProjOK hold (%.1fs)", f, outs[i].res.Distinct, outs[i].res.Wall.Seconds())
		c.Set("tlc_"+f, map[string]any{"states": outs[i].res.Distinct, "cases": len(outs[i].cases), "wall_s": outs[i].res.Wall.Seconds()})
	}
	total, wide := 0, 0
	var neg *Case
	var jobs []func(sk *sink) error
	for i, f := range families {
		for j := range outs[i].cases {
			f, j := f, j
			cs := &outs[i].cases[j]
			key, _ := json.Marshal(cs.Seq)
			uni := pickUniverse(c.Seed, f+string(key))
			if f == "arr" {
				uni -= uni % 4 // int64 map keys: the normalized entry order is the token order
			}
			// Every modelled defect of the vector path is replayed on its first
			// cases (in export order); beyond that only the writer, the metadata
			// and the row reader are checked for such cases (each replay costs a
			// crashed child).  Decided here, sequentially, so that the same cases
			// are replayed in every run.
			skip := false
			for _, d := range cs.Defects {
				if e.defect[d] >= defectReplays {
					skip = true
				}
			}
			for _, d := range cs.Defects {
				e.defect[d]++
			}
			if skip {
				e.skipped++
			}
			jobs = append(jobs, func(sk *sink) error {
				if err := e.checkCase(sk, f, cs, uni, 1, skip); err != nil {
					return err
				}
				c.Eval(f+"|1|"+string(key), len(cs.Seq) > 0)
				return nil
			})
			total++
			// a sample at the dictionary boundary scale
			every := 14
			if !c.Quick() {
				every = 16
			}
			if (j+int(c.Seed))%every == 0 && len(cs.Seq) > 0 {
				jobs = append(jobs, func(sk *sink) error {
					if err := e.checkCase(sk, f, cs, uni, 255, skip); err != nil {
						return err
					}
					c.Eval(f+"|255|"+string(key), true)
					return nil
				})
				wide++
			}
			if neg == nil && len(cs.Seq) == 2 && len(cs.Defects) == 0 && len(cs.Cols) == 1 {
				neg = cs
			}
			if total%499 == 1 {
				c.Sample(map[string]any{"family": f, "universe": uni, "sequence": exampleValues(cs, uni), "predicted_columns": shapesStr(cs.Cols), "modelled_defects": cs.Defects})
			}
		}
	}
	// cached objects fetched repeatedly with a one-shot storage failure
	phase1 := 0
	for i, f := range runs {
		if !strings.HasPrefix(f, "fetch-") {
			continue
		}
		for j := range outs[i].fcases {
			f := f
			fc := &outs[i].fcases[j]
			key, _ := json.Marshal(fc.Seq)
			uni := pickUniverse(c.Seed, f+string(key))
			if strings.HasSuffix(f, "arr") {
				uni -= uni % 4
			}
			if fc.Armed > 0 && fc.Segs[fc.Armed-1] == 1 {
				phase1++
			}
			jobs = append(jobs, func(sk *sink) error {
				if err := e.checkFetchCase(sk, f, fc, uni); err != nil {
					return err
				}
				c.Eval(fmt.Sprintf("%s|%s|%d", f, key, fc.Armed), fc.Armed > 0)
				return nil
			})
		}
	}
	if len(fetchFams) > 0 && phase1 == 0 {
		c.Inconclusive("vacuous: no fetch schedule fails the read of a null run-length segment")
	}
	c.Set("fetch_schedules_failing_a_null_run_segment", phase1)
	if err := runJobs(jobs, cap(e.pool)); err != nil {
		return err
	}
	c.Set("cached_fetch_schedules_replayed", e.fetchCases)
	c.Set("cached_fetch_schedules_with_fault", e.faulted)
	c.Logf("replayed %d cases at scale 1 and %d at scale 255 on the real writer/readers: %d drifted, %d violations", total, wide, e.drifts, c.Violations())
	c.Set("cases_replayed", total)
	c.Set("cases_at_dictionary_scale", wide)
	c.Set("exhaustive", true)
	c.Add("traces_validated_against_impl", int64(total+wide))
	if err := e.boundary(); err != nil {
		return err
	}
	if err := e.fixedCases(); err != nil {
		return err
	}
	late := 0
	for _, r := range e.all {
		late += r.late
	}
	c.Set("children_died_after_answering", late)
	for _, r := range e.all {
		for _, label := range r.lateOf {
			c.Violate("crash:after-answer", "the child process died after answering the request "+label+" (a goroutine of the code under test panicked after the call had returned)", map[string]any{"kind": "late-death", "request": label})
		}
	}
	c.Set("real_column_kinds_seen", e.kinds)
	c.Set("cases_with_modelled_defect", e.defect)
	c.Set("defect_cases_replayed_without_vector_path", e.skipped)
	c.Logf("boundary columns done: kinds seen %v; %d violations", e.kinds, c.Violations())
	for _, k := range []string{"const", "dict", "plain", "nulls", "rec", "arr", "set", "map", "union", "named", "err", "boundary-const", "boundary-dict", "boundary-plain"} {
		if e.kinds[k] == 0 {
			c.Inconclusive("vacuous: no real column of kind %q was produced", k)
		}
	}
	for _, d := range []string{"union-nulls"} {
		if e.defect[d] == 0 {
			c.Inconclusive("vacuous: no case reaches the modelled defect %q", d)
		}
	}
	// Negative control: a corrupted prediction must be noticed.
	if neg != nil {
		bad := *neg
		bad.Row = append([]int(nil), neg.Row...)
		bad.Row[len(bad.Row)-1]++
		before := e.drifts
		e.quiet = true
		nsk := &sink{}
		err := e.checkCase(nsk, "negative-control", &bad, 0, 1, false)
		nsk.flush()
		e.quiet = false
		if err != nil {
			return err
		}
		if e.drifts == before {
			c.Inconclusive("negative control failed: a corrupted predicted result was not noticed")
		} else {
			e.drifts = before
			c.Set("negative_control", "a corrupted predicted result is noticed: "+e.lastQuiet)
		}
	}
	return nil
}

// runJobs runs the jobs on n goroutines, then reports their verdicts in job
// order, and returns the first error.
func runJobs(jobs []func(sk *sink) error, n int) error {
	var wg sync.WaitGroup
	var mu sync.Mutex
	var first error
	sinks := make([]sink, len(jobs))
	next := 0
	for w := 0; w < n; w++ {
		wg.Add(1)
		go func() {
			defer wg.Done()
			for {
				mu.Lock()
				if next >= len(jobs) || first != nil {
					mu.Unlock()
					return
				}
				k := next
				next++
				mu.Unlock()
				if err := jobs[k](&sinks[k]); err != nil {
					mu.Lock()
					if first == nil {
						first = err
					}
					mu.Unlock()
				}
			}
		}()
	}
	wg.Wait()
	for k := range sinks {
		sinks[k].flush()
	}
	return first
}

func exampleValues(cs *Case, uniIdx int) []string {
	u := newUni(uniIdx)
	var out []string
	for _, el := range cs.Seq {
		s, err := u.value(cs.Ty[el.T-1], el.D, u.unitTok)
		if err != nil {
			s = err.Error()
		}
		out = append(out, s)
	}
	return out
}

func shapesStr(ss []Shape) []string {
	var out []string
	for _, s := range ss {
		out = append(out, shapeStr(s))
	}
	return out
}

func replay(e *env) error {
	var w witness
	sig, err := e.c.ReplayWitness(&w)
	if err != nil {
		return err
	}
	fmt.Printf("replaying %s witness, signature %s\n", w.Kind, sig)
	e.rule.Dictable = make([]string, 400)
	e.rule.Eightbit = make([]string, 400)
	switch w.Kind {
	case "case":
		fmt.Println("values:", exampleValues(w.Case, w.Universe))
		scale := w.Scale
		if scale == 0 {
			scale = 1
		}
		rsk := &sink{}
		err := e.checkCase(rsk, w.Family, w.Case, w.Universe, scale, false)
		rsk.flush()
		return err
	case "boundary":
		req := &request{ID: 3, Values: w.Values}
		if w.Paths != nil {
			req.Projs = [][][]string{w.Paths}
		}
		run := <-e.pool
		out, err := run.do(req)
		e.pool <- run
		if err != nil {
			return err
		}
		if out.crashed {
			fmt.Println("crash in stage", out.stage, out.panic)
			e.c.Violate(sig, "replayed: crash in "+out.stage, w)
			return nil
		}
		ok := out.res.Vec.Err == "" && strings.Join(out.res.Vec.Vals, "\n") == strings.Join(out.res.In, "\n") &&
			strings.Join(out.res.Row.Vals, "\n") == strings.Join(out.res.In, "\n")
		fmt.Println("round trip ok:", ok, out.res.Vec.Err)
		if !ok {
			e.c.Violate(sig, "replayed: round trip differs", w)
		}
	}
	return nil
}

func main() {
	if os.Getenv("C03_CHILD") != "" {
		childMain()
		return
	}
	core.Main("C03", "model_checking", run)
}
