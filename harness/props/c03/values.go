package main

import (
	"bytes"
	"encoding/json"
	"fmt"
	"sort"
	"strings"

	zed "github.com/brimdata/super"
	"github.com/brimdata/super/zcode"
	"github.com/brimdata/super/zson"
)

// Term is a type term of VngEnc.tla.
type Term struct {
	K string   `json:"k"`
	S []string `json:"s"`
	C []Term   `json:"c"`
}

// Datum is an abstract value of VngEnc.tla.
type Datum struct {
	K string          `json:"k"` // p r a m u x
	N bool            `json:"n"`
	V json.RawMessage `json:"v"`
	S []string        `json:"s"`
	X int             `json:"x"`
}

type Elem struct {
	T int   `json:"t"`
	D Datum `json:"d"`
}

// Shape is what the spec predicts about the column tree (and what the
// harness reads off the real VNG metadata).
type Shape struct {
	K    string  `json:"k"`
	Kids []Shape `json:"kids"`
	N    []int   `json:"n"`
}

type ProjCase struct {
	Paths   [][]string `json:"paths"`
	Res     []int      `json:"res"`
	Partial bool       `json:"partial"`
}

// Case is one line exported by TLC.
type Case struct {
	Seq     []Elem     `json:"seq"`
	Ty      []Term     `json:"ty"`
	Types   []int      `json:"types"`
	Tags    []int      `json:"tags"`
	Cols    []Shape    `json:"cols"`
	Row     []int      `json:"row"`
	Vec     []int      `json:"vec"`
	Want    []int      `json:"want"`
	Defects []string   `json:"defects"`
	Proj    []ProjCase `json:"proj"`
}

// primSpec is one concrete primitive type with three literals in increasing
// order (the order the dictionary is sorted in).
type primSpec struct {
	Type string
	Lits [3]string
}

var iVariants = []primSpec{
	{"int64", [3]string{"-1", "7", "9223372036854775807"}},
	{"float64", [3]string{"-1.5", "0.", "+Inf"}},
	{"duration", [3]string{"-1s", "0s", "1h"}},
	{"time", [3]string{"1970-01-01T00:00:00Z", "2000-01-01T00:00:00Z", "2262-01-01T00:00:00Z"}},
}
var sVariants = []primSpec{
	{"string", [3]string{`""`, `"a"`, `"é"`}},
	{"bytes", [3]string{"0x", "0x00", "0xff"}},
}
var bVariants = []primSpec{
	{"uint8", [3]string{"0", "1", "255"}},
	{"int8", [3]string{"-128", "0", "127"}},
	{"bool", [3]string{"false", "true", "true"}},
}
var eVariant = primSpec{"enum(x,y,z)", [3]string{"%x", "%y", "%z"}}

const numUniverses = 4 * 2 * 3

// uni maps the spec's primitive kinds to concrete types and literals.
type uni struct {
	Idx   int
	prims map[string]primSpec
	// bytes of every literal, for the reverse mapping
	lit map[string][3]zcode.Bytes
}

func newUni(idx int) *uni {
	u := &uni{Idx: idx, prims: map[string]primSpec{}, lit: map[string][3]zcode.Bytes{}}
	u.prims["i"] = iVariants[idx%4]
	u.prims["s"] = sVariants[(idx/4)%2]
	u.prims["b"] = bVariants[(idx/8)%3]
	u.prims["e"] = eVariant
	zctx := zed.NewContext()
	for k, p := range u.prims {
		var l [3]zcode.Bytes
		for i, s := range p.Lits {
			v, err := zson.ParseValue(zctx, s+"("+p.Type+")")
			if err != nil {
				panic(fmt.Sprintf("literal %s(%s): %v", s, p.Type, err))
			}
			l[i] = append(zcode.Bytes{}, v.Bytes()...)
		}
		u.lit[k] = l
	}
	return u
}

// zsonType renders a type term.
func (u *uni) zsonType(t Term) string {
	switch t.K {
	case "prim":
		return u.prims[t.S[0]].Type
	case "rec":
		var f []string
		for i, c := range t.C {
			f = append(f, t.S[i]+":"+u.zsonType(c))
		}
		return "{" + strings.Join(f, ",") + "}"
	case "arr":
		return "[" + u.zsonType(t.C[0]) + "]"
	case "set":
		return "|[" + u.zsonType(t.C[0]) + "]|"
	case "map":
		return "|{" + u.zsonType(t.C[0]) + ":" + u.zsonType(t.C[1]) + "}|"
	case "union":
		var m []string
		for _, c := range t.C {
			m = append(m, u.zsonType(c))
		}
		return "(" + strings.Join(m, ",") + ")"
	case "named":
		return t.S[0] + "=" + u.zsonType(t.C[0])
	case "err":
		return "error(" + u.zsonType(t.C[0]) + ")"
	}
	panic("zsonType " + t.K)
}

func under(t Term) Term {
	for t.K == "named" || t.K == "err" {
		t = t.C[0]
	}
	return t
}

// literal renders a datum of type t without the outer type decoration.
// wrap is applied to primitive tokens (used to scale a case up).
func (u *uni) literal(t Term, d Datum, tok func(kind string, k int) string) (string, error) {
	return u.literalIn(t, d, tok, false)
}

func (u *uni) literalIn(t Term, d Datum, tok func(kind string, k int) string, inUnion bool) (string, error) {
	if t.K == "named" {
		return u.literalIn(t.C[0], d, tok, inUnion)
	}
	if t.K == "err" {
		if d.N {
			return "null", nil
		}
		in, err := u.literalIn(t.C[0], d, tok, false)
		if err != nil {
			return "", err
		}
		return "error(" + in + ")", nil
	}
	if d.N {
		if t.K == "prim" && inUnion {
			// inside a union a null member must say which member it is
			return "null(" + u.prims[t.S[0]].Type + ")", nil
		}
		return "null", nil
	}
	switch t.K {
	case "prim":
		var k int
		if err := json.Unmarshal(d.V, &k); err != nil {
			return "", err
		}
		return tok(t.S[0], k), nil
	case "rec":
		var fs []Datum
		if err := json.Unmarshal(d.V, &fs); err != nil {
			return "", err
		}
		var parts []string
		for i, f := range fs {
			s, err := u.literal(t.C[i], f, tok)
			if err != nil {
				return "", err
			}
			parts = append(parts, t.S[i]+":"+s)
		}
		return "{" + strings.Join(parts, ",") + "}", nil
	case "arr", "set":
		var es []Datum
		if err := json.Unmarshal(d.V, &es); err != nil {
			return "", err
		}
		var parts []string
		for _, e := range es {
			s, err := u.literal(t.C[0], e, tok)
			if err != nil {
				return "", err
			}
			parts = append(parts, s)
		}
		if t.K == "set" {
			return "|[" + strings.Join(parts, ",") + "]|", nil
		}
		return "[" + strings.Join(parts, ",") + "]", nil
	case "map":
		var ps [][2]Datum
		if err := json.Unmarshal(d.V, &ps); err != nil {
			return "", err
		}
		var parts []string
		for _, p := range ps {
			k, err := u.literal(t.C[0], p[0], tok)
			if err != nil {
				return "", err
			}
			v, err := u.literal(t.C[1], p[1], tok)
			if err != nil {
				return "", err
			}
			parts = append(parts, k+":"+v)
		}
		return "|{" + strings.Join(parts, ",") + "}|", nil
	case "union":
		var raw []json.RawMessage
		if err := json.Unmarshal(d.V, &raw); err != nil || len(raw) != 2 {
			return "", fmt.Errorf("bad union payload %s", d.V)
		}
		var tag int
		var in Datum
		if err := json.Unmarshal(raw[0], &tag); err != nil {
			return "", err
		}
		if err := json.Unmarshal(raw[1], &in); err != nil {
			return "", err
		}
		return u.literalIn(t.C[tag], in, tok, true)
	}
	return "", fmt.Errorf("literal: kind %s", t.K)
}

// value renders a typed ZSON value.
func (u *uni) value(t Term, d Datum, tok func(kind string, k int) string) (string, error) {
	ut := under(t)
	if d.N && ut.K == "prim" && t.K == "prim" {
		return "null(" + u.zsonType(t) + ")", nil
	}
	lit, err := u.literal(t, d, tok)
	if err != nil {
		return "", err
	}
	if d.N {
		return "null(" + u.zsonType(t) + ")", nil
	}
	return lit + "(" + u.zsonType(t) + ")", nil
}

func (u *uni) unitTok(kind string, k int) string { return u.prims[kind].Lits[k] }

// flat is the harness's implementation of the spec's Flat on a real value:
// the value as a sequence of integers in the spec's vocabulary.
func (u *uni) flat(t Term, typ zed.Type, b zcode.Bytes) []int {
	if e, ok := typ.(*zed.TypeError); ok && t.K != "err" {
		if e.Type == zed.TypeString && bytes.Equal(b, zed.Missing) {
			return []int{-1}
		}
		return []int{-3}
	}
	switch t.K {
	case "named":
		if n, ok := typ.(*zed.TypeNamed); ok {
			return u.flat(t.C[0], n.Type, b)
		}
		return []int{-4}
	case "err":
		if e, ok := typ.(*zed.TypeError); ok {
			return u.flat(t.C[0], e.Type, b)
		}
		return []int{-4}
	}
	kindNum := map[string]int{"prim": 1, "rec": 2, "arr": 3, "set": 3, "map": 4, "union": 5}[t.K]
	if b == nil {
		return []int{0, kindNum}
	}
	switch t.K {
	case "prim":
		for k, lb := range u.lit[t.S[0]] {
			if bytes.Equal(lb, b) {
				return []int{1, k}
			}
		}
		return []int{1, 99}
	case "rec":
		rt, ok := typ.(*zed.TypeRecord)
		if !ok {
			return []int{-4}
		}
		out := []int{2, len(rt.Fields)}
		it := b.Iter()
		for i, f := range rt.Fields {
			// projected records may carry fewer / other fields: find the spec field by name
			ft := Term{K: "prim", S: []string{"i"}}
			found := false
			for j, n := range t.S {
				if n == f.Name {
					ft, found = t.C[j], true
				}
			}
			fb := it.Next()
			if !found {
				_ = i
				out = append(out, u.flatUnknown(f.Type, fb)...)
				continue
			}
			out = append(out, u.flat(ft, f.Type, fb)...)
		}
		return out
	case "arr", "set":
		inner := zed.InnerType(typ)
		if inner == nil {
			return []int{-4}
		}
		var parts [][]int
		for it := b.Iter(); !it.Done(); {
			parts = append(parts, u.flat(t.C[0], inner, it.Next()))
		}
		if t.K == "set" {
			// element order is not part of a set: the spec lists tokens in increasing order
			sort.SliceStable(parts, func(i, j int) bool { return lessInts(parts[i], parts[j]) })
		}
		out := []int{3, len(parts)}
		for _, p := range parts {
			out = append(out, p...)
		}
		return out
	case "map":
		mt, ok := typ.(*zed.TypeMap)
		if !ok {
			return []int{-4}
		}
		type kv struct{ k, v []int }
		var ents []kv
		for it := b.Iter(); !it.Done(); {
			k := u.flat(t.C[0], mt.KeyType, it.Next())
			v := u.flat(t.C[1], mt.ValType, it.Next())
			ents = append(ents, kv{k, v})
		}
		sort.SliceStable(ents, func(i, j int) bool { return lessInts(ents[i].k, ents[j].k) })
		out := []int{4, len(ents)}
		for _, e := range ents {
			out = append(out, e.k...)
			out = append(out, e.v...)
		}
		return out
	case "union":
		ut, ok := typ.(*zed.TypeUnion)
		if !ok {
			return []int{-4}
		}
		it := b.Iter()
		tag := int(zed.DecodeInt(it.Next()))
		if tag < 0 || tag >= len(ut.Types) || tag >= len(t.C) {
			return []int{5, 99}
		}
		return append([]int{5, tag}, u.flat(t.C[tag], ut.Types[tag], it.Next())...)
	}
	return []int{-4}
}

// flatUnknown handles values whose spec type is not known (error("missing")
// placeholders in projected records).
func (u *uni) flatUnknown(typ zed.Type, b zcode.Bytes) []int {
	if e, ok := typ.(*zed.TypeError); ok && e.Type == zed.TypeString && bytes.Equal(b, zed.Missing) {
		return []int{-1}
	}
	return []int{-5}
}

func lessInts(a, b []int) bool {
	for i := 0; i < len(a) && i < len(b); i++ {
		if a[i] != b[i] {
			return a[i] < b[i]
		}
	}
	return len(a) < len(b)
}

func eqInts(a, b []int) bool {
	if len(a) != len(b) {
		return false
	}
	for i := range a {
		if a[i] != b[i] {
			return false
		}
	}
	return true
}
