// C16 -- pool-key pruning never changes a query's result.
//
// TLC (specs/Pruner.tla) enumerates every predicate up to a depth over a small
// cross-type key domain, checks the transcribed pruner sound against the
// transcribed evaluator, and exports the case table.  This harness replays
// every case on the real code: the real range pruner expression produced by
// the optimizer for `from pool | where <pred>` is evaluated on every key range
// and the real filter on every key; a pruned range that contains a key the
// real filter accepts is a violation.  Then real pools (many small objects,
// tiny seek stride, asc and desc) are queried with and without pruning and
// subjected to predicate deletes.
package main

import (
	"context"
	"fmt"
	"math/rand"
	"sort"
	"strings"

	zed "github.com/brimdata/super"
	"github.com/brimdata/super/api"
	"github.com/brimdata/super/compiler"
	"github.com/brimdata/super/compiler/ast/dag"
	"github.com/brimdata/super/compiler/data"
	"github.com/brimdata/super/lake"
	"github.com/brimdata/super/order"
	"github.com/brimdata/super/pkg/storage"
	"github.com/brimdata/super/runtime"
	"github.com/brimdata/super/runtime/sam/expr"
	"github.com/brimdata/super/zfmt"
	"github.com/brimdata/super/zson"
	"github.com/segmentio/ksuid"

	"verif/core"
	"verif/lakeh"
)

type tok struct {
	T string `json:"t"`
	N int    `json:"n"`
}

type pred struct {
	K    string `json:"k"`
	Op   string `json:"op,omitempty"`
	Lit  *tok   `json:"lit,omitempty"`
	Side string `json:"side,omitempty"`
	L    *pred  `json:"l,omitempty"`
	R    *pred  `json:"r,omitempty"`
	E    *pred  `json:"e,omitempty"`
}

type row struct {
	Pred  pred       `json:"pred"`
	Prune [][]string `json:"prune"`
	EvalT []string   `json:"evalT"`
	EvalF []string   `json:"evalF"`
}

// keySeq mirrors KeySeq of Pruner.tla (index 8 is MISSING).
var keySeq = []tok{{"int", 0}, {"int", 2}, {"float", 3}, {"int", 4}, {"int", 6}, {"str", 0}, {"str", 1}, {"null", 0}, {"nullint", 0}, {"missing", 0}}

const nRange = 9 // keySeq[:nRange] can be object bounds (missing cannot)

func lit(t tok) string {
	switch t.T {
	case "int":
		return fmt.Sprint(t.N / 2)
	case "float":
		return "1.5"
	case "str":
		return fmt.Sprintf("%q", string(rune('a'+t.N)))
	case "null":
		return "null"
	case "nullint":
		return "null(int64)"
	}
	panic("lit " + t.T)
}

// rec renders a record whose key is t and whose opaque field x is o.
func rec(t tok, o bool) string {
	x := 0
	if o {
		x = 1
	}
	if t.T == "missing" {
		return fmt.Sprintf("{x:%d}", x)
	}
	return fmt.Sprintf("{k:%s,x:%d}", lit(t), x)
}

func (p *pred) text() string {
	switch p.K {
	case "cmp":
		if p.Side == "kl" {
			return fmt.Sprintf("k %s %s", p.Op, lit(*p.Lit))
		}
		return fmt.Sprintf("%s %s k", lit(*p.Lit), p.Op)
	case "opaque":
		return "x == 1"
	case "not":
		return "not (" + p.E.text() + ")"
	case "and", "or":
		return "(" + p.L.text() + ") " + p.K + " (" + p.R.text() + ")"
	}
	panic("pred " + p.K)
}

// shape is the literal-free form used in violation signatures.
func (p *pred) shape() string {
	switch p.K {
	case "cmp":
		if p.Side == "kl" {
			return "k" + p.Op + "c:" + p.Lit.T
		}
		return "c" + p.Op + "k:" + p.Lit.T
	case "opaque":
		return "x"
	case "not":
		return "not(" + p.E.shape() + ")"
	default:
		return p.K + "(" + p.L.shape() + "," + p.R.shape() + ")"
	}
}

type env struct {
	c     *core.Ctx
	ctx   context.Context
	store *lakeh.MemStore
	lk    *lakeh.Lake
	src   *data.Source
	zctx  *zed.Context
	cmp   expr.CompareFn
}

// compiled is the real optimizer output for one predicate.
type compiled struct {
	pruner    expr.Evaluator // nil if the optimizer built none
	prunerTxt string
	filter    expr.Evaluator
}

func (e *env) compile(pool, text string) (*compiled, error) {
	seq, _, err := compiler.Parse(fmt.Sprintf("from %s | where %s", pool, text))
	if err != nil {
		return nil, err
	}
	rctx := runtime.NewContext(e.ctx, e.zctx)
	job, err := compiler.NewJob(rctx, seq, e.src, nil)
	if err != nil {
		return nil, err
	}
	if err := job.Optimize(); err != nil {
		return nil, err
	}
	var lister *dag.Lister
	var scan *dag.SeqScan
	for _, op := range job.Entry() {
		switch op := op.(type) {
		case *dag.Lister:
			lister = op
		case *dag.SeqScan:
			scan = op
		}
	}
	if lister == nil || scan == nil {
		return nil, fmt.Errorf("optimized plan has no Lister/SeqScan: %s", zfmt.DAG(job.Entry()))
	}
	out := &compiled{}
	if lister.KeyPruner != nil {
		out.prunerTxt = zfmt.DAGExpr(lister.KeyPruner)
		out.pruner, err = job.Builder().PushdownOf(lister.KeyPruner).AsEvaluator()
		if err != nil {
			return nil, err
		}
	}
	if scan.Filter == nil {
		return nil, fmt.Errorf("filter was not pushed into the scan: %s", zfmt.DAG(job.Entry()))
	}
	out.filter, err = job.Builder().PushdownOf(scan.Filter).AsEvaluator()
	if err != nil {
		return nil, err
	}
	return out, nil
}

func (e *env) val(text string) zed.Value {
	v, err := zson.ParseValue(e.zctx, text)
	if err != nil {
		panic(fmt.Sprintf("parse %s: %v", text, err))
	}
	return v
}

func isTrue(v zed.Value) bool { return v.Type() == zed.TypeBool && !v.IsNull() && v.Bool() }

func tri(v zed.Value) string {
	if v.IsError() {
		return "E"
	}
	if isTrue(v) {
		return "T"
	}
	return "F"
}

func run(c *core.Ctx) error {
	ctx := context.Background()
	e := &env{c: c, ctx: ctx, zctx: zed.NewContext(), cmp: expr.NewValueCompareFn(order.Asc, true)}
	e.store = lakeh.NewMemStore()
	lk, err := lakeh.Create(ctx, e.store, 0, nil)
	if err != nil {
		return err
	}
	e.lk = lk
	e.src = data.NewSource(storage.NewRemoteEngine(), lk.Root)
	if _, err := lk.CreatePool(ctx, "pa", "k", "asc", 0, 0); err != nil {
		return err
	}
	if _, err := lk.CreatePool(ctx, "pd", "k", "desc", 0, 0); err != nil {
		return err
	}
	c.Trust("TLC 1.8.0; harness projection of pruner/filter results; zson parser for literals")
	c.Assume("key domain {0,1,1.5,2,3,\"a\",\"b\",null,missing}; predicates up to the depth of the TLC config")
	c.Rule("cases = (predicate, key range) pairs enumerated by TLC from Pruner.tla and replayed on the real optimizer+evaluator, plus (pool layout, predicate) pairs run through the real lake; non-trivial = the real pruner pruned that range / at least one object or seek range was skipped")

	if c.Replay != "" {
		return replay(e)
	}

	cfg := "Pruner.quick.cfg"
	if !c.Quick() {
		cfg = "Pruner.thorough.cfg"
	}
	res := c.MustHold(core.TLCRun{Module: "Pruner", Cfg: cfg, Keep: []string{"cases.ndjson"}, Workers: 8})
	if res == nil {
		return nil
	}
	rows, err := core.ReadNDJSON[row](res, "cases.ndjson")
	if err != nil {
		return err
	}
	c.Logf("TLC exported %d predicates (Sound and NonVacuous hold in the model)", len(rows))
	c.Set("predicates", len(rows))
	c.Set("exhaustive", true)

	// (a) function level, exhaustive over the exported table.
	for i := range rows {
		if err := e.checkRow(&rows[i]); err != nil {
			return fmt.Errorf("predicate %s: %w", rows[i].Pred.text(), err)
		}
	}
	c.Add("traces_validated_against_impl", int64(len(rows)))
	c.Logf("function-level replay done: %d evaluations, %d violations", c.Count("evaluations"), c.Violations())

	// (b) system level: real pools.
	if err := e.system(rows); err != nil {
		return err
	}
	// Known findings: re-run witnesses (nothing is suppressed unless it still fails).
	return nil
}

// checkRow replays one predicate: every range x every key, asc and desc pools.
func (e *env) checkRow(r *row) error {
	c := e.c
	text := r.Pred.text()
	for _, pool := range []string{"pa", "pd"} {
		cp, err := e.compile(pool, text)
		if err != nil {
			return err
		}
		// Real evaluation of the filter on every key (opaque true/false).
		var realT, realF [10]string
		for i, k := range keySeq {
			realT[i] = tri(cp.filter.Eval(expr.NewContext(), e.val(rec(k, true))))
			realF[i] = tri(cp.filter.Eval(expr.NewContext(), e.val(rec(k, false))))
			if pool == "pa" && (realT[i] != r.EvalT[i] || realF[i] != r.EvalF[i]) {
				// "E" vs "F" are both "not true"; only T/non-T disagreement matters for the property,
				// but any disagreement is reported as drift of the evaluator transcription.
				c.Drift("evaluator: %s on %s: spec %s/%s real %s/%s", text, rec(k, true), r.EvalT[i], r.EvalF[i], realT[i], realF[i])
			}
		}
		for i := 0; i < nRange; i++ {
			for j := 0; j < nRange; j++ {
				specDec := r.Prune[i][j]
				if specDec == "-" {
					continue
				}
				mn, mx := keySeq[i], keySeq[j]
				realDec := "none"
				if cp.pruner != nil {
					obj := e.val(fmt.Sprintf("{min:%s,max:%s}", lit(mn), lit(mx)))
					if isTrue(cp.pruner.Eval(expr.NewContext(), obj)) {
						realDec = "T"
					} else {
						realDec = "F"
					}
				}
				if pool == "pa" && realDec != specDec {
					c.Drift("pruner: %s on [%s,%s]: spec %s real %s (%s)", text, lit(mn), lit(mx), specDec, realDec, cp.prunerTxt)
				}
				c.Eval(fmt.Sprintf("%s|%s|%d|%d", pool, text, i, j), realDec == "T")
				if realDec != "T" {
					continue
				}
				// The real pruner skips this range: no key inside may satisfy the real filter.
				mnv, mxv := e.val(lit(mn)), e.val(lit(mx))
				for ki, k := range keySeq {
					kv := zed.Null
					if k.T != "missing" {
						kv = e.val(lit(k))
					}
					if e.cmp(mnv, kv) > 0 || e.cmp(kv, mxv) > 0 {
						continue
					}
					if realT[ki] == "T" || realF[ki] == "T" {
						sig := "prune-unsound:" + r.Pred.shape()
						c.Violate(sig, fmt.Sprintf("range pruner for `%s` skips an object with key range [%s,%s] although key %s in that range satisfies the filter (pruner: %s)",
							text, lit(mn), lit(mx), rec(k, realT[ki] == "T"), cp.prunerTxt),
							map[string]any{"kind": "function", "pool": pool, "pred": r.Pred, "min": mn, "max": mx, "key": k})
					}
				}
			}
		}
	}
	if len(r.Pred.text()) > 0 && e.c.Count("evaluations")%5000 < 144 {
		c.Sample(map[string]any{"pred": text, "spec_prune_row0": r.Prune[0], "spec_eval": r.EvalT})
	}
	return nil
}

type layout struct {
	Name   string     `json:"name"`
	Dir    string     `json:"dir"`
	Stride int        `json:"stride"`
	Thresh int64      `json:"thresh"`
	Loads  [][]string `json:"loads"`
}

func (e *env) buildPool(store *lakeh.MemStore, l layout) (*lakeh.Lake, ksuid.KSUID, error) {
	lk, err := lakeh.Open(e.ctx, store, 0, nil)
	if err != nil {
		return nil, ksuid.Nil, err
	}
	id, err := lk.CreatePool(e.ctx, l.Name, "k", l.Dir, l.Stride, l.Thresh)
	if err != nil {
		return nil, ksuid.Nil, err
	}
	for _, batch := range l.Loads {
		if _, err := lk.LoadZSON(e.ctx, id, "main", strings.Join(batch, "\n")); err != nil {
			return nil, ksuid.Nil, err
		}
	}
	return lk, id, nil
}

// expected = full scan followed by the same (real) filter.
func (e *env) expected(all []string, f expr.Evaluator) (match, rest []string) {
	for _, s := range all {
		if isTrue(f.Eval(expr.NewContext(), e.val(s))) {
			match = append(match, s)
		} else {
			rest = append(rest, s)
		}
	}
	return
}

func (e *env) system(rows []row) error {
	c := e.c
	rng := rand.New(rand.NewSource(c.Seed + 16))
	nLayouts, nPreds := 6, 60
	if !c.Quick() {
		nLayouts, nPreds = 24, 300
	}
	for li := 0; li < nLayouts; li++ {
		l := layout{Name: fmt.Sprintf("s%d", li), Dir: []string{"asc", "desc"}[li%2],
			Stride: []int{1, 40, 2000}[rng.Intn(3)], Thresh: []int64{1, 60, 200, 0}[rng.Intn(4)]}
		nLoads := 1 + rng.Intn(4)
		uid := 0
		for b := 0; b < nLoads; b++ {
			var batch []string
			n := 1 + rng.Intn(12)
			for i := 0; i < n; i++ {
				k := keySeq[rng.Intn(len(keySeq))]
				uid++
				r := rec(k, rng.Intn(2) == 1)
				batch = append(batch, strings.TrimSuffix(r, "}")+fmt.Sprintf(",u:%d}", uid))
			}
			l.Loads = append(l.Loads, batch)
		}
		picks := make([]*row, 0, nPreds)
		for i := 0; i < nPreds; i++ {
			a := &rows[rng.Intn(len(rows))]
			if i%2 == 0 || a.Pred.K != "cmp" {
				picks = append(picks, a)
				continue
			}
			// compose two key comparisons (disjoint / overlapping / nested ranges inside one object)
			b := &rows[rng.Intn(len(rows))]
			for tries := 0; b.Pred.K != "cmp" && tries < 20; tries++ {
				b = &rows[rng.Intn(len(rows))]
			}
			pa, pb := a.Pred, b.Pred
			picks = append(picks, &row{Pred: pred{K: []string{"or", "and"}[rng.Intn(2)], L: &pa, R: &pb}})
		}
		if err := e.checkLayout(l, picks); err != nil {
			return fmt.Errorf("layout %+v: %w", l, err)
		}
	}
	return nil
}

func (e *env) checkLayout(l layout, picks []*row) error {
	c := e.c
	lk, _, err := e.buildPool(e.store, l)
	if err != nil {
		return err
	}
	all, err := lk.Query(e.ctx, "from "+l.Name)
	if err != nil {
		return err
	}
	objs, err := lk.Objects(e.ctx, l.Name, "main")
	if err != nil {
		return err
	}
	for _, r := range picks {
		text := r.Pred.text()
		cp, err := e.compile(l.Name, text)
		if err != nil {
			return err
		}
		want, rest := e.expected(all, cp.filter)
		got, err := lk.Query(e.ctx, fmt.Sprintf("from %s | where %s", l.Name, text))
		if err != nil {
			return fmt.Errorf("query where %s: %w", text, err)
		}
		// count objects the real pruner would skip (non-triviality measure)
		pruned := 0
		if cp.pruner != nil {
			for _, o := range objs {
				if isTrue(cp.pruner.Eval(expr.NewContext(), e.val(fmt.Sprintf("{min:%s,max:%s}", o.Min, o.Max)))) {
					pruned++
				}
			}
		}
		c.Eval("sys|"+l.Name+"|"+text, pruned > 0)
		if !lakeh.Equal(got, want) {
			c.Violate("query-differs:"+r.Pred.shape(),
				fmt.Sprintf("`from pool | where %s` returns %d values but a full scan followed by the same filter returns %d (pool %s order, %d objects, %d pruned)", text, len(got), len(want), l.Dir, len(objs), pruned),
				map[string]any{"kind": "query", "layout": l, "pred": r.Pred, "got": got, "want": want})
			continue
		}
		// predicate delete on a copy of the storage
		if len(want) > 0 && len(picks) > 0 {
			st := e.store.Clone()
			lk2, err := lakeh.Open(e.ctx, st, 1, nil)
			if err != nil {
				return err
			}
			pid, err := lk2.API.PoolID(e.ctx, l.Name)
			if err != nil {
				return err
			}
			if _, err := lk2.API.DeleteWhere(e.ctx, pid, "main", text, apiMsg()); err != nil {
				return fmt.Errorf("delete where %s: %w", text, err)
			}
			after, err := lk2.Query(e.ctx, "from "+l.Name)
			if err != nil {
				return fmt.Errorf("query after delete where %s: %w", text, err)
			}
			c.Eval("del|"+l.Name+"|"+text, pruned > 0)
			if !lakeh.Equal(lakeh.Multiset(after), lakeh.Multiset(rest)) {
				c.Violate("delete-differs:"+r.Pred.shape(),
					fmt.Sprintf("`delete where %s` leaves %d values but the model (all minus matching) has %d", text, len(after), len(rest)),
					map[string]any{"kind": "delete", "layout": l, "pred": r.Pred, "got": after, "want": rest})
			}
		}
	}
	c.Sample(map[string]any{"layout": l, "objects": len(objs), "predicates": len(picks), "example": picks[0].Pred.text()})
	return nil
}

func replay(e *env) error {
	var w struct {
		Kind   string `json:"kind"`
		Pool   string `json:"pool"`
		Pred   pred   `json:"pred"`
		Min    tok    `json:"min"`
		Max    tok    `json:"max"`
		Key    tok    `json:"key"`
		Layout layout `json:"layout"`
	}
	if _, err := e.c.ReplayWitness(&w); err != nil {
		return err
	}
	switch w.Kind {
	case "function":
		cp, err := e.compile(w.Pool, w.Pred.text())
		if err != nil {
			return err
		}
		pr := cp.pruner != nil && isTrue(cp.pruner.Eval(expr.NewContext(), e.val(fmt.Sprintf("{min:%s,max:%s}", lit(w.Min), lit(w.Max)))))
		mt := isTrue(cp.filter.Eval(expr.NewContext(), e.val(rec(w.Key, true)))) || isTrue(cp.filter.Eval(expr.NewContext(), e.val(rec(w.Key, false))))
		fmt.Printf("pred=%s pruner=%s prunes[%s,%s]=%v key %s matches=%v\n", w.Pred.text(), cp.prunerTxt, lit(w.Min), lit(w.Max), pr, rec(w.Key, true), mt)
		if pr && mt {
			e.c.Violate("prune-unsound:"+w.Pred.shape(), "replayed", w)
		}
	default:
		w.Layout.Name = "replay"
		r := &row{Pred: w.Pred}
		return e.checkLayout(w.Layout, []*row{r})
	}
	return nil
}

var _ = sort.Strings
var _ *lake.Root

func main() { core.Main("C16", "model_checking", run) }

func apiMsg() api.CommitMessage { return api.CommitMessage{Author: "verif"} }
