package main

import (
	"bufio"
	"bytes"
	"context"
	"encoding/json"
	"fmt"
	"io"
	"net/http"
	"regexp"
	"sort"
	"strconv"
	"strings"
	"sync"
	"time"

	zed "github.com/brimdata/super"
	"github.com/brimdata/super/api"
	"github.com/brimdata/super/api/queryio"
	lakeapi "github.com/brimdata/super/lake/api"
	"github.com/brimdata/super/zbuf"
	"github.com/brimdata/super/zio/zngio"
	"github.com/brimdata/super/zson"

	"verif/core"
)

// ---- running a query through an api.Interface (direct or remote handle) ------

// qres is what a caller of lake/api.Interface.Query observes.
type qres struct {
	Vals   []string    // ZSON text of every value, in arrival order
	Z      []zed.Value // the values themselves
	Labels []string    // channel label of every value
	EOC    []string    // channel ends, in arrival order
	Err    error
	Phase  string // "" | "setup" (Query returned the error) | "stream" (Pull returned it)
}

func (q *qres) fate() string {
	switch q.Phase {
	case "setup":
		return "setupfail"
	case "stream":
		return "fail"
	}
	return "ok"
}

// byChannel groups the u values by label, in arrival order.
func (q *qres) byChannel() map[string][]int {
	out := map[string][]int{}
	for _, ch := range q.EOC {
		out[ch] = []int{}
	}
	for i, v := range q.Vals {
		out[q.Labels[i]] = append(out[q.Labels[i]], uidOf(v))
	}
	return out
}

func runQuery(ctx context.Context, lk lakeapi.Interface, src string) *qres {
	res := &qres{}
	s, err := lk.Query(ctx, nil, src)
	if err != nil {
		res.Err, res.Phase = err, "setup"
		return res
	}
	drainInto(res, s)
	return res
}

func drainInto(res *qres, s zbuf.Puller) {
	for {
		b, err := s.Pull(false)
		if err != nil {
			res.Err, res.Phase = err, "stream"
			s.Pull(true)
			return
		}
		if b == nil {
			return
		}
		if eoc, ok := b.(*zbuf.EndOfChannel); ok {
			res.EOC = append(res.EOC, string(*eoc))
			continue
		}
		inner, label := zbuf.Unlabel(b)
		for _, v := range inner.Values() {
			res.Vals = append(res.Vals, zson.FormatValue(v))
			res.Z = append(res.Z, v.Copy())
			res.Labels = append(res.Labels, label)
		}
		b.Unref()
	}
}

// ---- raw requests against POST /query ------------------------------------------

// event is one line of a client trace (specs/QueryProtoTrace.tla).
type event struct {
	E      string           `json:"e"`
	T      int              `json:"t,omitempty"`
	InBand *bool            `json:"inband,omitempty"`
	Ctrl   *bool            `json:"ctrl,omitempty"`
	Fate   string           `json:"fate,omitempty"`
	Prod   map[string][]int `json:"prod,omitempty"`
	Code   string           `json:"code,omitempty"`
	Ch     string           `json:"ch,omitempty"`
	U      *int             `json:"u,omitempty"`
	Err    *bool            `json:"err,omitempty"`
	CErr   *bool            `json:"cerr,omitempty"`
}

func bp(b bool) *bool { return &b }
func ip(i int) *int   { return &i }

// rawResult is what a client of POST /query saw, frame by frame.
type rawResult struct {
	Fmt       respFmt
	Ctrl      string
	Status    int
	Body      []byte
	Events    []event  // http ... eof [status]
	Recs      []string // canonical record per value (splitRecords)
	Us        []int    // u per value, arrival order
	Labels    []string // label per value as a control-frame aware client attributes it
	InbandErr bool     // a QueryError control frame arrived
	ErrText   string
	StatusErr bool // GET /query/status/{id} reported an error
	ClientErr bool // what a client reports: HTTP error or in-band error or status error
	DecodeErr error
}

var httpClient = &http.Client{Timeout: 120 * time.Second}

// rawQuery posts src to base/query asking for format f with the ctrl
// parameter c ("T", "F" or "" = absent), records the frames of the response
// and then polls the query-status endpoint.
func rawQuery(ctx context.Context, base, src string, f respFmt, c string) (*rawResult, error) {
	u := base + "/query"
	if c != "" {
		u += "?ctrl=" + c
	}
	reqBody, _ := json.Marshal(api.QueryRequest{Query: src})
	req, err := http.NewRequestWithContext(ctx, "POST", u, bytes.NewReader(reqBody))
	if err != nil {
		return nil, err
	}
	req.Header.Set("Content-Type", api.MediaTypeJSON)
	req.Header.Set("Accept", f.Accept)
	res, err := httpClient.Do(req)
	if err != nil {
		return nil, err
	}
	body, rerr := io.ReadAll(res.Body)
	res.Body.Close()
	r := &rawResult{Fmt: f, Ctrl: c, Status: res.StatusCode, Body: body}
	if res.StatusCode < 200 || res.StatusCode > 299 {
		r.Events = append(r.Events, event{E: "http", Code: "err"})
		r.ClientErr = true
		r.ErrText = strings.TrimSpace(string(body))
		return r, nil
	}
	r.Events = append(r.Events, event{E: "http", Code: "ok"})
	if rerr != nil {
		// a broken transfer is an error the client sees
		r.ClientErr, r.ErrText = true, rerr.Error()
		return r, nil
	}
	r.decode()
	r.Events = append(r.Events, event{E: "eof"})
	// the out-of-band error channel
	if rid := res.Header.Get(api.RequestIDHeader); rid != "" {
		sreq, _ := http.NewRequestWithContext(ctx, "GET", base+"/query/status/"+rid, nil)
		sreq.Header.Set("Accept", api.MediaTypeJSON)
		sres, err := httpClient.Do(sreq)
		if err != nil {
			return nil, err
		}
		sb, _ := io.ReadAll(sres.Body)
		sres.Body.Close()
		var qe api.QueryError
		if sres.StatusCode == 200 && json.Unmarshal(sb, &qe) == nil {
			r.StatusErr = qe.Error != ""
			if r.ErrText == "" {
				r.ErrText = qe.Error
			}
			r.Events = append(r.Events, event{E: "status", Err: bp(r.StatusErr)})
		}
	}
	r.ClientErr = r.InbandErr || r.StatusErr
	return r, nil
}

var reCtrlType = regexp.MustCompile(`\(=(\w+)\)\s*$`)

// decode splits the body into frames.
func (r *rawResult) decode() {
	switch r.Fmt.Writer {
	case "zng":
		r.decodeZNG()
	case "zjson":
		r.decodeZJSON()
	default:
		recs, err := splitRecords(r.Fmt, r.Body, true)
		r.Recs, r.DecodeErr = recs, err
		us := recs
		if r.Fmt.Writer == "csv" {
			r.Us = csvUids(recs)
		} else {
			for _, x := range us {
				r.Us = append(r.Us, uidOf(x))
			}
		}
		for _, u := range r.Us {
			r.Labels = append(r.Labels, "")
			r.Events = append(r.Events, event{E: "val", U: ip(u)})
		}
	}
}

func (r *rawResult) control(typ, text string, channel, errText string) {
	switch typ {
	case "QueryChannelSet":
		r.Events = append(r.Events, event{E: "cset", Ch: channel})
	case "QueryChannelEnd":
		r.Events = append(r.Events, event{E: "cend", Ch: channel})
	case "QueryStats":
		r.Events = append(r.Events, event{E: "stats"})
	case "QueryError":
		r.Events = append(r.Events, event{E: "error"})
		r.InbandErr, r.ErrText = true, errText
	default:
		r.Events = append(r.Events, event{E: "unknown-control:" + typ})
	}
}

// decodeZNG reads values and control frames from a ZNG body the way
// api/queryio's scanner does, but keeps every frame.
func (r *rawResult) decodeZNG() {
	sc, err := zngio.NewReader(zed.NewContext(), bytes.NewReader(r.Body)).NewScanner(context.Background(), nil)
	if err != nil {
		r.DecodeErr = err
		return
	}
	cur := ""
	for {
		b, err := sc.Pull(false)
		if err == nil {
			if b == nil {
				return
			}
			for _, v := range b.Values() {
				s := zson.FormatValue(v)
				r.Recs = append(r.Recs, s)
				r.Us = append(r.Us, uidOf(s))
				r.Labels = append(r.Labels, cur)
				r.Events = append(r.Events, event{E: "val", U: ip(uidOf(s))})
			}
			b.Unref()
			continue
		}
		zc, ok := err.(*zbuf.Control)
		if !ok {
			r.DecodeErr = err
			return
		}
		msg, ok := zc.Message.(*zngio.Control)
		if !ok || msg.Format != zngio.ControlFormatZSON {
			r.DecodeErr = fmt.Errorf("unexpected control frame %T", zc.Message)
			return
		}
		text := string(msg.Bytes)
		m := reCtrlType.FindStringSubmatch(text)
		if m == nil {
			r.DecodeErr = fmt.Errorf("untyped control frame %q", text)
			return
		}
		var channel, errText string
		if val, err := zson.ParseValue(zed.NewContext(), text); err == nil {
			if d := val.Deref("channel"); d != nil {
				channel = d.AsString()
			}
			if d := val.Deref("error"); d != nil {
				errText = d.AsString()
			}
		}
		if m[1] == "QueryChannelSet" {
			cur = channel
		}
		r.control(m[1], text, channel, errText)
	}
}

// decodeZJSON reads the line-oriented ZJSON body: data lines have an object
// as "type", control lines a string.
func (r *rawResult) decodeZJSON() {
	var data bytes.Buffer
	type line struct {
		Type  json.RawMessage `json:"type"`
		Value json.RawMessage `json:"value"`
	}
	cur := ""
	var pending []int // event indexes of val events
	sc := bufio.NewScanner(bytes.NewReader(r.Body))
	sc.Buffer(make([]byte, 1<<20), 64<<20)
	for sc.Scan() {
		b := sc.Bytes()
		if len(bytes.TrimSpace(b)) == 0 {
			continue
		}
		var l line
		if err := json.Unmarshal(b, &l); err != nil {
			r.DecodeErr = err
			return
		}
		var typ string
		if json.Unmarshal(l.Type, &typ) == nil {
			var v struct {
				Channel string `json:"channel"`
				Error   string `json:"error"`
			}
			json.Unmarshal(l.Value, &v)
			if typ == "QueryChannelSet" {
				cur = v.Channel
			}
			r.control(typ, string(b), v.Channel, v.Error)
			continue
		}
		data.Write(b)
		data.WriteByte('\n')
		pending = append(pending, len(r.Events))
		r.Labels = append(r.Labels, cur)
		r.Events = append(r.Events, event{E: "val"})
	}
	recs, err := splitRecords(r.Fmt, data.Bytes(), false)
	r.Recs = recs
	if err != nil {
		r.DecodeErr = err
		return
	}
	if len(recs) != len(pending) {
		r.DecodeErr = fmt.Errorf("%d data lines decode to %d values", len(pending), len(recs))
		return
	}
	for i, x := range recs {
		u := uidOf(x)
		r.Us = append(r.Us, u)
		r.Events[pending[i]].U = ip(u)
	}
}

// realScanner runs the service's own client (api/queryio.NewScanner, what
// lake/api's remote handle uses) over the recorded ZNG body.
func realScanner(body []byte) *qres {
	res := &qres{}
	s, err := queryio.NewScanner(context.Background(), io.NopCloser(bytes.NewReader(body)))
	if err != nil {
		res.Err, res.Phase = err, "setup"
		return res
	}
	drainInto(res, s)
	return res
}

// ---- traces -----------------------------------------------------------------------

type trace struct {
	ID     int
	What   string // human-readable description (query, format, lake)
	Events []event
	Fate   string
	CErr   bool
	// filled by validation
	Verdict *verdict
	Refused bool
}

type verdict struct {
	ErrIff, Complete, Ordered, WireOK bool
	Dev                               string
}

type traceSet struct {
	mu     sync.Mutex
	traces []*trace
}

func (ts *traceSet) add(t *trace) {
	ts.mu.Lock()
	ts.traces = append(ts.traces, t)
	ts.mu.Unlock()
}

// mkTrace assembles the trace of one raw request.  fate and prod come from
// direct access (the reference); "_" stands for the unlabelled stream.
func mkTrace(id int, what string, r *rawResult, fate string, prod map[string][]int, cerr bool) *trace {
	p := map[string][]int{}
	for ch, us := range prod {
		if us == nil {
			us = []int{}
		}
		p[ch] = us
	}
	if len(p) == 0 {
		p["main"] = []int{}
	}
	inband := r.Fmt.InBand
	ctrl := r.Ctrl == "T"
	evs := []event{{E: "begin", T: id, InBand: bp(inband), Ctrl: bp(ctrl), Fate: fate, Prod: p}}
	evs = append(evs, r.Events...)
	evs = append(evs, event{E: "end", CErr: bp(cerr)})
	return &trace{ID: id, What: what, Events: evs, Fate: fate, CErr: cerr}
}

func (t *trace) ndjson(buf *bytes.Buffer) int {
	enc := json.NewEncoder(buf)
	for _, e := range t.Events {
		// begin needs inband/ctrl even when false; "val" needs u even when 0
		enc.Encode(e)
	}
	return len(t.Events)
}

var reVerdict = regexp.MustCompile(`^<<"VERDICT", (\d+), (TRUE|FALSE), (TRUE|FALSE), (TRUE|FALSE), (TRUE|FALSE), "(.*)">>$`)
var reHigh = regexp.MustCompile(`<<"HIGHWATER", (\d+), (\d+)>>`)

// validateTraces checks traces against QueryProtoTrace.tla.  One TLC run
// validates a whole batch; a trace the specification cannot explain stops
// the run at its offending event: it is marked refused, dropped, and the rest
// is validated again.
func validateTraces(c *core.Ctx, traces []*trace) error {
	sort.Slice(traces, func(i, j int) bool { return traces[i].ID < traces[j].ID })
	// a few JVMs side by side: TLC explains about two states per event, one BFS level each
	chunk := (len(traces) + 1) / 2
	if chunk < 150 {
		chunk = 150
	}
	if chunk > 1500 {
		chunk = 1500
	}
	var wg sync.WaitGroup
	var mu sync.Mutex
	var firstErr error
	sem := make(chan struct{}, 3)
	for lo := 0; lo < len(traces); lo += chunk {
		hi := lo + chunk
		if hi > len(traces) {
			hi = len(traces)
		}
		part := traces[lo:hi]
		wg.Add(1)
		sem <- struct{}{}
		go func() {
			defer wg.Done()
			defer func() { <-sem }()
			if err := validateChunk(c, part); err != nil {
				mu.Lock()
				if firstErr == nil {
					firstErr = err
				}
				mu.Unlock()
			}
		}()
	}
	wg.Wait()
	return firstErr
}

func validateChunk(c *core.Ctx, traces []*trace) error {
	live := append([]*trace(nil), traces...)
	for round := 0; round < 12 && len(live) > 0; round++ {
		var buf bytes.Buffer
		starts := make([]int, len(live)) // 1-based index of each trace's begin event
		total := 0
		for i, t := range live {
			starts[i] = total + 1
			total += t.ndjson(&buf)
		}
		res, err := c.RunTLC(core.TLCRun{Module: "QueryProtoTrace", Cfg: "QueryProtoTrace.trace.cfg",
			Files: map[string][]byte{"trace.ndjson": buf.Bytes()}, Workers: 1, Timeout: 40 * time.Minute})
		if res == nil {
			return err
		}
		if err != nil || res.Status != "ok" {
			tail := res.Out
			if len(tail) > 2000 {
				tail = tail[len(tail)-2000:]
			}
			return fmt.Errorf("trace validation did not complete (%s): %v\n%s", res.Status, err, tail)
		}
		byID := map[int]*trace{}
		for _, t := range live {
			byID[t.ID] = t
		}
		for _, line := range res.Prints {
			if m := reVerdict.FindStringSubmatch(strings.TrimSpace(line)); m != nil {
				id, _ := strconv.Atoi(m[1])
				if t := byID[id]; t != nil {
					t.Verdict = &verdict{m[2] == "TRUE", m[3] == "TRUE", m[4] == "TRUE", m[5] == "TRUE", strings.ReplaceAll(m[6], `\"`, `"`)}
				}
			}
		}
		m := reHigh.FindStringSubmatch(res.Out)
		if m == nil {
			return fmt.Errorf("trace validation printed no high-water mark")
		}
		high, _ := strconv.Atoi(m[1])
		if high >= total {
			return nil
		}
		// event high+1 could not be explained: find its trace
		bad := sort.Search(len(starts), func(i int) bool { return starts[i] > high+1 }) - 1
		if bad < 0 {
			bad = 0
		}
		live[bad].Refused = true
		live[bad].Verdict = nil
		live[bad].What += fmt.Sprintf(" [refused at event %d: %s]", high+1-starts[bad]+1, evString(live[bad].Events, high+1-starts[bad]))
		// everything before the refused trace is validated; go on with the rest
		live = live[bad+1:]
	}
	if len(live) > 0 {
		return fmt.Errorf("too many refused traces; %d traces left unvalidated", len(live))
	}
	return nil
}

func evString(evs []event, i int) string {
	if i < 0 || i >= len(evs) {
		return "?"
	}
	b, _ := json.Marshal(evs[i])
	return string(b)
}
