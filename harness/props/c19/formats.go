package main

import (
	"bytes"
	"compress/gzip"
	"encoding/json"
	"fmt"
	"io"
	"strconv"
	"strings"

	zed "github.com/brimdata/super"
	"github.com/brimdata/super/api"
	"github.com/brimdata/super/compiler/optimizer/demand"
	"github.com/brimdata/super/order"
	"github.com/brimdata/super/runtime/sam/expr"
	"github.com/brimdata/super/zio"
	"github.com/brimdata/super/zio/anyio"
	"github.com/brimdata/super/zio/zngio"
	"github.com/brimdata/super/zio/zsonio"
	"github.com/brimdata/super/zson"
)

// ---- upload formats ---------------------------------------------------------

// loadFmt is one way of posting a batch to POST /pool/{p}/branch/{b}: the
// body is the batch encoded by the anyio writer Enc (optionally gzipped) and
// announced with Content-Type CT ("" and "*/*" = server-side auto-detection).
// Direct access reads the SAME bytes the way a local `load` of a file does
// (anyio.NewFile: gzip sniffing + reader for format Fmt, "" = auto-detect).
type loadFmt struct {
	Name    string
	Enc     string
	CT      string
	Fmt     string
	Gzip    bool
	Uniform bool // the encoder needs records of one type with a plain key
	Handle  bool // not a raw upload: both lakes are loaded through lake/api.Interface.Load (remote.Load pipes ZNG)
}

var loadFmts = []loadFmt{
	{Name: "zng", Enc: "zng", CT: api.MediaTypeZNG, Fmt: "zng"},
	{Name: "zson", Enc: "zson", CT: api.MediaTypeZSON, Fmt: "zson"},
	{Name: "zjson", Enc: "zjson", CT: api.MediaTypeZJSON, Fmt: "zjson"},
	{Name: "json", Enc: "json", CT: api.MediaTypeJSON, Fmt: "json"},
	{Name: "csv", Enc: "csv", CT: api.MediaTypeCSV, Fmt: "csv", Uniform: true},
	{Name: "vng", Enc: "vng", CT: api.MediaTypeVNG, Fmt: "vng"},
	{Name: "auto(*/*):zson", Enc: "zson", CT: api.MediaTypeAny, Fmt: ""},
	{Name: "auto(empty):json", Enc: "json", CT: "", Fmt: ""},
	{Name: "auto(*/*):zng", Enc: "zng", CT: api.MediaTypeAny, Fmt: ""},
	{Name: "auto(empty):csv", Enc: "csv", CT: "", Fmt: "", Uniform: true},
	{Name: "auto(*/*):zjson", Enc: "zjson", CT: api.MediaTypeAny, Fmt: ""},
	{Name: "parquet", Enc: "parquet", CT: api.MediaTypeParquet, Fmt: "parquet", Uniform: true},
	{Name: "tsv", Enc: "tsv", CT: api.MediaTypeTSV, Fmt: "tsv", Uniform: true},
	{Name: "zson+gzip", Enc: "zson", CT: api.MediaTypeZSON, Fmt: "zson", Gzip: true},
	{Name: "auto(*/*):json+gzip", Enc: "json", CT: api.MediaTypeAny, Fmt: "", Gzip: true},
	{Name: "handle(api.Load)", Enc: "zson", Fmt: "zson", Handle: true},
	{Name: "zng;params", Enc: "zng", CT: api.MediaTypeZNG + "; charset=binary", Fmt: "zng"},
}

// encodeBody renders ZSON text in format f.
func encodeBody(f loadFmt, zsonText string) ([]byte, error) {
	zctx := zed.NewContext()
	r := zsonio.NewReader(zctx, strings.NewReader(zsonText))
	var buf bytes.Buffer
	w, err := anyio.NewWriter(zio.NopCloser(&buf), anyio.WriterOpts{Format: f.Enc})
	if err != nil {
		return nil, err
	}
	if err := zio.Copy(w, r); err != nil {
		return nil, err
	}
	if err := w.Close(); err != nil {
		return nil, err
	}
	if !f.Gzip {
		return buf.Bytes(), nil
	}
	var gz bytes.Buffer
	zw := gzip.NewWriter(&gz)
	zw.Write(buf.Bytes())
	zw.Close()
	return gz.Bytes(), nil
}

// seekBody is an in-memory "file": reader, seeker, ReaderAt and closer, as a
// local file opened for a direct load is.
type seekBody struct{ *bytes.Reader }

func (seekBody) Close() error { return nil }

// directReader opens body the way direct access opens a file to load.
func directReader(zctx *zed.Context, f loadFmt, body []byte) (zio.ReadCloser, error) {
	return anyio.NewFile(zctx, seekBody{bytes.NewReader(body)}, "body", demand.All(),
		anyio.ReaderOpts{Format: f.Fmt, ZNG: zngio.ReaderOpts{Validate: true}})
}

// ---- response formats -------------------------------------------------------

type respFmt struct {
	Name   string
	Accept string
	Writer string // anyio writer that formats the same values under direct access
	InBand bool   // the service's writer for this format can carry control frames
}

var respFmts = []respFmt{
	{Name: "zng", Accept: api.MediaTypeZNG, Writer: "zng", InBand: true},
	{Name: "zson", Accept: api.MediaTypeZSON, Writer: "zson"},
	{Name: "zjson", Accept: api.MediaTypeZJSON, Writer: "zjson", InBand: true},
	{Name: "json", Accept: api.MediaTypeJSON, Writer: "json"},
	{Name: "csv", Accept: api.MediaTypeCSV, Writer: "csv"},
	{Name: "default", Accept: api.MediaTypeAny, Writer: "zson"},
}

var ctrlModes = []string{"T", "F", ""} // ctrl=T, ctrl=F, parameter absent (= F)

// formatDirect formats vals with the anyio writer of format name and splits
// the output into comparable records (see splitRecords).  A formatting error
// (e.g. CSV over records of several types) is returned with the records
// written before it.
func formatDirect(f respFmt, vals []zed.Value) ([]string, error) {
	var buf bytes.Buffer
	w, err := anyio.NewWriter(zio.NopCloser(&buf), anyio.WriterOpts{Format: f.Writer})
	if err != nil {
		return nil, err
	}
	var werr error
	for _, v := range vals {
		if werr = w.Write(v); werr != nil {
			break
		}
	}
	if cerr := w.Close(); werr == nil {
		werr = cerr
	}
	recs, derr := splitRecords(f, buf.Bytes(), false)
	if werr == nil && derr != nil {
		werr = fmt.Errorf("cannot split direct output: %w", derr)
	}
	return recs, werr
}

// splitRecords turns a body in format f into one canonical string per value:
// the ZSON text of the decoded value for the self-describing formats (zng,
// zson, zjson: "compare decoded values"), the compacted JSON text / the CSV
// line for json and csv ("compare text").  For csv the header line is the
// first record.  array=true: the service's JSON responses are one array.
func splitRecords(f respFmt, body []byte, array bool) ([]string, error) {
	switch f.Writer {
	case "zng":
		return decodeAll(zngio.NewReader(zed.NewContext(), bytes.NewReader(body)))
	case "zson":
		return decodeAll(zio.NopReadCloser(zsonio.NewReader(zed.NewContext(), bytes.NewReader(body))))
	case "zjson":
		zr, err := anyio.NewReaderWithOpts(zed.NewContext(), bytes.NewReader(body), demand.All(), anyio.ReaderOpts{Format: "zjson"})
		if err != nil {
			return nil, err
		}
		return decodeAll(zr)
	case "json":
		var out []string
		if array {
			var elems []json.RawMessage
			if err := json.Unmarshal(body, &elems); err != nil {
				return nil, err
			}
			for _, e := range elems {
				var b bytes.Buffer
				if err := json.Compact(&b, e); err != nil {
					return nil, err
				}
				out = append(out, b.String())
			}
			return out, nil
		}
		dec := json.NewDecoder(bytes.NewReader(body))
		for {
			var e json.RawMessage
			if err := dec.Decode(&e); err == io.EOF {
				return out, nil
			} else if err != nil {
				return out, err
			}
			var b bytes.Buffer
			if err := json.Compact(&b, e); err != nil {
				return out, err
			}
			out = append(out, b.String())
		}
	case "csv":
		var out []string
		for _, line := range strings.Split(string(body), "\n") {
			if line != "" {
				out = append(out, line)
			}
		}
		return out, nil
	}
	return nil, fmt.Errorf("no splitter for %s", f.Writer)
}

func decodeAll(zr zio.ReadCloser) ([]string, error) {
	defer zr.Close()
	var out []string
	for {
		v, err := zr.Read()
		if err != nil {
			return out, err
		}
		if v == nil {
			return out, nil
		}
		out = append(out, zson.FormatValue(*v))
	}
}

// ---- projections ------------------------------------------------------------

// uidOf extracts the u field of a record rendered as ZSON or JSON text
// ("u:3", "u:3.", "\"u\":3"); -1 if there is none.
func uidOf(rec string) int {
	i := strings.LastIndex(rec, "u:")
	if i < 0 {
		if i = strings.LastIndex(rec, `"u":`); i < 0 {
			return -1
		}
		i += 4
	} else {
		i += 2
	}
	n, seen := 0, false
	for _, ch := range rec[i:] {
		if ch < '0' || ch > '9' {
			break
		}
		n, seen = n*10+int(ch-'0'), true
	}
	if !seen {
		return -1
	}
	return n
}

// csvUids maps CSV records (header first) to u values.
func csvUids(recs []string) []int {
	if len(recs) == 0 {
		return nil
	}
	col := -1
	for i, h := range strings.Split(recs[0], ",") {
		if h == "u" {
			col = i
		}
	}
	var out []int
	for _, r := range recs[1:] {
		cells := strings.Split(r, ",")
		u := -1
		if col >= 0 && col < len(cells) {
			if f, err := strconv.ParseFloat(cells[col], 64); err == nil {
				u = int(f)
			}
		}
		out = append(out, u)
	}
	return out
}

var keyCmp = expr.NewValueCompareFn(order.Asc, true)

// keyClasses numbers the pool-key equivalence classes of vals (equal under the
// lake's comparator, null and missing alike): two results may differ only by
// a permutation inside a class.
func keyClasses(vals []zed.Value) []int {
	var reps []zed.Value
	out := make([]int, len(vals))
	for i, v := range vals {
		k := zed.Null
		if v.Type().Kind() == zed.RecordKind {
			if d := v.Deref("k"); d != nil {
				k = d.MissingAsNull()
			}
		}
		found := -1
		for j, r := range reps {
			if keyCmp(k, r) == 0 {
				found = j
				break
			}
		}
		if found < 0 {
			reps = append(reps, k.Copy())
			found = len(reps) - 1
		}
		out[i] = found
	}
	return out
}

// sameModuloKeys reports whether got is want up to a permutation among
// records of equal pool key.  class[i] is the key class of want[i].  It
// returns "" or what differs ("contents" / "order").
func sameModuloKeys(want, got []string, class []int) string {
	if len(want) != len(got) {
		return "contents"
	}
	cls := map[string]int{}
	cnt := map[string]int{}
	for i, r := range want {
		cls[r] = class[i]
		cnt[r]++
	}
	for _, r := range got {
		cnt[r]--
	}
	for _, n := range cnt {
		if n != 0 {
			return "contents"
		}
	}
	for i, r := range got {
		if cls[r] != class[i] {
			return "order"
		}
	}
	return ""
}
