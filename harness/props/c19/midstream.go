package main

import (
	"context"
	"fmt"
	"os"
	"path/filepath"
	"strings"

	zed "github.com/brimdata/super"
	"github.com/brimdata/super/zio/zsonio"
	"github.com/segmentio/ksuid"

	"verif/core"
	"verif/lakeh"
)

// Mid-stream failure: a pool of three data objects with disjoint key ranges
// (seek stride 1, so every value is its own ZNG stream and a damaged tail
// only hurts the last values); one object file is damaged on disk in BOTH
// lakes; direct access then fails after some output (or, for faults it
// cannot detect, succeeds).  Whatever direct access reports, every client of
// the service must be told the same: through the in-band QueryError frame,
// the HTTP status, or the query-status endpoint -- never a response that
// looks complete and successful on every channel.

type fault struct {
	Name   string
	Victim int // 0,1,2: which object (in key order)
	Apply  func(path string) error
}

var faults = []fault{
	{"truncate-tail:last", 2, func(p string) error { return truncateBy(p, 5) }},
	{"truncate-half:last", 2, func(p string) error { return truncateTo(p, 0.5) }},
	{"truncate-tail:middle", 1, func(p string) error { return truncateBy(p, 5) }},
	{"remove:last", 2, os.Remove},
	{"remove:first", 0, os.Remove},
	{"flip-byte:last", 2, func(p string) error { return flipByte(p, 0.6) }},
	{"empty:middle", 1, func(p string) error { return os.WriteFile(p, nil, 0o644) }},
	{"garbage-tail:last", 2, func(p string) error {
		f, err := os.OpenFile(p, os.O_APPEND|os.O_WRONLY, 0o644)
		if err != nil {
			return err
		}
		defer f.Close()
		_, err = f.Write([]byte{0x7f, 0x01, 0x02, 0x03, 0x04, 0x05, 0x06})
		return err
	}},
}

func truncateBy(p string, n int) error {
	b, err := os.ReadFile(p)
	if err != nil {
		return err
	}
	if len(b) <= n {
		n = len(b) / 2
	}
	return os.WriteFile(p, b[:len(b)-n], 0o644)
}

func truncateTo(p string, frac float64) error {
	b, err := os.ReadFile(p)
	if err != nil {
		return err
	}
	return os.WriteFile(p, b[:int(float64(len(b))*frac)], 0o644)
}

func flipByte(p string, frac float64) error {
	b, err := os.ReadFile(p)
	if err != nil {
		return err
	}
	i := int(float64(len(b)) * frac)
	if i >= len(b) {
		i = len(b) - 1
	}
	b[i] ^= 0xff
	return os.WriteFile(p, b, 0o644)
}

type midstream struct {
	c      *core.Ctx
	ctx    context.Context
	ts     *traceSet
	nextID func() int
	perObj int
}

func (ms *midstream) violate(sig, what string, f fault) {
	ms.c.Violate(sig, what+" [fault: "+f.Name+"]", witness{Kind: "midstream", Fault: f.Name, Detail: what})
}

// isPrefixModulo: got is a prefix of want.
func isPrefix(got, want []int) bool {
	if len(got) > len(want) {
		return false
	}
	for i := range got {
		if got[i] != want[i] {
			return false
		}
	}
	return true
}

func (ms *midstream) run(f fault, idx int, scratch string) error {
	c, ctx := ms.c, ms.ctx
	p, err := newPair(ctx, filepath.Join(scratch, fmt.Sprintf("ms%d", idx)))
	if err != nil {
		return err
	}
	defer p.close()
	n := ms.perObj
	for _, s := range p.sides() {
		id, err := s.api.CreatePool(ctx, poolName, lakeh.SortKeys("k", "asc"), 1, 0)
		if err != nil {
			return fmt.Errorf("%s: create pool: %w", s.name, err)
		}
		s.pool = id
		for o := 0; o < 3; o++ {
			var sb strings.Builder
			for i := 0; i < n; i++ {
				u := o*n + i + 1
				fmt.Fprintf(&sb, "{k:%d,u:%d,pad:%q}\n", u, u, strings.Repeat("x", 40+u%7))
			}
			zctx := zed.NewContext()
			if _, err := s.api.Load(ctx, zctx, id, "main", zsonio.NewReader(zctx, strings.NewReader(sb.String())), commitMsg()); err != nil {
				return fmt.Errorf("%s: load: %w", s.name, err)
			}
		}
	}
	queries := []string{
		"from " + poolName,
		// two scans feeding two outputs (no fork of one scan: op.Router.sendEOS drops an
		// upstream error on BOTH access paths alike, which is not this property's concern)
		fmt.Sprintf("fork (=> from %s | k<=%d | output a => from %s | k>%d | output b)", poolName, n+n/2, poolName, n+n/2),
	}
	// fault-free reference (direct access): what each channel yields, in order
	prods := make([]map[string][]int, len(queries))
	for qi, src := range queries {
		q := runQuery(ctx, p.L.api, src)
		if q.Err != nil {
			return fmt.Errorf("fault-free reference query failed: %w", q.Err)
		}
		prods[qi] = q.byChannel()
		r := runQuery(ctx, p.R.api, src)
		if r.Err != nil || fmt.Sprint(r.byChannel()) != fmt.Sprint(prods[qi]) {
			ms.violate("query-output:channels", fmt.Sprintf("`%s` before the fault: service %v (err %v), direct %v", src, r.byChannel(), r.Err, prods[qi]), f)
			return nil
		}
	}
	// damage the same object (by content) in both lakes
	for _, s := range p.sides() {
		objs, err := s.newObjects()
		if err != nil {
			return err
		}
		var victim ksuid.KSUID
		found := false
		for id, us := range objs {
			if len(us) > 0 && us[0] == f.Victim*n+1 {
				victim, found = id, true
			}
		}
		if !found {
			return fmt.Errorf("%s: cannot locate the object starting at u=%d among %d objects", s.name, f.Victim*n+1, len(objs))
		}
		if err := f.Apply(filepath.Join(s.dataDir(), victim.String()+".zng")); err != nil {
			return err
		}
	}
	for qi, src := range queries {
		prod := prods[qi]
		qL := runQuery(ctx, p.L.api, src)
		qR := runQuery(ctx, p.R.api, src)
		fate := qL.fate()
		c.Eval(fmt.Sprintf("midstream|%s|%s|remote-handle", f.Name, src), true)
		c.Add("midstream_fate:"+fate, 1)
		c.Logf("fault %s, `%s`: direct access delivers %d of %d values, error: %v", f.Name, src, len(qL.Vals), 3*n, qL.Err)
		if fate == "fail" && len(qL.Vals) > 0 {
			c.Add("midstream_error_after_output", 1)
		}
		if cls(qL.Err) != cls(qR.Err) {
			if qL.Err != nil {
				ms.violate("error-dropped:query:remote-handle", fmt.Sprintf("`%s` fails under direct access after %d values (%v) but the remote handle returns %d values and no error", src, len(qL.Vals), qL.Err, len(qR.Vals)), f)
			} else {
				ms.violate("remote-error:query:remote-handle", fmt.Sprintf("`%s` succeeds under direct access (%d values) but the remote handle reports %v", src, len(qL.Vals), qR.Err), f)
			}
		}
		// what was delivered must be a prefix of what the channel yields
		for _, q := range []*qres{qL, qR} {
			for ch, us := range q.byChannel() {
				if qL.Err != nil && !isPrefix(us, prod[ch]) {
					who := "direct access"
					if q == qR {
						who = "the remote handle"
					}
					c.Drift("midstream %s: %s delivered %v on channel %q, not a prefix of the fault-free %v", f.Name, who, us, ch, prod[ch])
				}
			}
		}
		if qL.Err == nil {
			// the fault went unnoticed by direct access: then both must return the same values
			if fmt.Sprint(qL.byChannel()) != fmt.Sprint(qR.byChannel()) {
				ms.violate("query-output:channels", fmt.Sprintf("`%s` after an undetected fault: service %v, direct %v", src, qR.byChannel(), qL.byChannel()), f)
				continue
			}
			prod = qL.byChannel()
		}
		// every response format, with and without control frames
		for _, rf := range respFmts {
			for _, cm := range ctrlModes {
				if cm == "" && rf.Name != "zng" && rf.Name != "json" {
					continue
				}
				if qi == 1 && !rf.InBand && rf.Name != "zson" {
					continue // the multi-channel query: labelled formats and one unlabelled one
				}
				raw, err := rawQuery(ctx, p.R.url, src, rf, cm)
				if err != nil {
					return err
				}
				tag := fmt.Sprintf("%s:ctrl=%s", rf.Name, ctrlName(cm))
				c.Eval(fmt.Sprintf("midstream|%s|%s|%s", f.Name, src, tag), true)
				c.Add("response_format:"+tag, 1)
				lfate := fate
				if lfate == "ok" && qi == 0 {
					if _, werr := formatDirect(rf, qL.Z); werr != nil {
						lfate = "fail"
					}
				}
				cerr := raw.ClientErr
				if rf.Writer == "zng" && raw.Status < 300 {
					sc := realScanner(raw.Body)
					if !equalStrings(sc.Vals, raw.Recs) {
						return fmt.Errorf("harness: frame decoder and queryio scanner disagree on %s", tag)
					}
					cerr = sc.Err != nil || raw.StatusErr
				}
				ms.ts.add(mkTrace(ms.nextID(), fmt.Sprintf("midstream %s: %s as %s", f.Name, src, tag), raw, lfate, prod, cerr))
				lerr := lfate != "ok"
				switch {
				case lerr && !cerr:
					ms.violate("error-dropped:query:"+tag, fmt.Sprintf("`%s` fails under direct access after %d values (%v); the service's %s response (ctrl=%q) has status %d, %d records, no in-band error and no error at the query-status endpoint: a truncated result that looks successful", src, len(qL.Vals), qL.Err, rf.Name, cm, raw.Status, len(raw.Us)), f)
				case !lerr && cerr:
					ms.violate("remote-error:query:"+tag, fmt.Sprintf("`%s` succeeds under direct access but the service reports %s", src, raw.ErrText), f)
				case !lerr:
					if !equalInts(sortedInts(raw.Us), sortedInts(uidsOf(qL.Vals))) {
						ms.violate("query-output:contents:"+tag, fmt.Sprintf("`%s` as %s returns %v, direct access %v", src, tag, raw.Us, uidsOf(qL.Vals)), f)
					}
				}
			}
		}
	}
	return nil
}
