package main

import (
	"context"
	"fmt"
	"math/rand"
	"path/filepath"
	"time"

	zed "github.com/brimdata/super"
	"github.com/brimdata/super/zson"

	"verif/core"
	"verif/lakeh"
)

// Large upload: one load whose request body is larger than the client's
// 16 MiB replay buffer (api/client recordReader), i.e. the only size class in
// which the bytes on the wire are handled differently.  The values carry
// incompressible payloads so that the ZNG body the remote handle pipes to the
// service really crosses the mark.  Reference: LakeAbs!Load -- the branch
// afterwards holds exactly the batch (count, sum of u, payload bytes), on both
// lakes.
const (
	bigValues  = 18
	bigPayload = 1 << 20
)

type sliceReader struct {
	vals []zed.Value
	i    int
}

func (r *sliceReader) Read() (*zed.Value, error) {
	if r.i >= len(r.vals) {
		return nil, nil
	}
	v := &r.vals[r.i]
	r.i++
	return v, nil
}

func bigBatch(zctx *zed.Context, seed int64) ([]zed.Value, error) {
	rng := rand.New(rand.NewSource(seed + 19))
	m := zson.NewZNGMarshalerWithContext(zctx)
	type rec struct {
		K int64  `zed:"k"`
		U int64  `zed:"u"`
		V []byte `zed:"v"`
	}
	var out []zed.Value
	for i := 1; i <= bigValues; i++ {
		b := make([]byte, bigPayload)
		rng.Read(b)
		v, err := m.Marshal(rec{K: int64(i), U: int64(i), V: b})
		if err != nil {
			return nil, err
		}
		out = append(out, v.Copy())
	}
	return out, nil
}

func runBigLoad(c *core.Ctx, ctx context.Context, scratch string) error {
	t0 := time.Now()
	p, err := newPair(ctx, filepath.Join(scratch, "bigload"))
	if err != nil {
		return err
	}
	defer p.close()
	want := fmt.Sprintf("{count:%d(uint64),sum:%d,bytes:%d}", bigValues, bigValues*(bigValues+1)/2, bigValues*bigPayload)
	const q = "from p | summarize count:=count(), sum:=sum(u), bytes:=sum(len(v))"
	res := map[string]string{}
	errs := map[string]error{}
	for _, s := range p.sides() {
		id, err := s.api.CreatePool(ctx, poolName, lakeh.SortKeys("k", "asc"), 0, 0)
		if err != nil {
			return fmt.Errorf("%s: create pool: %w", s.name, err)
		}
		s.pool = id
		zctx := zed.NewContext()
		vals, err := bigBatch(zctx, 0)
		if err != nil {
			return err
		}
		_, errs[s.name] = s.api.Load(ctx, zctx, id, "main", &sliceReader{vals: vals}, commitMsg())
		r := runQuery(ctx, s.api, q)
		if r.Err != nil {
			res[s.name] = "error: " + r.Err.Error()
		} else {
			res[s.name] = fmt.Sprint(r.Vals)
		}
	}
	c.Eval("bigload|18x1MiB", true)
	c.Add("large_upload_cases", 1)
	c.Logf("large upload (%d values x %d KiB incompressible, > 16 MiB on the wire): direct %s, served %s (%.1fs)", bigValues, bigPayload>>10, res["L"], res["R"], time.Since(t0).Seconds())
	w := witness{Kind: "bigload", Detail: fmt.Sprintf("direct: err=%v %s; served: err=%v %s", errs["L"], res["L"], errs["R"], res["R"])}
	switch {
	case errs["L"] != nil:
		c.Drift("large upload: direct access refuses the load: %v", errs["L"])
	case errs["R"] != nil:
		c.Violate("remote-error:load:large-body", fmt.Sprintf("a load of %d values (%d MiB, request body above the client's 16 MiB replay buffer) succeeds under direct access but fails through the service: %v", bigValues, bigValues*bigPayload>>20, errs["R"]), w)
	case res["L"] != "["+want+"]":
		c.Drift("large upload: direct access holds %s, the model predicts %s", res["L"], want)
	case res["R"] != res["L"]:
		c.Violate("state:contents:load:large-body", fmt.Sprintf("after a successful load of %d values of 1 MiB through the remote handle (request body above the client's 16 MiB replay buffer) the served lake holds %s; direct access and the model have %s: part of the upload was lost without an error", bigValues, res["R"], want), w)
	}
	return nil
}

// Aborted upload: a load through the handle whose input delivers one large
// value (the ZNG frame is flushed to the service at once), stalls, and then
// fails.  Reference (LakeAbsC19!LoadFail): the operation fails and nothing
// becomes visible.  The pool threshold is one byte so that the service writes
// the data object while the request is still open.
type stallReader struct {
	vals  []zed.Value
	i     int
	stall time.Duration
}

func (r *stallReader) Read() (*zed.Value, error) {
	if r.i >= len(r.vals) {
		time.Sleep(r.stall)
		return nil, fmt.Errorf("read /dev/source: input/output error")
	}
	v := &r.vals[r.i]
	r.i++
	return v, nil
}

func runAbortedLoad(c *core.Ctx, ctx context.Context, scratch string) error {
	p, err := newPair(ctx, filepath.Join(scratch, "abortedload"))
	if err != nil {
		return err
	}
	defer p.close()
	const q = "from p | count()"
	res := map[string]string{}
	errs := map[string]error{}
	for _, s := range p.sides() {
		id, err := s.api.CreatePool(ctx, poolName, lakeh.SortKeys("k", "asc"), 0, 1)
		if err != nil {
			return fmt.Errorf("%s: create pool: %w", s.name, err)
		}
		s.pool = id
		zctx := zed.NewContext()
		m := zson.NewZNGMarshalerWithContext(zctx)
		v, err := m.Marshal(struct {
			K int64  `zed:"k"`
			U int64  `zed:"u"`
			V []byte `zed:"v"`
		}{1, 1, make([]byte, 640<<10)})
		if err != nil {
			return err
		}
		_, errs[s.name] = s.api.Load(ctx, zctx, id, "main", &stallReader{vals: []zed.Value{v.Copy()}, stall: 400 * time.Millisecond}, commitMsg())
		if s == p.R {
			p.gate.quiesce()
		}
		r := runQuery(ctx, s.api, q)
		if r.Err != nil {
			res[s.name] = "error: " + r.Err.Error()
		} else {
			res[s.name] = fmt.Sprint(r.Vals)
		}
	}
	c.Eval("abortedload|1x640KiB+stall+ioerr", true)
	c.Add("aborted_upload_cases", 1)
	w := witness{Kind: "abortedload", Detail: fmt.Sprintf("direct: err=%v %s; served: err=%v %s", errs["L"], res["L"], errs["R"], res["R"])}
	switch {
	case errs["L"] == nil || res["L"] != "[]":
		c.Drift("aborted upload: direct access reports err=%v and holds %s; the model says the load fails and nothing is visible", errs["L"], res["L"])
	case errs["R"] == nil:
		c.Violate("error-dropped:loadfail", fmt.Sprintf("a load through the remote handle whose input fails after one good value (I/O error of the source) reports success; direct access reports %v (served pool afterwards: %s)", errs["L"], res["R"]), w)
	case res["R"] != res["L"]:
		c.Violate("partial-commit:loadfail", fmt.Sprintf("a load through the remote handle whose input failed after one good value returned the error (%v) but the service committed the value anyway: `%s` gives %s on the served lake, %s under direct access", errs["R"], q, res["R"], res["L"]), w)
	}
	return nil
}
