package main

import (
	"bytes"
	"context"
	"errors"
	"fmt"
	"net/http"
	"net/http/httptest"
	"os"
	"path/filepath"
	"sort"
	"strings"
	"sync/atomic"
	"time"

	zed "github.com/brimdata/super"
	"github.com/brimdata/super/api"
	"github.com/brimdata/super/api/client"
	lakeapi "github.com/brimdata/super/lake/api"
	"github.com/brimdata/super/pkg/storage"
	"github.com/brimdata/super/service"
	"github.com/brimdata/super/zio"
	"github.com/brimdata/super/zio/zsonio"
	"github.com/brimdata/super/zio/zngio"
	"github.com/brimdata/super/zson"
	"github.com/segmentio/ksuid"
	"go.uber.org/zap"

	"verif/core"
	"verif/lakeh"
)

const poolName = "p"

// side is one of the two lakes of a pair: L is driven by direct access
// (lakeapi.CreateLocalLake on a directory), R through the HTTP service
// (service.NewCore on its own directory behind httptest, lakeapi.NewRemoteLake).
type side struct {
	name    string
	dir     string
	api     lakeapi.Interface
	conn    *client.Connection // R only
	url     string             // R only
	srv     *httptest.Server
	pool    ksuid.KSUID
	objs    map[int]ksuid.KSUID // spec object id -> real id (bound by content)
	commits map[int]ksuid.KSUID // spec commit id -> real id
	known   map[string]bool     // data files already seen
}

type pair struct {
	L, R *side
	base string
	gate *inflight
}

func newPair(ctx context.Context, base string) (*pair, error) {
	if err := os.MkdirAll(base, 0o755); err != nil {
		return nil, err
	}
	dirL, dirR := filepath.Join(base, "L"), filepath.Join(base, "R")
	l, err := lakeapi.CreateLocalLake(ctx, zap.NewNop(), dirL)
	if err != nil {
		return nil, fmt.Errorf("create local lake: %w", err)
	}
	svc, err := service.NewCore(ctx, service.Config{Root: storage.MustParseURI(dirR), Logger: zap.NewNop()})
	if err != nil {
		return nil, fmt.Errorf("service.NewCore: %w", err)
	}
	gate := &inflight{h: svc}
	srv := httptest.NewServer(gate)
	conn := client.NewConnectionTo(srv.URL)
	mk := func(name, dir string, a lakeapi.Interface) *side {
		return &side{name: name, dir: dir, api: a, objs: map[int]ksuid.KSUID{}, commits: map[int]ksuid.KSUID{}, known: map[string]bool{}}
	}
	p := &pair{L: mk("L", dirL, l), R: mk("R", dirR, lakeapi.NewRemoteLake(conn)), base: base}
	p.R.conn, p.R.url, p.R.srv = conn, srv.URL, srv
	p.gate = gate
	return p, nil
}

// inflight counts the requests the served lake is still working on: a client
// whose request was aborted returns before the handler does.
type inflight struct {
	h       http.Handler
	started int64
	done    int64
}

func (g *inflight) ServeHTTP(w http.ResponseWriter, r *http.Request) {
	atomic.AddInt64(&g.started, 1)
	defer atomic.AddInt64(&g.done, 1)
	g.h.ServeHTTP(w, r)
}

// quiesce waits until no handler is running and none has started for a while.
func (g *inflight) quiesce() {
	deadline := time.Now().Add(20 * time.Second)
	calm := 0
	last := int64(-1)
	for time.Now().Before(deadline) {
		st, dn := atomic.LoadInt64(&g.started), atomic.LoadInt64(&g.done)
		if st == dn && st == last {
			if calm++; calm >= 25 {
				return
			}
		} else {
			calm = 0
		}
		last = st
		time.Sleep(2 * time.Millisecond)
	}
}

func (p *pair) close() {
	p.R.srv.Close()
	os.RemoveAll(p.base)
}

func (p *pair) sides() []*side { return []*side{p.L, p.R} }

func commitMsg() api.CommitMessage { return api.CommitMessage{Author: "verif", Body: "c19"} }

func cls(err error) string {
	if err != nil {
		return "err"
	}
	return "ok"
}

// ---- data files --------------------------------------------------------------

func (s *side) dataDir() string { return filepath.Join(s.dir, s.pool.String(), "data") }

func decodeZNGFile(path string) ([]string, error) {
	b, err := os.ReadFile(path)
	if err != nil {
		return nil, err
	}
	zr := zngio.NewReader(zed.NewContext(), bytes.NewReader(b))
	defer zr.Close()
	var out []string
	for {
		v, err := zr.Read()
		if err != nil {
			return out, err
		}
		if v == nil {
			return out, nil
		}
		out = append(out, zson.FormatValue(*v))
	}
}

// newObjects returns the data objects that appeared on disk since the last
// call: id -> sorted u values.
func (s *side) newObjects() (map[ksuid.KSUID][]int, error) {
	files, _ := filepath.Glob(filepath.Join(s.dataDir(), "*.zng"))
	sort.Strings(files)
	out := map[ksuid.KSUID][]int{}
	for _, f := range files {
		base := strings.TrimSuffix(filepath.Base(f), ".zng")
		if strings.HasSuffix(base, "-seek") || s.known[base] {
			continue
		}
		s.known[base] = true
		id, err := ksuid.Parse(base)
		if err != nil {
			continue
		}
		vals, err := decodeZNGFile(f)
		if err != nil {
			return nil, fmt.Errorf("%s: data object %s cannot be decoded: %w", s.name, base, err)
		}
		var us []int
		for _, v := range vals {
			us = append(us, uidOf(v))
		}
		sort.Ints(us)
		out[id] = us
	}
	return out, nil
}

// bindObjects binds the spec's new object ids to this lake's new data files
// by content.  It returns "" or a description of the mismatch.
func (s *side) bindObjects(st *lakeh.Step) (string, error) {
	fresh, err := s.newObjects()
	if err != nil {
		return "", err
	}
	used := map[ksuid.KSUID]bool{}
	ids := make([]ksuid.KSUID, 0, len(fresh))
	for id := range fresh {
		ids = append(ids, id)
	}
	sort.Slice(ids, func(i, j int) bool { return bytes.Compare(ids[i][:], ids[j][:]) < 0 })
	for i, specID := range st.NewIds {
		want := append([]int(nil), st.NewObjs[i]...)
		sort.Ints(want)
		found := false
		for _, id := range ids {
			if !used[id] && equalInts(fresh[id], want) {
				used[id], found = true, true
				s.objs[specID] = id
				break
			}
		}
		if !found {
			var have [][]int
			for _, id := range ids {
				have = append(have, fresh[id])
			}
			return fmt.Sprintf("%s: model predicts new objects %v, the lake wrote %v", s.name, st.NewObjs, have), nil
		}
	}
	return "", nil
}

func equalInts(a, b []int) bool {
	if len(a) != len(b) {
		return false
	}
	for i := range a {
		if a[i] != b[i] {
			return false
		}
	}
	return true
}

func (s *side) ids(objs []int) ([]ksuid.KSUID, bool) {
	var out []ksuid.KSUID
	for _, o := range objs {
		id, ok := s.objs[o]
		if !ok {
			return nil, false
		}
		out = append(out, id)
	}
	return out, true
}

// ---- applying one operation -----------------------------------------------------

// loadPlan is how the batch of a load step travels: same bytes for both lakes.
type loadPlan struct {
	Fmt  loadFmt
	Body []byte
	// loadfail: the input yields Good values and then fails the way Fail says
	Fail string // "syntax" | "ioerr"
	Good int
	Text []string // ZSON text of the batch's values
}

// failing returns a fresh reader over the batch that fails after Good values.
func (lp *loadPlan) failing(zctx *zed.Context) zio.Reader {
	switch lp.Fail {
	case "syntax":
		// a malformed record in the middle of a ZSON file
		var sb strings.Builder
		for i, t := range lp.Text {
			if i == lp.Good {
				sb.WriteString("{k:1,,u:99}\n")
			}
			sb.WriteString(t + "\n")
		}
		return zsonio.NewReader(zctx, strings.NewReader(sb.String()))
	default:
		return &ioErrReader{r: zsonio.NewReader(zctx, strings.NewReader(strings.Join(lp.Text, "\n"))), left: lp.Good}
	}
}

// ioErrReader delivers left values and then reports an I/O error of the source.
type ioErrReader struct {
	r    zio.Reader
	left int
}

func (e *ioErrReader) Read() (*zed.Value, error) {
	if e.left == 0 {
		return nil, errors.New("read /dev/source: input/output error")
	}
	e.left--
	return e.r.Read()
}

// apply executes step st on side s.  skipped=true: the operation refers to an
// object the model knows but this lake never produced (history abandoned).
func (s *side) apply(ctx context.Context, m *lakeh.AbsModel, st *lakeh.Step, lp *loadPlan) (commit ksuid.KSUID, err error, skipped bool) {
	switch st.Op {
	case "load":
		if lp.Fmt.Handle {
			zctx := zed.NewContext()
			commit, err = s.api.Load(ctx, zctx, s.pool, st.B, zsonio.NewReader(zctx, bytes.NewReader(lp.Body)), commitMsg())
			return
		}
		if s.conn != nil {
			var res api.CommitResponse
			res, err = s.conn.Load(ctx, s.pool, st.B, lp.Fmt.CT, bytes.NewReader(lp.Body), commitMsg())
			commit = res.Commit
			return
		}
		zctx := zed.NewContext()
		zr, rerr := directReader(zctx, lp.Fmt, lp.Body)
		if rerr != nil {
			return ksuid.Nil, rerr, false
		}
		defer zr.Close()
		commit, err = s.api.Load(ctx, zctx, s.pool, st.B, zr, commitMsg())
	case "loadfail":
		// the input fails after st.Obj good values; both lakes through their handle
		zctx := zed.NewContext()
		commit, err = s.api.Load(ctx, zctx, s.pool, st.B, lp.failing(zctx), commitMsg())
	case "delete":
		ids, ok := s.ids([]int{st.Obj})
		if !ok {
			return ksuid.Nil, nil, true
		}
		commit, err = s.api.Delete(ctx, s.pool, st.B, ids, commitMsg())
	case "deletewhere":
		commit, err = s.api.DeleteWhere(ctx, s.pool, st.B, m.PredText(st.Pred), commitMsg())
	case "compact":
		ids, ok := s.ids(st.Objs)
		if !ok {
			return ksuid.Nil, nil, true
		}
		commit, err = s.api.Compact(ctx, s.pool, st.B, ids, st.Vec, commitMsg())
	case "addvec":
		ids, ok := s.ids(st.Objs)
		if !ok {
			return ksuid.Nil, nil, true
		}
		commit, err = s.api.AddVectors(ctx, poolName, st.B, ids, commitMsg())
	case "delvec":
		ids, ok := s.ids(st.Objs)
		if !ok {
			return ksuid.Nil, nil, true
		}
		commit, err = s.api.DeleteVectors(ctx, poolName, st.B, ids, commitMsg())
	case "branch":
		parent := ksuid.Nil
		if st.At != 0 {
			var ok bool
			if parent, ok = s.commits[st.At]; !ok {
				return ksuid.Nil, nil, true
			}
		}
		err = s.api.CreateBranch(ctx, s.pool, st.B, parent)
	case "merge":
		commit, err = s.api.MergeBranch(ctx, s.pool, st.Child, st.B, commitMsg())
	case "revert":
		target, ok := s.commits[st.Target]
		if !ok {
			return ksuid.Nil, nil, true
		}
		commit, err = s.api.Revert(ctx, s.pool, st.B, target, commitMsg())
	case "vacuum":
		_, err = s.api.Vacuum(ctx, poolName, st.B, false)
	default:
		err = fmt.Errorf("unknown op %q", st.Op)
	}
	return
}

// ---- the dual replayer ------------------------------------------------------------

type witness struct {
	Kind    string          `json:"kind"` // "history" | "midstream"
	Model   *lakeh.AbsModel `json:"model,omitempty"`
	History lakeh.History   `json:"history,omitempty"`
	HIdx    int             `json:"hidx"`
	Fault   string          `json:"fault,omitempty"`
	Detail  string          `json:"detail"`
}

type replayer struct {
	c      *core.Ctx
	ctx    context.Context
	m      *lakeh.AbsModel
	ts     *traceSet
	full   bool // full response-format matrix on every read (replay of a witness)
	lean   bool // quick tier: fewer raw requests per history
	// onDrift, if set, receives model-vs-code disagreements instead of the evidence
	// (used by the self-test that corrupts one predicted value)
	onDrift func(string)
	nextID func() int
}

func (rp *replayer) drift(format string, a ...any) {
	if rp.onDrift != nil {
		rp.onDrift(fmt.Sprintf(format, a...))
		return
	}
	rp.c.Drift(format, a...)
}

// violate reports a C19 violation found while replaying h (up to and including step upto).
func (rp *replayer) violate(sig, what string, h lakeh.History, upto, hidx int) {
	hh := append(lakeh.History(nil), h[:upto]...)
	rp.c.Violate(sig, fmt.Sprintf("%s [history: %s]", what, hh), witness{Kind: "history", Model: rp.m, History: hh, HIdx: hidx, Detail: what})
}

// planLoad picks the upload format of a load step (deterministic in seed,
// history index and step).
func (rp *replayer) planLoad(st *lakeh.Step, hidx, step int) (*loadPlan, error) {
	uniform := true
	for _, v := range rp.m.Batches[st.Batch-1] {
		if rp.m.KeyOf[v-1] >= rp.m.NullKey {
			uniform = false
		}
	}
	var allowed []loadFmt
	for _, f := range loadFmts {
		if !f.Uniform || uniform {
			allowed = append(allowed, f)
		}
	}
	k := int(rp.c.Seed%1000)*5 + hidx*3 + step*7
	f := allowed[k%len(allowed)]
	body, err := encodeBody(f, rp.m.BatchText(st.Batch))
	if err != nil {
		return nil, fmt.Errorf("encode batch %d as %s: %w", st.Batch, f.Name, err)
	}
	return &loadPlan{Fmt: f, Body: body}, nil
}

func sortedBranches(m map[string]int) []string {
	var out []string
	for k := range m {
		out = append(out, k)
	}
	sort.Strings(out)
	return out
}

func sortedInts(xs []int) []int {
	out := append([]int(nil), xs...)
	sort.Ints(out)
	return out
}

func uidsOf(vals []string) []int {
	out := make([]int, len(vals))
	for i, v := range vals {
		out[i] = uidOf(v)
	}
	return out
}

// replay applies history h to a fresh pair of lakes.
func (rp *replayer) replay(h lakeh.History, hidx int, scratch string) error {
	c, ctx, m := rp.c, rp.ctx, rp.m
	p, err := newPair(ctx, filepath.Join(scratch, fmt.Sprintf("h%d", hidx)))
	if err != nil {
		return err
	}
	defer p.close()
	thresh := int64(0)
	if m.ObjMode == "single" {
		thresh = 1
	}
	for _, s := range p.sides() {
		id, err := s.api.CreatePool(ctx, poolName, lakeh.SortKeys("k", m.Dir), 0, thresh)
		if err != nil {
			if s == p.R {
				rp.violate("remote-error:createpool", fmt.Sprintf("creating the pool through the service failed: %v", err), h, 0, hidx)
				return nil
			}
			return fmt.Errorf("create pool (direct): %w", err)
		}
		s.pool = id
	}
	// values read from the input of a load before it failed: they must never show up
	suspect := map[int]bool{}
	for i := range h {
		st := &h[i]
		upto := i + 1
		var lp *loadPlan
		what := st.Op
		if st.Op == "load" {
			if lp, err = rp.planLoad(st, hidx, i); err != nil {
				return err
			}
			what = "load[" + lp.Fmt.Name + "]"
			c.Add("load_format:"+lp.Fmt.Name, 1)
		}
		if st.Op == "loadfail" {
			lp = &loadPlan{Fail: []string{"syntax", "ioerr"}[(hidx+i+int(c.Seed%2))%2], Good: st.Obj}
			for _, v := range m.Batches[st.Batch-1] {
				lp.Text = append(lp.Text, m.ValueText(v))
			}
			what = fmt.Sprintf("load through the handle of an input that fails (%s) after %d good values", lp.Fail, lp.Good)
			c.Add("load_input_failure:"+lp.Fail, 1)
		}
		cL, eL, skL := p.L.apply(ctx, m, st, lp)
		cR, eR, skR := p.R.apply(ctx, m, st, lp)
		if st.Op == "loadfail" {
			// the aborted request may still be running on the server
			p.gate.quiesce()
			for _, v := range m.Batches[st.Batch-1][:st.Obj] {
				suspect[v] = true
			}
		}
		if skL || skR {
			return nil
		}
		c.Eval(fmt.Sprintf("%s|%d|%s", m.Name, hidx, h[:upto]), i > 0 || st.Op != "load")
		c.Add("ops_applied_to_both_lakes", 1)
		if cls(eL) != cls(eR) {
			if eL != nil {
				rp.violate("error-dropped:"+st.Op, fmt.Sprintf("%s fails under direct access (%v) but the service reports success", what, eL), h, upto, hidx)
			} else {
				rp.violate("remote-error:"+st.Op, fmt.Sprintf("%s succeeds under direct access but fails through the service: %v", what, eR), h, upto, hidx)
			}
			return nil
		}
		if cls(eL) != st.Res {
			rp.drift("both access paths report %q for %s where LakeAbs predicts %q (direct: %v; claimed by C14/C15): %s", cls(eL), what, st.Res, eL, h[:upto])
			return nil
		}
		if st.Res == "ok" && st.Commit != 0 {
			p.L.commits[st.Commit], p.R.commits[st.Commit] = cL, cR
		}
		// bind the objects this step created, per lake, by content
		for _, s := range p.sides() {
			mis, err := s.bindObjects(st)
			if err != nil {
				return err
			}
			if mis != "" && st.Res == "ok" {
				rp.drift("object layout (%s): %s: %s", what, mis, h[:upto])
				return nil
			}
		}
		// observable state after the step
		last := i == len(h)-1
		for bi, b := range sortedBranches(st.Tips) {
			ok, err := rp.compareBranch(p, h, upto, hidx, st, b, what, last, bi, suspect)
			if err != nil {
				return err
			}
			if !ok {
				return nil
			}
		}
		if last {
			if err := rp.epilogue(p, h, hidx, st); err != nil {
				return err
			}
		}
	}
	return nil
}

// compareBranch reads branch b through both handles and compares (a) each
// with the model, (b) the service with direct access.
func (rp *replayer) compareBranch(p *pair, h lakeh.History, upto, hidx int, st *lakeh.Step, b, what string, last bool, bi int, suspect map[int]bool) (bool, error) {
	c, ctx := rp.c, rp.ctx
	src := fmt.Sprintf("from %s@%s", poolName, b)
	qL := runQuery(ctx, p.L.api, src)
	qR := runQuery(ctx, p.R.api, src)
	c.Add("branch_reads_compared", 1)
	if cls(qL.Err) != cls(qR.Err) {
		if qL.Err != nil {
			rp.violate("error-dropped:query", fmt.Sprintf("after %s, `%s` fails under direct access (%v) but the remote client reports success with %d values", what, src, qL.Err, len(qR.Vals)), h, upto, hidx)
		} else {
			rp.violate("remote-error:query", fmt.Sprintf("after %s, `%s` succeeds under direct access but the remote client reports: %v", what, src, qR.Err), h, upto, hidx)
		}
		return false, nil
	}
	if qL.Err != nil {
		if st.Readable[b] {
			rp.drift("branch %q cannot be read on either lake although the model says it can (%v; claimed by C14/C15): %s", b, qL.Err, h[:upto])
			return false, nil
		}
		return true, nil
	}
	// (a) against the model
	if st.Readable[b] {
		want := sortedInts(st.Data[b])
		gL, gR := sortedInts(uidsOf(qL.Vals)), sortedInts(uidsOf(qR.Vals))
		if !equalInts(gL, want) {
			if equalInts(gL, gR) {
				rp.drift("branch %q holds %v on both lakes, the model predicts %v (claimed by C14/C15): %s", b, gL, want, h[:upto])
				return false, nil
			}
			rp.drift("direct access: branch %q holds %v, the model predicts %v (claimed by C14/C15): %s", b, gL, want, h[:upto])
		}
		if !equalInts(gR, want) && equalInts(gL, want) {
			if extra := partialCommit(gR, gL, suspect); extra != nil {
				rp.violate("partial-commit:loadfail", fmt.Sprintf("the served lake's branch %q holds values %v, direct access and the model have %v: the extra values %v are the good prefix of an input that FAILED while being loaded through the remote handle (the caller got the error, the service committed the prefix anyway)", b, gR, want, extra), h, upto, hidx)
				return false, nil
			}
			rp.violate("state:contents:"+st.Op, fmt.Sprintf("after %s the served lake's branch %q holds values %v; direct access and the model have %v", what, b, gR, want), h, upto, hidx)
			return false, nil
		}
	}
	// (b) the service against direct access: same values, same order up to equal pool keys
	class := keyClasses(qL.Z)
	if d := sameModuloKeys(qL.Vals, qR.Vals, class); d != "" {
		if extra := partialCommit(uidsOf(qR.Vals), uidsOf(qL.Vals), suspect); extra != nil {
			rp.violate("partial-commit:loadfail", fmt.Sprintf("`%s` returns %v through the service but %v under direct access: the extra values %v are the good prefix of an input that FAILED while being loaded through the remote handle (the caller got the error, the service committed the prefix anyway)", src, qR.Vals, qL.Vals, extra), h, upto, hidx)
			return false, nil
		}
		rp.violate("state:"+d+":"+st.Op, fmt.Sprintf("after %s, `%s` returns %v through the service but %v under direct access (%s differ)", what, src, qR.Vals, qL.Vals, d), h, upto, hidx)
		return false, nil
	}
	if !equalStrings(qL.Labels, qR.Labels) || !equalStrings(qL.EOC, qR.EOC) {
		rp.violate("query-output:channels", fmt.Sprintf("`%s`: channel labels/ends differ: service %v/%v, direct %v/%v", src, qR.Labels, qR.EOC, qL.Labels, qL.EOC), h, upto, hidx)
		return false, nil
	}
	// object-level state through the meta queries of both handles
	for _, meta := range []string{
		fmt.Sprintf("from %s@%s:objects | yield {min:min,max:max,count:count,size:size} | sort this", poolName, b),
		fmt.Sprintf("from %s@%s:log | count()", poolName, b),
		fmt.Sprintf("from %s@%s:vectors | count()", poolName, b),
	} {
		mL, mR := runQuery(ctx, p.L.api, meta), runQuery(ctx, p.R.api, meta)
		if cls(mL.Err) != cls(mR.Err) || (mL.Err == nil && !equalStrings(mL.Vals, mR.Vals)) {
			if len(suspect) > 0 && mL.Err == nil && mR.Err == nil {
				rp.violate("partial-commit:loadfail", fmt.Sprintf("`%s` gives %v through the service but %v under direct access after a load through the remote handle whose input failed after good values %v (the caller got the error, the service committed a prefix anyway)", meta, mR.Vals, mL.Vals, keysOf(suspect)), h, upto, hidx)
				return false, nil
			}
			rp.violate("state:meta:"+st.Op, fmt.Sprintf("after %s, `%s` gives %v (err %v) through the service but %v (err %v) under direct access", what, meta, mR.Vals, mR.Err, mL.Vals, mL.Err), h, upto, hidx)
			return false, nil
		}
	}
	// response formats: one (format, ctrl) pair per read, the whole matrix on the last step
	var combos [][2]int
	k := int(rp.c.Seed%1000)*7 + hidx*5 + upto*3 + bi
	switch {
	case rp.full:
		for fi := range respFmts {
			for ci := range ctrlModes {
				combos = append(combos, [2]int{fi, ci})
			}
		}
	case last && bi == 0:
		// one request per response format, the ctrl mode rotating
		for fi := range respFmts {
			if rp.lean && (fi+hidx)%3 == 0 {
				continue
			}
			combos = append(combos, [2]int{fi, (k + fi) % len(ctrlModes)})
		}
	case !rp.lean || upto%2 == 0:
		combos = append(combos, [2]int{k % len(respFmts), (k / len(respFmts)) % len(ctrlModes)})
	}
	for _, cb := range combos {
		ok, err := rp.compareFormat(p, h, upto, hidx, src, qL, respFmts[cb[0]], ctrlModes[cb[1]])
		if err != nil || !ok {
			return ok, err
		}
	}
	if last && bi == 0 && (rp.full || (rp.lean && hidx%3 == 0) || (!rp.lean && hidx%2 == 0)) {
		if ok, err := rp.extraQueries(p, h, upto, hidx, b); err != nil || !ok {
			return ok, err
		}
	}
	return true, nil
}

// partialCommit: got = want plus extra values, all of them good-prefix values
// of failed loads.  It returns the extra values, or nil.
func partialCommit(got, want []int, suspect map[int]bool) []int {
	cnt := map[int]int{}
	for _, v := range got {
		cnt[v]++
	}
	for _, v := range want {
		cnt[v]--
	}
	var extra []int
	for v, n := range cnt {
		if n < 0 || (n > 0 && !suspect[v]) {
			return nil
		}
		for ; n > 0; n-- {
			extra = append(extra, v)
		}
	}
	sort.Ints(extra)
	return extra
}

func keysOf(m map[int]bool) []int {
	var out []int
	for k := range m {
		out = append(out, k)
	}
	sort.Ints(out)
	return out
}

func equalStrings(a, b []string) bool {
	if len(a) != len(b) {
		return false
	}
	for i := range a {
		if a[i] != b[i] {
			return false
		}
	}
	return true
}

// compareFormat requests src from the service in format f / ctrl mode cm and
// compares with the direct result qL formatted by the same writer.
func (rp *replayer) compareFormat(p *pair, h lakeh.History, upto, hidx int, src string, qL *qres, f respFmt, cm string) (bool, error) {
	c := rp.c
	raw, err := rawQuery(rp.ctx, p.R.url, src, f, cm)
	if err != nil {
		return false, err
	}
	if raw.DecodeErr != nil && !raw.ClientErr {
		rp.violate("query-output:undecodable:"+f.Name, fmt.Sprintf("`%s` as %s (ctrl=%q): the response body cannot be decoded: %v", src, f.Name, cm, raw.DecodeErr), h, upto, hidx)
		return false, nil
	}
	tag := fmt.Sprintf("%s:ctrl=%s", f.Name, ctrlName(cm))
	c.Add("response_format:"+tag, 1)
	c.Eval(fmt.Sprintf("%s|%d|%d|%s|%s", rp.m.Name, hidx, upto, src, tag), true)
	// direct access, formatted the same way
	wantRecs, werr := formatDirect(f, qL.Z)
	fate := qL.fate()
	if fate == "ok" && werr != nil {
		fate = "fail" // the formatter refuses these values (e.g. CSV over several record types)
	}
	cerr := raw.ClientErr
	if f.Writer == "zng" && raw.Status < 300 {
		// the service's own client over the very same bytes
		sc := realScanner(raw.Body)
		if !equalStrings(sc.Vals, raw.Recs) || !equalStrings(sc.Labels, raw.Labels) {
			return false, fmt.Errorf("harness: frame decoder and queryio scanner disagree on %s: %v/%v vs %v/%v", tag, raw.Recs, raw.Labels, sc.Vals, sc.Labels)
		}
		cerr = sc.Err != nil || raw.StatusErr
	}
	tr := mkTrace(rp.nextID(), fmt.Sprintf("%s as %s; history %s", src, tag, h[:upto]), raw, fate, qL.byChannel(), cerr)
	rp.ts.add(tr)
	lerr := fate != "ok"
	switch {
	case lerr && !cerr:
		rp.violate("error-dropped:query:"+tag, fmt.Sprintf("`%s` formatted as %s fails under direct access (%v %v) but a client of the service (ctrl=%q) sees a successful response of %d records and no error on any channel", src, f.Name, qL.Err, werr, cm, len(raw.Recs)), h, upto, hidx)
		return false, nil
	case !lerr && cerr:
		rp.violate("remote-error:query:"+tag, fmt.Sprintf("`%s` as %s succeeds under direct access but the service reports: %s", src, f.Name, raw.ErrText), h, upto, hidx)
		return false, nil
	case lerr:
		return true, nil
	}
	class := keyClasses(qL.Z)
	if f.Writer == "csv" && len(wantRecs) > 0 {
		class = append([]int{-1}, class...) // header line
	}
	if len(class) != len(wantRecs) {
		return false, fmt.Errorf("harness: %d direct records for %d values (%s)", len(wantRecs), len(class), tag)
	}
	if d := sameModuloKeys(wantRecs, raw.Recs, class); d != "" {
		rp.violate("query-output:"+d+":"+tag, fmt.Sprintf("`%s` requested as %s (ctrl=%q) returns %v; direct access formatted by the same writer gives %v", src, f.Name, cm, raw.Recs, wantRecs), h, upto, hidx)
		return false, nil
	}
	return true, nil
}

func ctrlName(cm string) string {
	if cm == "" {
		return "absent"
	}
	return cm
}

// extraQueries: a multi-channel query and queries that fail before streaming,
// through the remote handle and as raw requests (traces for QueryProto).
func (rp *replayer) extraQueries(p *pair, h lakeh.History, upto, hidx int, b string) (bool, error) {
	ctx := rp.ctx
	type q struct {
		src   string
		multi bool
	}
	qs := []q{
		{fmt.Sprintf("from %s@%s | fork (=> k==1 | output a => k!=1 | output b)", poolName, b), true},
		{fmt.Sprintf("from %s@nosuchbranch", poolName), false},
		{"from nosuchpool", false},
		{"from p | this is not ((", false},
	}
	for qi, x := range qs {
		qL := runQuery(ctx, p.L.api, x.src)
		qR := runQuery(ctx, p.R.api, x.src)
		rp.c.Eval(fmt.Sprintf("%s|%d|%d|%s", rp.m.Name, hidx, upto, x.src), true)
		if cls(qL.Err) != cls(qR.Err) {
			sig := "remote-error:query"
			if qL.Err != nil {
				sig = "error-dropped:query"
			}
			rp.violate(sig, fmt.Sprintf("`%s`: direct access reports %v, the remote client %v", x.src, qL.Err, qR.Err), h, upto, hidx)
			return false, nil
		}
		if qL.Err == nil {
			// per channel: same values in the same order (channels interleave freely)
			cl, cr := qL.byChannel(), qR.byChannel()
			if fmt.Sprint(cl) != fmt.Sprint(cr) {
				rp.violate("query-output:channels", fmt.Sprintf("`%s`: per-channel output differs: service %v, direct %v", x.src, cr, cl), h, upto, hidx)
				return false, nil
			}
		}
		// raw requests, TLC decides order/attribution/error delivery
		for _, cb := range [][2]int{{0, 0}, {2 * ((hidx + qi) % 2), 1}, {1 + (hidx+qi)%4, (hidx + qi) % 3}} {
			f, cm := respFmts[cb[0]], ctrlModes[cb[1]]
			raw, err := rawQuery(ctx, p.R.url, x.src, f, cm)
			if err != nil {
				return false, err
			}
			tag := fmt.Sprintf("%s:ctrl=%s", f.Name, ctrlName(cm))
			cerr := raw.ClientErr
			if f.Writer == "zng" && raw.Status < 300 {
				sc := realScanner(raw.Body)
				cerr = sc.Err != nil || raw.StatusErr
			}
			rp.ts.add(mkTrace(rp.nextID(), fmt.Sprintf("%s as %s; history %s", x.src, tag, h[:upto]), raw, qL.fate(), qL.byChannel(), cerr))
			rp.c.Add("response_format:"+tag, 1)
			if (qL.Err != nil) != cerr {
				sig := "remote-error:query:" + tag
				if qL.Err != nil {
					sig = "error-dropped:query:" + tag
				}
				rp.violate(sig, fmt.Sprintf("`%s` as %s: direct access reports %v, a client of the service sees error=%v (%s)", x.src, tag, qL.Err, cerr, raw.ErrText), h, upto, hidx)
				return false, nil
			}
			if qL.Err == nil && !equalInts(sortedInts(raw.Us), sortedInts(uidsOf(qL.Vals))) {
				rp.violate("query-output:contents:"+tag, fmt.Sprintf("`%s` as %s returns values %v, direct access %v", x.src, tag, raw.Us, uidsOf(qL.Vals)), h, upto, hidx)
				return false, nil
			}
		}
	}
	return true, nil
}

// epilogue: operations outside LakeAbs that both handles must agree on.  The
// model's last prediction for the untouched branches still applies.
func (rp *replayer) epilogue(p *pair, h lakeh.History, hidx int, st *lakeh.Step) error {
	ctx := rp.ctx
	upto := len(h)
	type res struct{ eL, eR error }
	both := func(f func(s *side) error) res { return res{f(p.L), f(p.R)} }
	check := func(op string, r res, wantOK bool) bool {
		rp.c.Add("epilogue_ops", 1)
		rp.c.Eval(fmt.Sprintf("%s|%d|epilogue|%s", rp.m.Name, hidx, op), true)
		if cls(r.eL) == cls(r.eR) {
			if (r.eL == nil) != wantOK {
				rp.c.Drift("epilogue %s: both access paths report %v, expected ok=%v", op, r.eL, wantOK)
				return false
			}
			return true
		}
		if r.eL != nil {
			rp.violate("error-dropped:"+op, fmt.Sprintf("%s fails under direct access (%v) but the service reports success", op, r.eL), h, upto, hidx)
			return false
		}
		sig := "remote-error:" + op
		if strings.Contains(r.eR.Error(), "TBD remote.") {
			sig = "remote-missing:" + strings.TrimPrefix(op, "epilogue:")
		}
		rp.violate(sig, fmt.Sprintf("%s succeeds under direct access but fails through the service: %v", op, r.eR), h, upto, hidx)
		return false
	}
	sameRead := func(src string, wantErr bool) bool {
		qL, qR := runQuery(ctx, p.L.api, src), runQuery(ctx, p.R.api, src)
		if cls(qL.Err) != cls(qR.Err) || (qL.Err == nil && sameModuloKeys(qL.Vals, qR.Vals, keyClasses(qL.Z)) != "") {
			rp.violate("state:epilogue", fmt.Sprintf("`%s`: service %v (err %v), direct %v (err %v)", src, qR.Vals, qR.Err, qL.Vals, qL.Err), h, upto, hidx)
			return false
		}
		if (qL.Err != nil) != wantErr {
			rp.c.Drift("epilogue `%s`: error=%v on both lakes, expected error=%v", src, qL.Err, wantErr)
			return false
		}
		return true
	}
	// a branch to remove: a non-main branch of the history if there is one
	victim := ""
	for _, b := range sortedBranches(st.Tips) {
		if b != "main" {
			victim = b
		}
	}
	if victim == "" {
		victim = "extra"
		if !check("epilogue:CreateBranch", both(func(s *side) error { return s.api.CreateBranch(ctx, s.pool, victim, ksuid.Nil) }), true) {
			return nil
		}
	}
	if !check("epilogue:RemoveBranch(missing)", both(func(s *side) error { return s.api.RemoveBranch(ctx, s.pool, "nosuchbranch") }), false) {
		return nil
	}
	rm := both(func(s *side) error { return s.api.RemoveBranch(ctx, s.pool, victim) })
	if check("epilogue:RemoveBranch", rm, true) {
		if !sameRead(fmt.Sprintf("from %s@%s", poolName, victim), true) {
			return nil
		}
	} else if rm.eL == nil && rm.eR != nil {
		// the two lakes now differ by that branch; the remaining operations do not touch it
	} else {
		return nil
	}
	if st.Readable["main"] && !sameRead("from "+poolName, false) {
		return nil
	}
	if !check("epilogue:CreatePool(exists)", both(func(s *side) error {
		_, err := s.api.CreatePool(ctx, poolName, lakeh.SortKeys("k", rp.m.Dir), 0, 0)
		return err
	}), false) {
		return nil
	}
	if !check("epilogue:RenamePool", both(func(s *side) error { return s.api.RenamePool(ctx, s.pool, "q") }), true) {
		return nil
	}
	if !sameRead("from "+poolName, true) || (st.Readable["main"] && !sameRead("from q", false)) {
		return nil
	}
	if !check("epilogue:RemovePool", both(func(s *side) error { return s.api.RemovePool(ctx, s.pool) }), true) {
		return nil
	}
	if !sameRead("from q", true) {
		return nil
	}
	check("epilogue:RemovePool(missing)", both(func(s *side) error { return s.api.RemovePool(ctx, s.pool) }), false)
	return nil
}
