package main

// The child process: every real query runs here, so that a crash of the query
// (a panic in one of the runtime's goroutines kills the process) is observed by
// the parent as a result.  Protocol: one JSON job on stdin; one JSON event per
// line on stdout ("begin" before each query, "res" after it, "done" last).

import (
	"bufio"
	"context"
	"encoding/json"
	"fmt"
	"os"
	"strings"

	zed "github.com/brimdata/super"
	"github.com/brimdata/super/api"
	"github.com/brimdata/super/compiler"
	"github.com/brimdata/super/compiler/ast/dag"
	"github.com/brimdata/super/compiler/data"
	"github.com/brimdata/super/compiler/parser"
	"github.com/brimdata/super/lakeparse"
	"github.com/brimdata/super/pkg/storage"
	"github.com/brimdata/super/runtime"
	"github.com/brimdata/super/runtime/vcache"
	"github.com/brimdata/super/zbuf"
	"github.com/brimdata/super/zio"
	"github.com/brimdata/super/zio/vngio"
	"github.com/brimdata/super/zio/zsonio"
	"github.com/brimdata/super/zson"
	"github.com/segmentio/ksuid"

	"verif/flowh"
	"verif/lakeh"
)

type opJ struct {
	Op     string `json:"op"`
	Batch  int    `json:"batch,omitempty"`
	Obj    int    `json:"obj,omitempty"`
	Objs   []int  `json:"objs,omitempty"`
	Vec    bool   `json:"vec,omitempty"`
	NewIds []int  `json:"newids,omitempty"`
	Res    string `json:"res"`
}

type jobJ struct {
	Kind    string   `json:"kind"` // "hist" | "vc"
	At      []int    `json:"at"`   // hist: query after these steps only (1-based; empty = after every step)
	Values  []string `json:"values"`
	Batches [][]int  `json:"batches"`
	Steps   []opJ    `json:"steps"`
	Queries []string `json:"queries"`
	Legs    int      `json:"legs"`
	Skip    []string `json:"skip"`
	// vc
	Programs []string `json:"programs"`
	Scratch  string   `json:"scratch"`
	// batch: several hist jobs in one process; their keys are prefixed "<index>/"
	Jobs []jobJ `json:"jobs,omitempty"`
}

type evJ struct {
	Ev    string   `json:"ev"` // begin | res | op | done | fatal
	Key   string   `json:"key,omitempty"`
	Rows  []string `json:"rows,omitempty"`
	Err   string   `json:"err,omitempty"`
	Vec   bool     `json:"vec,omitempty"`   // the real plan contains a dag.Vectorize
	Trace [][]int  `json:"trace,omitempty"` // per leg: model object ids in the order pulled
	Step  int      `json:"step,omitempty"`
	Res   string   `json:"res,omitempty"`
	Msg   string   `json:"msg,omitempty"`
	Job   int      `json:"job,omitempty"`
}

var out = bufio.NewWriter(os.Stdout)

func emit(e evJ) {
	b, _ := json.Marshal(e)
	out.Write(b)
	out.WriteByte('\n')
	out.Flush()
}

func childMain() {
	var job jobJ
	if err := json.NewDecoder(os.Stdin).Decode(&job); err != nil {
		emit(evJ{Ev: "fatal", Msg: "bad job: " + err.Error()})
		os.Exit(3)
	}
	skip := map[string]bool{}
	for _, k := range job.Skip {
		skip[k] = true
	}
	var err error
	switch job.Kind {
	case "hist":
		err = childHist(&job, skip, "", 0)
	case "batch":
		for i := range job.Jobs {
			if err = childHist(&job.Jobs[i], skip, fmt.Sprintf("%d/", i), i); err != nil {
				break
			}
		}
	case "vc":
		err = childVC(&job, skip, "")
	case "vcbatch":
		for i := range job.Jobs {
			if err = childVC(&job.Jobs[i], skip, fmt.Sprintf("%d/", i)); err != nil {
				break
			}
		}
	default:
		err = fmt.Errorf("unknown job kind %q", job.Kind)
	}
	if err != nil {
		emit(evJ{Ev: "fatal", Msg: err.Error()})
		os.Exit(3)
	}
	emit(evJ{Ev: "done"})
}

type histEnv struct {
	prefix string
	ctx  context.Context
	lk   *lakeh.Lake
	src  *data.Source
	pool ksuid.KSUID
	real map[int]ksuid.KSUID // model object id -> real id
	back map[string]int
}

func (h *histEnv) objects() (map[string]bool, error) {
	objs, err := h.lk.Objects(h.ctx, "p", "main")
	if err != nil {
		// an empty branch has no objects
		if strings.Contains(err.Error(), "empty") {
			return map[string]bool{}, nil
		}
		return nil, err
	}
	m := map[string]bool{}
	for _, o := range objs {
		m[o.ID] = true
	}
	return m, nil
}

func (h *histEnv) ids(model []int) ([]ksuid.KSUID, bool) {
	var out []ksuid.KSUID
	for _, m := range model {
		id, ok := h.real[m]
		if !ok {
			return nil, false
		}
		out = append(out, id)
	}
	return out, true
}

func childHist(job *jobJ, skip map[string]bool, prefix string, jobIdx int) error {
	ctx := context.Background()
	lk, err := lakeh.Create(ctx, lakeh.NewMemStore(), 0, nil)
	if err != nil {
		return err
	}
	h := &histEnv{prefix: prefix, ctx: ctx, lk: lk, src: data.NewSource(storage.NewRemoteEngine(), lk.Root), real: map[int]ksuid.KSUID{}, back: map[string]int{}}
	if h.pool, err = lk.CreatePool(ctx, "p", "k", "asc", 0, 0); err != nil {
		return err
	}
	msg := api.CommitMessage{Author: "verif"}
	seen := map[string]bool{}
	for i, st := range job.Steps {
		var opErr error
		switch st.Op {
		case "load":
			var rows []string
			for _, v := range job.Batches[st.Batch-1] {
				rows = append(rows, job.Values[v-1])
			}
			_, opErr = lk.LoadZSON(ctx, h.pool, "main", strings.Join(rows, "\n"))
		case "addvec", "delvec":
			ids, ok := h.ids(st.Objs)
			if !ok {
				// an object the model never created on this lake: the model predicts an error
				opErr = fmt.Errorf("unknown object")
			} else if st.Op == "addvec" {
				_, opErr = lk.API.AddVectors(ctx, "p", "main", ids, msg)
			} else {
				_, opErr = lk.API.DeleteVectors(ctx, "p", "main", ids, msg)
			}
		case "compact":
			ids, ok := h.ids(st.Objs)
			if !ok {
				opErr = fmt.Errorf("unknown object")
			} else {
				_, opErr = lk.API.Compact(ctx, h.pool, "main", ids, st.Vec, msg)
			}
		case "delete":
			ids, ok := h.ids([]int{st.Obj})
			if !ok {
				opErr = fmt.Errorf("unknown object")
			} else {
				_, opErr = lk.API.Delete(ctx, h.pool, "main", ids, msg)
			}
		default:
			return fmt.Errorf("unknown op %q", st.Op)
		}
		res := "ok"
		if opErr != nil {
			res = "err"
		}
		// bind new objects
		now, err := h.objects()
		if err != nil {
			return err
		}
		var fresh []string
		for id := range now {
			if !seen[id] {
				fresh = append(fresh, id)
				seen[id] = true
			}
		}
		if res == "ok" && len(fresh) != len(st.NewIds) {
			emit(evJ{Ev: "op", Job: jobIdx, Step: i + 1, Res: res, Msg: fmt.Sprintf("model predicts %d new objects, lake created %d (%v)", len(st.NewIds), len(fresh), opErr)})
		} else {
			emit(evJ{Ev: "op", Job: jobIdx, Step: i + 1, Res: res, Msg: fmt.Sprint(opErr)})
		}
		if len(fresh) == 1 && len(st.NewIds) == 1 {
			k, _ := ksuid.Parse(fresh[0])
			h.real[st.NewIds[0]] = k
			h.back[fresh[0]] = st.NewIds[0]
		}
		if len(now) == 0 {
			continue
		}
		if len(job.At) > 0 {
			want := false
			for _, a := range job.At {
				if a == i+1 {
					want = true
				}
			}
			if !want {
				continue
			}
		}
		// queries after this step
		for _, q := range job.Queries {
			h.run(fmt.Sprintf("%d|%s|seq", i+1, q), q, 1, nil, skip)
		}
		for _, q := range job.Queries {
			if q == "sumby" {
				h.run(fmt.Sprintf("%d|%s|free", i+1, q), q, job.Legs, nil, skip)
				continue
			}
			one := make([]int, 16)
			rr := make([]int, 16)
			for j := range one {
				one[j] = 1
				rr[j] = j%job.Legs + 1
			}
			h.run(fmt.Sprintf("%d|%s|one", i+1, q), q, job.Legs, one, skip)
			h.run(fmt.Sprintf("%d|%s|rr", i+1, q), q, job.Legs, rr, skip)
		}
	}
	return nil
}

// run executes one query; sched != nil forces the legs' Lister pulls.
func (h *histEnv) run(key, q string, par int, sched []int, skip map[string]bool) {
	key = h.prefix + key
	if skip[key] {
		return
	}
	emit(evJ{Ev: "begin", Key: key})
	src := queryText[q]
	ev := evJ{Ev: "res", Key: key}
	seq, _, err := parser.ParseSuperPipe(nil, src)
	if err != nil {
		ev.Err = "parse: " + err.Error()
		emit(ev)
		return
	}
	// the real plan: is a scatter leg vectorized?
	if par > 1 {
		rctx := runtime.NewContext(h.ctx, zed.NewContext())
		if job, err := compiler.NewJob(rctx, seq, h.src, nil); err == nil && job.Optimize() == nil && job.Parallelize(par) == nil {
			ev.Vec = hasVectorize(job.Entry())
		}
		rctx.Cancel()
	}
	var g *gate
	if sched != nil && !ev.Vec {
		// sequential legs: the assignment of objects to legs cannot matter for these
		// aggregates beyond what C08 checks; run free
		sched = nil
	}
	if sched != nil {
		site := "meta.Lister.Pull.enter"
		if q == "cbk" {
			site = "meta.Slicer.Pull.enter"
		}
		g = newGate(site, sched)
		g.start()
	}
	rows, qerr := func() (rows []string, err error) {
		defer func() {
			if r := recover(); r != nil {
				err = fmt.Errorf("panic: %v", r)
			}
		}()
		rctx := runtime.NewContext(h.ctx, zed.NewContext())
		defer rctx.Cancel()
		qq, err := compiler.NewLakeCompiler(h.lk.Root).NewLakeQuery(rctx, seq, par, (*lakeparse.Commitish)(nil))
		if err != nil {
			return nil, err
		}
		return lakeh.Drain(qq)
	}()
	if g != nil {
		pulls, gerr := g.finish()
		if qerr == nil && gerr != nil {
			qerr = gerr
		}
		legs := map[int][]int{}
		maxLeg := 0
		for _, p := range pulls {
			for _, o := range p.Objects {
				legs[p.Leg] = append(legs[p.Leg], h.back[o])
			}
			if p.Leg > maxLeg {
				maxLeg = p.Leg
			}
		}
		for l := 1; l <= maxLeg; l++ {
			ev.Trace = append(ev.Trace, append([]int{}, legs[l]...))
		}
	}
	ev.Rows = rows
	if qerr != nil {
		ev.Err = firstLine(qerr.Error())
	}
	emit(ev)
}

func firstLine(s string) string {
	if i := strings.IndexByte(s, '\n'); i >= 0 {
		s = s[:i]
	}
	if len(s) > 300 {
		s = s[:300]
	}
	return s
}

func hasVectorize(seq dag.Seq) bool {
	for _, op := range seq {
		switch op := op.(type) {
		case *dag.Vectorize:
			return true
		case *dag.Scatter:
			for _, p := range op.Paths {
				if hasVectorize(p) {
					return true
				}
			}
		}
	}
	return false
}

// childVC runs whole programs through compiler.VectorCompile (the vector
// runtime over one VNG object holding the values) and through the sequential
// runtime over the same values.
func childVC(job *jobJ, skip map[string]bool, prefix string) error {
	ctx := context.Background()
	input := strings.Join(job.Values, "\n")
	path := job.Scratch + "/vc" + strings.TrimSuffix(prefix, "/") + ".vng"
	f, err := os.Create(path)
	if err != nil {
		return err
	}
	w := vngio.NewWriter(f)
	if err := zio.Copy(w, zsonio.NewReader(zed.NewContext(), strings.NewReader(input))); err != nil {
		return err
	}
	if err := w.Close(); err != nil {
		return err
	}
	uri, err := storage.ParseURI(path)
	if err != nil {
		return err
	}
	cache := vcache.NewCache(storage.NewLocalEngine())
	for i, prog := range job.Programs {
		kseq := fmt.Sprintf("%s%d|seq", prefix, i)
		if !skip[kseq] {
			emit(evJ{Ev: "begin", Key: kseq})
			ev := evJ{Ev: "res", Key: kseq}
			res := flowh.Run(ctx, prog, flowh.Opts{}, input)
			if res.Err != nil {
				ev.Err = firstLine(res.Err.Error())
			} else {
				ev.Rows = res.Rows
			}
			emit(ev)
		}
		kvec := fmt.Sprintf("%s%d|vec", prefix, i)
		if !skip[kvec] {
			emit(evJ{Ev: "begin", Key: kvec})
			ev := evJ{Ev: "res", Key: kvec}
			rows, err := func() (rows []string, err error) {
				defer func() {
					if rr := recover(); rr != nil {
						err = fmt.Errorf("panic: %v", rr)
					}
				}()
				object, err := cache.Fetch(ctx, uri, ksuid.Nil)
				if err != nil {
					return nil, fmt.Errorf("fetch: %w", err)
				}
				defer object.Close()
				rctx := runtime.NewContext(ctx, zed.NewContext())
				defer rctx.Cancel()
				puller, err := compiler.VectorCompile(rctx, prog, object)
				if err != nil {
					return nil, fmt.Errorf("compile: %w", err)
				}
				return drain(puller)
			}()
			ev.Rows = rows
			if err != nil {
				ev.Err = firstLine(err.Error())
			}
			emit(ev)
		}
	}
	return nil
}

func drain(p zbuf.Puller) ([]string, error) {
	var out []string
	for {
		b, err := p.Pull(false)
		if err != nil {
			return out, err
		}
		if b == nil {
			return out, nil
		}
		for _, v := range b.Values() {
			out = append(out, zson.FormatValue(v))
		}
		b.Unref()
	}
}
