package main

// Whole programs of the vector compiler's subset: compiler.VectorCompile over
// one VNG object holding the values of a column configuration, against the
// sequential runtime over the same values.

import (
	"fmt"
	"strings"
)

type vprog struct {
	text    string
	ordered bool // the program defines the output order (ends in a sort on the unique field k)
}

var vprogs = []vprog{
	{"yield s", false}, {"yield x", false}, {"yield k", false}, {"yield this", false},
	{"cut s", false}, {"cut x,s", false}, {"cut k,x", false}, {"drop x", false}, {"drop s,x", false},
	{"put y:=x", false}, {"put y:=k+1", false}, {"put s:=k", false}, {"rename t:=s", false}, {"rename y:=x", false},
	{"where k > 2", false}, {"where x > 1", false}, {`where s == "a"`, false}, {`where x == 2 or s == "b"`, false},
	{"where not (k > 2)", false}, {"where k > 1 and k < 5", false},
	{"yield k + 1", false}, {"yield k * 2", false}, {"yield -k", false}, {"yield x + 1", false}, {"yield k > 2", false},
	{"yield {a:s,b:x}", false}, {"yield {k,s}", false}, {"yield this.s", false},
	{"sort k", true}, {"sort -r k", true}, {"sort k | head 2", true}, {"sort -r k | tail 2", true}, {"where k > 1 | sort k | head 1", true},
	{"yield len(s)", false}, {"yield lower(s)", false}, {"yield typeof(x)", false},
	{"count() by s", false}, {"sum(x)", false},
}

func (h *harness) vcompile() error {
	c := h.c
	n := 0
	batch := jobJ{Kind: "vcbatch"}
	for _, cfgc := range colConfigs {
		job := jobJ{Kind: "vc", Scratch: c.Scratch}
		for i := range cfgc.S {
			job.Values = append(job.Values, valueZSON(i+1, cfgc.S[i], cfgc.X[i]))
		}
		for _, p := range vprogs {
			job.Programs = append(job.Programs, p.text)
		}
		batch.Jobs = append(batch.Jobs, job)
	}
	all, _, err := h.runChild(batch)
	if err != nil {
		return fmt.Errorf("vcompile: %w", err)
	}
	for ci, cfgc := range colConfigs {
		job := batch.Jobs[ci]
		results := map[string]evJ{}
		pre := fmt.Sprintf("%d/", ci)
		for k, v := range all {
			if strings.HasPrefix(k, pre) {
				results[strings.TrimPrefix(k, pre)] = v
			}
		}
		for pi, p := range vprogs {
			seq, ok1 := results[fmt.Sprintf("%d|seq", pi)]
			vec, ok2 := results[fmt.Sprintf("%d|vec", pi)]
			if !ok1 || !ok2 {
				continue
			}
			if seq.Err != "" {
				continue // not a program of the sequential language over these values
			}
			if strings.HasPrefix(vec.Err, "compile:") {
				h.feat["vcompile: not in the vector compiler's subset"]++
				continue
			}
			n++
			c.Eval(fmt.Sprintf("vc|%d|%s", ci, p.text), true)
			a, b := seq.Rows, vec.Rows
			same := vec.Err == ""
			if same {
				if p.ordered {
					same = eqStrs(a, b)
				} else {
					same = eqStrs(canonReal(a, "", false), canonReal(b, "", false))
				}
			}
			if same {
				h.feat["vcompile agrees"]++
				continue
			}
			kind := "differs"
			if vec.Res == "crash" {
				kind = "crash"
			} else if vec.Err != "" {
				kind = "error"
			}
			sig := fmt.Sprintf("vcompile:%s:%s", p.text, kind)
			what := fmt.Sprintf("compiler.VectorCompile(`%s`) over %v returns %v %s; the sequential runtime returns %v", p.text, job.Values, clip(b), vec.Err, clip(a))
			c.Violate(sig, what, witness{Config: cfgc.Name, Values: job.Values, Program: p.text, Seq: a, Vec: b, Err: vec.Err})
		}
	}
	c.Set("vcompile_runs", n)
	c.Logf("VectorCompile vs sequential: %d (program, value set) pairs executed by the vector runtime", n)
	return nil
}

func (h *harness) replayVC(sig string, w witness) error {
	job := jobJ{Kind: "vc", Scratch: h.c.Scratch, Values: w.Values, Programs: []string{w.Program}}
	results, _, err := h.runChild(job)
	if err != nil {
		return err
	}
	seq, vec := results["0|seq"], results["0|vec"]
	fmt.Printf("sequential: %v %s\nvector:     %v %s\n", seq.Rows, seq.Err, vec.Rows, vec.Err)
	if vec.Err != "" || !eqStrs(canonReal(seq.Rows, "", false), canonReal(vec.Rows, "", false)) {
		h.c.Violate(sig, "replayed", w)
	}
	return nil
}
