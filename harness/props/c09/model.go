package main

// Tokens of specs/VecAgg.tla, their ZSON rendering, and the canonical form in
// which predicted and real results are compared.

import (
	"fmt"
	"sort"
	"strconv"
	"strings"

	zed "github.com/brimdata/super"
	"github.com/brimdata/super/zson"
)

// tok is the spec's T(t, n).
type tok struct {
	T string `json:"t"`
	N int    `json:"n"`
}

func strOf(n int) string {
	if n == 0 {
		return ""
	}
	return string(rune('a' + n - 1))
}

// zson renders a token as a ZSON value; ok=false for an absent field.
func (t tok) zson() (string, bool) {
	switch t.T {
	case "str":
		return strconv.Quote(strOf(t.N)), true
	case "int":
		return strconv.Itoa(t.N), true
	case "uint":
		return strconv.Itoa(t.N) + "(uint64)", true
	case "float":
		return zson.FormatValue(zed.NewFloat64(float64(t.N) / 2)), true
	case "nstr":
		return "null(string)", true
	case "nint":
		return "null(int64)", true
	case "null":
		return "null", true
	case "emiss":
		return `error("missing")`, true
	case "miss":
		return "", false
	}
	return "?" + t.T, true
}

func tlaTok(t tok) string { return fmt.Sprintf("T(%q, %d)", t.T, t.N) }

// valueZSON renders value id i (1-based) of a column configuration.
func valueZSON(i int, s, x tok) string {
	parts := []string{fmt.Sprintf("k:%d", i)}
	if z, ok := s.zson(); ok {
		parts = append(parts, "s:"+z)
	}
	if z, ok := x.zson(); ok {
		parts = append(parts, "x:"+z)
	}
	return "{" + strings.Join(parts, ",") + "}"
}

// specRes is ResJson of the spec.
type specRes struct {
	Kind string `json:"kind"` // rows | val | err | na
	Rows []struct {
		K tok `json:"k"`
		C int `json:"c"`
	} `json:"rows"`
	Val tok `json:"val"`
}

// canon is the canonical form of a query result: sorted row texts, or "ERR".
func (r specRes) canon(keyField string) []string {
	switch r.Kind {
	case "err":
		return []string{"ERR"}
	case "val":
		z, _ := r.Val.zson()
		return []string{z}
	case "rows":
		out := []string{}
		for _, row := range r.Rows {
			z, _ := row.K.zson()
			out = append(out, fmt.Sprintf("{%s:%s,count:%d(uint64)}", keyField, z, row.C))
		}
		sort.Strings(out)
		return out
	}
	return []string{"N/A"}
}

// canonReal: the real rows as a sorted multiset, "ERR" for a failed query and
// "CRASH" for a dead process.
func canonReal(rows []string, errText string, crashed bool) []string {
	if crashed {
		return []string{"CRASH"}
	}
	if errText != "" {
		return []string{"ERR"}
	}
	out := append([]string{}, rows...)
	sort.Strings(out)
	return out
}

func eqStrs(a, b []string) bool {
	if len(a) != len(b) {
		return false
	}
	for i := range a {
		if a[i] != b[i] {
			return false
		}
	}
	return true
}

var queryText = map[string]string{
	"cbs":   "from p | count() by s",
	"sum":   "from p | sum(x)",
	"fcbs":  "from p | where x==2 | count() by s",
	"cbk":   "from p | count() by k",
	"sumby": "from p | sum(x) by s",
}

// the deviations named by the spec, most specific first (signature = query + first tag)
var tagPriority = []string{
	"vectorize:pool-key-partitions", "countby:missing-field", "countby:nonstring-dict", "countby:nonstring-const",
	"countby:null-in-string-column", "countby:untyped-null", "countby:dict-overwrite", "vectorize:filter-dropped",
	"sum:float", "sum:uint-result-type", "sum:no-values", "sum:const-column",
}

func firstTag(tags []string) string {
	for _, p := range tagPriority {
		for _, t := range tags {
			if t == p {
				return p
			}
		}
	}
	if len(tags) > 0 {
		return tags[0]
	}
	return ""
}
