// C09 -- the vector runtime agrees with the sequential runtime.
//
// specs/VecAgg.tla extends the abstract lake of specs/LakeAbs.tla with (i) the
// planner rule optimizer.Vectorize as coded (a scatter leg `seqscan |
// count() by f` / `seqscan | sum(f)` runs on the vector runtime iff every
// object of the snapshot has a vector copy) and (ii) a column model (record
// type groups per object; const / dict / plain columns; nulls) with
// vam/op/agg.go transcribed as coded next to the sequential semantics of the
// two aggregates.  TLC explores all histories of load / vector add / vector
// delete / compact(+vectors) / delete over several column configurations,
// checks that the planned result equals the sequential result wherever no
// named deviation of agg.go applies, and exports every history with, per step
// and query: does the rule fire, the sequential result, the as-coded result
// for two leg assignments, the deviations that apply.
//
// The harness replays sampled histories on a real lake -- in a child process,
// so that a crash of a query is a result -- querying at parallelism 1 (the
// reference) and 2 (the only path that calls Vectorize) with the two leg
// assignments forced through the Lister hook, and compares: real-2 with
// real-1 (the property), and both with the spec's predictions (binding).
// Whole programs of the vector compiler's subset are run through
// compiler.VectorCompile and the sequential runtime on the same values.
package main

import (
	"bufio"
	"bytes"
	"encoding/json"
	"fmt"
	"os"
	"os/exec"
	"sort"
	"strings"
	"time"

	"verif/core"
	"verif/lakeh"
)

type colConfig struct {
	Name string
	S, X []tok
}

func T(t string, n int) tok { return tok{t, n} }

// five values; batches {1,2,3} and {4,5}
var colConfigs = []colConfig{
	{"strings-disjoint/int-dict", []tok{T("str", 1), T("str", 2), T("str", 1), T("str", 3), T("str", 4)}, []tok{T("int", 1), T("int", 1), T("int", 2), T("int", 4), T("int", 5)}},
	{"strings-overlap/int-dict", []tok{T("str", 1), T("str", 2), T("str", 1), T("str", 1), T("str", 2)}, []tok{T("int", 1), T("int", 2), T("int", 3), T("int", 2), T("int", 5)}},
	{"strings-const/int-const", []tok{T("str", 1), T("str", 1), T("str", 1), T("str", 2), T("str", 2)}, []tok{T("int", 2), T("int", 2), T("int", 2), T("int", 2), T("int", 5)}},
	{"nulls-and-missing", []tok{T("str", 1), T("nstr", 0), T("str", 2), T("miss", 0), T("str", 1)}, []tok{T("int", 1), T("nint", 0), T("int", 2), T("int", 2), T("miss", 0)}},
	{"int-keys/uint-float", []tok{T("int", 1), T("int", 1), T("int", 2), T("str", 1), T("null", 0)}, []tok{T("uint", 2), T("uint", 3), T("uint", 2), T("float", 3), T("int", 2)}},
	{"no-numeric-x", []tok{T("str", 1), T("str", 2), T("str", 1), T("str", 2), T("str", 1)}, []tok{T("nint", 0), T("miss", 0), T("str", 26), T("nint", 0), T("miss", 0)}},
	{"mixed-in-object", []tok{T("str", 1), T("int", 1), T("str", 1), T("str", 2), T("str", 2)}, []tok{T("int", 1), T("str", 26), T("float", 3), T("int", 2), T("int", 2)}},
}

var batches = [][]int{{1, 2, 3}, {4, 5}}

type predJ struct {
	Vec   bool    `json:"vec"`
	Seq   specRes `json:"seq"`
	Order []int   `json:"order"`
	One   asgPred `json:"one"`
	RR    asgPred `json:"rr"`
}

type asgPred struct {
	Res   specRes  `json:"res"`
	Taint []string `json:"taint"`
	Asg   [][]int  `json:"asg"`
}

type vhist struct {
	CC   int                          `json:"cc"`
	Hist lakeh.History                `json:"hist"`
	Pred []json.RawMessage            `json:"pred"`
	pred []map[string]predJ
}

type harness struct {
	c    *core.Ctx
	feat map[string]int
}

func main() {
	if os.Getenv("VERIF_C09_CHILD") == "1" {
		childMain()
		return
	}
	core.Main("C09", "model_checking", run)
}

func mcModule(maxOps, emitMod, emitRem int) (string, string) {
	all := []string{"load", "addvec", "delvec", "compact", "delete"}
	m := &lakeh.AbsModel{Name: "VecAgg", MaxOps: maxOps, KeyOf: []int{1, 2, 3, 4, 5}, NullKey: 90, Batches: batches, ObjMode: "all",
		Branches: []string{"main"}, OpKinds: all, Preds: [][]int{{1}}, Dir: "asc",
		Invariants: []string{"VecAgrees", "VectorsIrrelevant", "VecExport"}}
	m.Shape = [][]string{{"load"}}
	for i := 1; i < maxOps; i++ {
		m.Shape = append(m.Shape, all)
	}
	var cfgs []string
	for _, c := range colConfigs {
		var s, x []string
		for i := range c.S {
			s = append(s, tlaTok(c.S[i]))
			x = append(x, tlaTok(c.X[i]))
		}
		cfgs = append(cfgs, fmt.Sprintf("[s |-> <<%s>>, x |-> <<%s>>]", strings.Join(s, ", "), strings.Join(x, ", ")))
	}
	// the LakeAbs part of the model module and configuration comes from lakeh (one
	// source of truth for LakeAbs' constants); VecAgg's own constants are added
	mod := m.MCModule("MC_VecAgg")
	mod = strings.Replace(mod, "EXTENDS LakeAbs", "EXTENDS VecAgg", 1)
	mod = strings.Replace(mod, "====", fmt.Sprintf("MCCols == <<%s>>\n====", strings.Join(cfgs, ",\n  ")), 1)
	cfg := m.Cfg(false)
	cfg = strings.Replace(cfg, "SPECIFICATION Spec", "SPECIFICATION VSpec", 1)
	cfg = strings.Replace(cfg, "CONSTANTS\n", fmt.Sprintf("CONSTANTS\n  ColConfigs <- MCCols\n  NLegs = 2\n  MaxDict = 256\n  EmitMod = %d\n  EmitRem = %d\n", emitMod, emitRem), 1)
	return mod, cfg
}

func parseVHist(out string) ([]vhist, error) {
	var hs []vhist
	for _, line := range strings.Split(out, "\n") {
		if !strings.HasPrefix(line, `<<"VHIST", "`) {
			continue
		}
		body := strings.TrimSuffix(strings.TrimPrefix(line, `<<"VHIST", `), ">>")
		var js string
		if err := json.Unmarshal([]byte(body), &js); err != nil {
			return nil, fmt.Errorf("cannot unquote VHIST line: %v", err)
		}
		var h vhist
		if err := json.Unmarshal([]byte(js), &h); err != nil {
			return nil, fmt.Errorf("cannot parse VHIST: %v: %.300s", err, js)
		}
		for _, raw := range h.Pred {
			m := map[string]predJ{}
			if len(raw) > 0 && raw[0] == '{' {
				if err := json.Unmarshal(raw, &m); err != nil {
					return nil, fmt.Errorf("cannot parse step prediction: %v: %.300s", err, raw)
				}
			}
			h.pred = append(h.pred, m)
		}
		hs = append(hs, h)
	}
	return hs, nil
}

func histKey(h *vhist) string {
	var ks []string
	for i := range h.Hist {
		ks = append(ks, h.Hist[i].Key())
	}
	return fmt.Sprintf("%d:%s", h.CC, strings.Join(ks, ";"))
}

func run(c *core.Ctx) error {
	h := &harness{c: c, feat: map[string]int{}}
	c.Trust("TLC 1.8; specs/LakeAbs.tla (abstract lake, bound to the real lake by C12-C15); the verif hooks meta.Lister.Pull.enter/object; the leg scheduler's quiescence detector; the sequential runtime as the reference of the differential comparison")
	c.Assume("5 values in 2 loads, histories of <= 4 (quick) / 5 (thorough) operations of {load, addvec, delvec, compact(+vectors), delete}; 7 column configurations over strings, ints, uints, floats, null(string), null(int64), untyped null, missing; 2 scatter legs with the two forced assignments all-to-one-leg and round-robin; vector compiler subset = the program list of vcompile.go")
	c.Rule("case = (column configuration, lake history, step, query, leg assignment) exported by TLC from VecAgg.tla and replayed on a real lake in a child process; non-trivial = the real plan of the query contains a dag.Vectorize at that step (every object has a vector copy); plus (program, value set) pairs run through compiler.VectorCompile and the sequential runtime")
	if c.Replay != "" {
		return h.replay()
	}
	maxOps, nhist, emitMod := 4, 48, 5
	if !c.Quick() {
		maxOps, nhist, emitMod = 5, 480, 7
	}
	mod, cfg := mcModule(maxOps, emitMod, int(c.Seed%int64(emitMod)+int64(emitMod))%emitMod)
	t0 := time.Now()
	res := c.MustHold(core.TLCRun{Module: "MC_VecAgg", Cfg: cfg, Files: map[string][]byte{"MC_VecAgg.tla": []byte(mod)}, Workers: 8, Timeout: 18 * time.Minute, HeapMB: 6000})
	if res == nil {
		return nil
	}
	hs, err := parseVHist(res.Out)
	if err != nil {
		return err
	}
	res.Out, res.Prints = "", nil
	c.Logf("TLC: %d states, VecAgrees and VectorsIrrelevant hold on untainted states; %d histories exported (%.1fs)", res.Distinct, len(hs), time.Since(t0).Seconds())
	if len(hs) == 0 {
		c.Inconclusive("TLC exported no history")
		return nil
	}
	// non-vacuity of the spec-level invariants: the rule fires in some exported
	// state without any named deviation (VecAgrees decided something there), and
	// with one (the deviations are reachable)
	nClean, nTaint := 0, 0
	for i := range hs {
		for _, p := range hs[i].pred {
			for _, q := range []string{"cbs", "sum", "fcbs"} {
				if pq, ok := p[q]; ok && pq.Vec {
					if len(pq.One.Taint) == 0 && len(pq.RR.Taint) == 0 {
						nClean++
					} else {
						nTaint++
					}
				}
			}
		}
	}
	c.Set("spec_states_vectorized_untainted", nClean)
	c.Set("spec_states_vectorized_tainted", nTaint)
	if nClean == 0 || nTaint == 0 {
		c.Inconclusive("vacuous model: %d exported (step, query) pairs vectorized without deviation, %d with", nClean, nTaint)
	}
	sort.Slice(hs, func(i, j int) bool { return histKey(&hs[i]) < histKey(&hs[j]) })
	c.Set("histories_exported", len(hs))
	// sample: stride with a seed-dependent offset, every configuration represented
	byCC := map[int][]*vhist{}
	for i := range hs {
		byCC[hs[i].CC] = append(byCC[hs[i].CC], &hs[i])
	}
	var picked []*vhist
	per := nhist / len(colConfigs)
	for cc := 1; cc <= len(colConfigs); cc++ {
		l := byCC[cc]
		if len(l) == 0 {
			c.Inconclusive("no history exported for column configuration %d", cc)
			continue
		}
		// histories with a successful compact(+vectors) or vector delete first, then
		// the rest, each class sampled by stride with a seed-dependent offset
		classes := [][]*vhist{nil, nil, nil}
		for _, vh := range l {
			cl := 2
			for _, st := range vh.Hist {
				if st.Res == "ok" && st.Op == "compact" && st.Vec {
					cl = 0
				} else if st.Res == "ok" && st.Op == "delvec" && cl > 1 {
					cl = 1
				}
			}
			classes[cl] = append(classes[cl], vh)
		}
		for ci, cl := range classes {
			want := per / 3
			if ci == 2 {
				want = per - 2*(per/3)
			}
			if len(cl) == 0 {
				continue
			}
			step := len(cl) / want
			if step < 1 {
				step = 1
			}
			off := int(c.Seed%int64(step)+int64(step)) % step
			for i := off; i < len(cl) && (i-off)/step < want; i += step {
				picked = append(picked, cl[i])
			}
		}
	}
	t0 = time.Now()
	// the sampled histories run in child processes, 60 per process (a process is
	// respawned after a crash with the crashed query on its skip list)
	for lo := 0; lo < len(picked); lo += 60 {
		hi := lo + 60
		if hi > len(picked) {
			hi = len(picked)
		}
		batch := jobJ{Kind: "batch"}
		for _, vh := range picked[lo:hi] {
			batch.Jobs = append(batch.Jobs, h.jobOf(vh))
		}
		results, ops, err := h.runChild(batch)
		if err != nil {
			return err
		}
		for i, vh := range picked[lo:hi] {
			pre := fmt.Sprintf("%d/", i)
			sub := map[string]evJ{}
			for k, v := range results {
				if strings.HasPrefix(k, pre) {
					sub[strings.TrimPrefix(k, pre)] = v
				}
			}
			var subops []evJ
			for _, o := range ops {
				if o.Job == i {
					subops = append(subops, o)
				}
			}
			h.judgeHist(vh, batch.Jobs[i], sub, subops)
		}
	}
	c.Set("histories_replayed", len(picked))
	c.Logf("replayed %d histories on the real lake (child processes): %d evaluations, %d violations, %d known (%.1fs)", len(picked), c.Count("evaluations"), c.Violations(), c.Count("known_finding_hits"), time.Since(t0).Seconds())
	if err := h.vcompile(); err != nil {
		return err
	}
	if err := h.vecops(); err != nil {
		return err
	}
	for _, k := range []string{"vectorized and agrees", "vectorized step", "not vectorized (missing vector)", "forced assignment observed", "compact with vectors", "vector delete"} {
		if h.feat[k] == 0 {
			c.Inconclusive("vacuous run: no replayed case with feature %q", k)
		}
	}
	c.Set("features", h.feat)
	return nil
}

// runChild runs one job in child processes, respawning after a crash with the
// crashed query on the skip list.  It returns the events by key.
func (h *harness) runChild(job jobJ) (map[string]evJ, []evJ, error) {
	results := map[string]evJ{}
	var ops []evJ
	exe, err := os.Executable()
	if err != nil {
		return nil, nil, err
	}
	for attempt := 0; attempt < 40; attempt++ {
		in, _ := json.Marshal(job)
		cmd := exec.Command(exe)
		cmd.Env = append(os.Environ(), "VERIF_C09_CHILD=1")
		cmd.Stdin = bytes.NewReader(in)
		var stderr bytes.Buffer
		cmd.Stderr = &stderr
		stdout, err := cmd.StdoutPipe()
		if err != nil {
			return nil, nil, err
		}
		if err := cmd.Start(); err != nil {
			return nil, nil, err
		}
		timer := time.AfterFunc(10*time.Minute, func() { cmd.Process.Kill() })
		sc := bufio.NewScanner(stdout)
		sc.Buffer(make([]byte, 1<<20), 1<<24)
		pending, done := "", false
		for sc.Scan() {
			var ev evJ
			if json.Unmarshal(sc.Bytes(), &ev) != nil {
				continue
			}
			switch ev.Ev {
			case "begin":
				pending = ev.Key
			case "res":
				results[ev.Key] = ev
				pending = ""
			case "op":
				dup := false
				for _, o := range ops {
					if o.Job == ev.Job && o.Step == ev.Step {
						dup = true
					}
				}
				if !dup {
					ops = append(ops, ev)
				}
			case "done":
				done = true
			case "fatal":
				timer.Stop()
				cmd.Wait()
				return nil, nil, fmt.Errorf("child: %s", ev.Msg)
			}
		}
		cmd.Wait()
		timer.Stop()
		if done {
			return results, ops, nil
		}
		if pending == "" {
			return nil, nil, fmt.Errorf("child died outside a query: %.500s", stderr.String())
		}
		// the query killed the process
		msg := stderr.String()
		if i := strings.Index(msg, "\n"); i > 0 {
			msg = msg[:i]
		}
		results[pending] = evJ{Ev: "res", Key: pending, Err: "CRASH " + msg, Res: "crash"}
		job.Skip = append(job.Skip, pending)
		// already obtained results need not be recomputed
		for k := range results {
			if k != pending {
				found := false
				for _, s := range job.Skip {
					if s == k {
						found = true
					}
				}
				if !found {
					job.Skip = append(job.Skip, k)
				}
			}
		}
	}
	return nil, nil, fmt.Errorf("child keeps crashing")
}

type witness struct {
	Config  string   `json:"config"`
	Values  []string `json:"values"`
	Batches [][]int  `json:"batches"`
	Steps   []opJ    `json:"steps"`
	Step    int      `json:"step"`
	Query   string   `json:"query"`
	Mode    string   `json:"mode"`
	Legs    [][]int  `json:"legs_objects,omitempty"`
	Seq     []string `json:"parallelism1"`
	Vec     []string `json:"parallelism2"`
	Err     string   `json:"error,omitempty"`
	Tags    []string `json:"spec_deviations,omitempty"`
	Program string   `json:"program,omitempty"`
}

func (h *harness) jobOf(vh *vhist) jobJ {
	cfgc := colConfigs[vh.CC-1]
	job := jobJ{Kind: "hist", Batches: batches, Queries: []string{"cbs", "sum", "fcbs", "cbk", "sumby"}, Legs: 2}
	for i := range cfgc.S {
		job.Values = append(job.Values, valueZSON(i+1, cfgc.S[i], cfgc.X[i]))
	}
	for _, st := range vh.Hist {
		job.Steps = append(job.Steps, opJ{Op: st.Op, Batch: st.Batch, Obj: st.Obj, Objs: st.Objs, Vec: st.Vec, NewIds: st.NewIds, Res: st.Res})
	}
	// query after the last step and after every step at which the rule fires
	for i, p := range vh.pred {
		if i == len(vh.pred)-1 || p["cbs"].Vec {
			job.At = append(job.At, i+1)
		}
	}
	return job
}

func sameAsg(a, b [][]int) bool {
	trim := func(x [][]int) [][]int {
		for len(x) > 0 && len(x[len(x)-1]) == 0 {
			x = x[:len(x)-1]
		}
		return x
	}
	a, b = trim(a), trim(b)
	if len(a) != len(b) {
		return false
	}
	for i := range a {
		if len(a[i]) != len(b[i]) {
			return false
		}
		for j := range a[i] {
			if a[i][j] != b[i][j] {
				return false
			}
		}
	}
	return true
}

func (h *harness) judgeHist(vh *vhist, job jobJ, results map[string]evJ, ops []evJ) {
	c := h.c
	cfgName := colConfigs[vh.CC-1].Name
	for i, st := range vh.Hist {
		if i < len(ops) && ops[i].Res != st.Res {
			c.Drift("lake: step %d (%s) of %s: model %s, real %s (%s)", i+1, st.Op, vh.Hist.String(), st.Res, ops[i].Res, ops[i].Msg)
		}
		if st.Op == "compact" && st.Vec && st.Res == "ok" {
			h.feat["compact with vectors"]++
		}
		if st.Op == "delvec" && st.Res == "ok" {
			h.feat["vector delete"]++
		}
		pred := vh.pred[i]
		if len(pred) == 0 {
			continue
		}
		for _, q := range []string{"cbs", "sum", "fcbs", "cbk"} {
			p, ok := pred[q]
			if !ok {
				continue
			}
			seq, ok := results[fmt.Sprintf("%d|%s|seq", i+1, q)]
			if !ok {
				continue
			}
			keyField := "s"
			if q == "cbk" {
				keyField = "k"
			}
			seqC := canonReal(seq.Rows, seq.Err, seq.Res == "crash")
			if seq.Err != "" {
				c.Inconclusive("sequential reference failed: %s step %d of %s: %s", queryText[q], i+1, vh.Hist.String(), seq.Err)
				continue
			}
			// binding: sequential semantics of the spec
			if p.Seq.Kind == "rows" || p.Seq.Kind == "val" {
				if want := p.Seq.canon(keyField); !eqStrs(want, seqC) {
					c.Drift("sequential semantics: `%s` over config %s after %s: spec %v real %v", queryText[q], cfgName, prefix(vh, i), want, seqC)
				}
			}
			for _, mode := range []string{"one", "rr"} {
				r, ok := results[fmt.Sprintf("%d|%s|%s", i+1, q, mode)]
				if !ok {
					continue
				}
				ap := p.One
				if mode == "rr" {
					ap = p.RR
				}
				realC := canonReal(r.Rows, r.Err, r.Res == "crash")
				if r.Vec != p.Vec {
					c.Drift("planner rule: `%s` after %s: spec vectorized=%v real plan vectorized=%v", queryText[q], prefix(vh, i), p.Vec, r.Vec)
				}
				forced := sameAsg(r.Trace, ap.Asg) || q == "cbk" || !r.Vec
				if forced {
					h.feat["forced assignment observed"]++
				}
				if r.Vec {
					h.feat["vectorized step"]++
				} else {
					h.feat["not vectorized (missing vector)"]++
				}
				c.Eval(fmt.Sprintf("%s|%s|%d|%s|%s", cfgName, prefix(vh, i), i+1, q, mode), r.Vec)
				// the property: same values as the sequential runtime, no failure
				if !eqStrs(realC, seqC) {
					tag := firstTag(ap.Taint)
					sig := tag
					if !r.Vec {
						sig = "unexplained-sequential-legs:" + q
					} else if tag == "" {
						sig = "unexplained:" + q
					}
					w := witness{Config: cfgName, Values: job.Values, Batches: batches, Steps: job.Steps[:i+1], Step: i + 1, Query: queryText[q], Mode: mode,
						Legs: r.Trace, Seq: seq.Rows, Vec: r.Rows, Err: r.Err, Tags: ap.Taint}
					what := fmt.Sprintf("`%s` at parallelism 2 (legs on the vector runtime: %v) returns %v, the sequential runtime %v (config %s, after %s, objects per leg %v)", queryText[q], r.Vec, clip(realC), clip(seqC), cfgName, prefix(vh, i), r.Trace)
					if r.Err != "" {
						what = fmt.Sprintf("`%s` at parallelism 2 (legs on the vector runtime: %v) fails: %s; the sequential runtime returns %v (config %s, after %s)", queryText[q], r.Vec, r.Err, clip(seqC), cfgName, prefix(vh, i))
					}
					c.Violate(sig, what, w)
				} else if r.Vec {
					h.feat["vectorized and agrees"]++
				}
				// binding: the as-coded prediction for the forced assignment
				if forced && (ap.Res.Kind == "rows" || ap.Res.Kind == "val" || ap.Res.Kind == "err") {
					want := ap.Res.canon(keyField)
					if os.Getenv("VERIF_C09_CORRUPT") == "pred" && len(want) > 0 && i == 1 && q == "sum" {
						want[0] = "77"
					}
					c.Add("traces_validated_against_impl", 1)
					if !eqStrs(want, realC) {
						c.Drift("as-coded vector semantics: `%s` config %s after %s legs %v: spec %v real %v (spec deviations %v)", queryText[q], cfgName, prefix(vh, i), r.Trace, want, realC, ap.Taint)
					}
				}
			}
		}
		// sum(x) by s is never vectorized; vector copies must not matter
		if seq, ok := results[fmt.Sprintf("%d|sumby|seq", i+1)]; ok {
			if r, ok := results[fmt.Sprintf("%d|sumby|free", i+1)]; ok {
				a, b := canonReal(seq.Rows, seq.Err, false), canonReal(r.Rows, r.Err, r.Res == "crash")
				c.Eval(fmt.Sprintf("%s|%s|%d|sumby", cfgName, prefix(vh, i), i+1), false)
				if r.Vec {
					c.Drift("planner rule: `%s` was vectorized", queryText["sumby"])
				}
				if !eqStrs(a, b) {
					c.Violate("unexplained:sumby", fmt.Sprintf("`%s` returns %v at parallelism 2 and %v at parallelism 1 (config %s, after %s)", queryText["sumby"], clip(b), clip(a), cfgName, prefix(vh, i)),
						witness{Config: cfgName, Values: job.Values, Batches: batches, Steps: job.Steps[:i+1], Step: i + 1, Query: queryText["sumby"], Mode: "free", Seq: seq.Rows, Vec: r.Rows, Err: r.Err})
				}
			}
		}
	}
	if h.feat["sampled"] < 6 {
		h.feat["sampled"]++
		c.Sample(map[string]any{"config": cfgName, "history": vh.Hist.String(), "values": job.Values, "last_step_results": lastStep(results, len(vh.Hist))})
	}
}

func lastStep(results map[string]evJ, n int) map[string]any {
	out := map[string]any{}
	for k, v := range results {
		if strings.HasPrefix(k, fmt.Sprintf("%d|", n)) {
			out[k] = map[string]any{"rows": v.Rows, "err": v.Err, "vectorized": v.Vec, "legs": v.Trace}
		}
	}
	return out
}

func prefix(vh *vhist, i int) string { return vh.Hist[:i+1].String() }

func clip(rows []string) string {
	s := strings.Join(rows, " ")
	if len(s) > 300 {
		s = s[:300] + "..."
	}
	return "[" + s + "]"
}

func (h *harness) replay() error {
	c := h.c
	var w witness
	sig, err := c.ReplayWitness(&w)
	if err != nil {
		return err
	}
	if w.Program != "" {
		return h.replayVC(sig, w)
	}
	job := jobJ{Kind: "hist", Values: w.Values, Batches: w.Batches, Steps: w.Steps, Legs: 2}
	for q, t := range queryText {
		if t == w.Query {
			job.Queries = []string{q}
		}
	}
	results, _, err := h.runChild(job)
	if err != nil {
		return err
	}
	q := job.Queries[0]
	seq := results[fmt.Sprintf("%d|%s|seq", w.Step, q)]
	r := results[fmt.Sprintf("%d|%s|%s", w.Step, q, w.Mode)]
	a, b := canonReal(seq.Rows, seq.Err, false), canonReal(r.Rows, r.Err, r.Res == "crash")
	fmt.Printf("parallelism 1: %v\nparallelism 2 (%s, vectorized=%v, legs %v): %v %s\n", a, w.Mode, r.Vec, r.Trace, b, r.Err)
	if !eqStrs(a, b) {
		c.Violate(sig, "replayed", w)
	}
	return nil
}
