package main

import (
	"bytes"
	"context"
	"fmt"
	"io"
	"strings"
	"sync"

	zed "github.com/brimdata/super"
	"github.com/brimdata/super/compiler/optimizer/demand"
	"github.com/brimdata/super/lake/data"
	"github.com/brimdata/super/lake/pools"
	"github.com/brimdata/super/order"
	"github.com/brimdata/super/pkg/field"
	"github.com/brimdata/super/pkg/nano"
	"github.com/brimdata/super/pkg/storage"
	"github.com/brimdata/super/zio/anyio"
	"github.com/brimdata/super/zio/emitter"
	"github.com/brimdata/super/zio/jsonio"
	"github.com/brimdata/super/zio/zngio"
	"github.com/brimdata/super/zio/zsonio"
	"github.com/brimdata/super/zson"
	"github.com/segmentio/ksuid"
)

type writer interface {
	Write(zed.Value) error
	Close() error
}

// target is one writer reachable through the output layer.
type target struct {
	Name   string // unique
	Format string // anyio format name ("dataobj" for the lake data-object writer)
	Layer  string // direct | bufwriter | dataobj
	// Latch: a sticky-error buffer (bufio.Writer semantics: after a failed
	// sink write it keeps the error and never writes again) sits directly above the sink.
	Latch  bool
	NSinks int
	opts   anyio.WriterOpts
	vals   map[string]string // value class -> ZSON text ("" = class not supported)

	mu     sync.Mutex
	zctx   *zed.Context
	parsed map[string]zed.Value
}

// putEngine is a storage.Engine whose Put hands out the plan's sinks.
type putEngine struct {
	storage.Engine
	p *plan
}

func (e *putEngine) Put(context.Context, *storage.URI) (io.WriteCloser, error) {
	return e.p.newSink(), nil
}

type dataObjWriter struct {
	w *data.Writer
}

func (d dataObjWriter) Write(v zed.Value) error { return d.w.Write(v) }
func (d dataObjWriter) Close() error            { return d.w.Close(context.Background()) }

func (t *target) open(p *plan) (writer, error) {
	ctx := context.Background()
	switch t.Layer {
	case "direct":
		return anyio.NewWriter(p.newSink(), t.opts)
	case "bufwriter":
		// The path taken by `super query -o file`: emitter.NewFileFromURI puts a
		// bufwriter between the format writer and the storage engine's writer.
		return emitter.NewFileFromURI(ctx, &putEngine{p: p}, storage.MustParseURI("mem://out/file"), false, t.opts)
	case "vector":
		return data.NewVectorWriter(ctx, &putEngine{p: p}, storage.MustParseURI("mem://lake/pool"), fixedID)
	case "dataobj":
		o := data.NewObject()
		o.ID = fixedID
		w, err := o.NewWriter(ctx, &putEngine{p: p}, storage.MustParseURI("mem://lake/pool"),
			order.NewSortKey(order.Asc, field.Path{"x"}), 1)
		if err != nil {
			return nil, err
		}
		return dataObjWriter{w}, nil
	}
	return nil, fmt.Errorf("unknown layer %q", t.Layer)
}

var fixedID = ksuid.KSUID{1, 2, 3, 4, 5, 6, 7, 8, 9, 10, 11, 12, 13, 14, 15, 16, 17, 18, 19, 20}

const largeLen = 5000 // > bufio's 4096-byte default buffer

// noise returns n deterministic, incompressible lower-case letters.
func noise(n int) string {
	b := make([]byte, n)
	x := uint64(88172645463325252)
	for i := range b {
		x ^= x << 13
		x ^= x >> 7
		x ^= x << 17
		b[i] = 'a' + byte(x%26)
	}
	return string(b)
}

// richVals returns two values of one record type whose columns make the
// writers take their multi-write paths: columns that mix nulls with several
// distinct non-null values (VNG: values vector + null-runs vector, dictionary
// encoding), a constant column (VNG const), a column with more distinct values
// than a dictionary holds (VNG plain), 8-bit and bool columns (never
// dictionary encoded), unions, maps, sets, errors, type values and nested
// records/arrays with nulls at every level.  (No null of union type:
// zed.Value.Under loops forever on one, which hangs the JSON writer; no
// infinite float: jsonio panics on it.)
func richVals() (string, string) {
	var many, many2 []string
	for i := 0; i < 300; i++ {
		many = append(many, fmt.Sprint(i*7))
		many2 = append(many2, fmt.Sprint(i*11+1))
	}
	tmpl := `{x:%s,a:[%s],c:[7,7,7],p:[%s],b:[true,null,false,true],y:[1(uint8),null,3(uint8)],` +
		`u:[1,"x",2.5,"y",2],m:|{"k":1,"j":null,"l":%s}|,` +
		`r:{f:null(int64),g:["a",null,"b",%s],h:{i:null(string),j:[[1,null],null,[2,3]]}},` +
		`s:|[1,2,3]|,e:error("boom"),t:<{a:int64}>,z:[null(string),"p","q","p"],f:[1.5,null,-0.,1e300]}`
	n := fmt.Sprintf(tmpl, "4", "1,null,2,2,null,3", strings.Join(many, ","), "2", `"a"`)
	o := fmt.Sprintf(tmpl, "null(int64)", "null,5,6,null,null,7", strings.Join(many2, ","), "null", `null`)
	return n, o
}

// genericVals maps the value classes of SinkWriter.tla (Classes) to ZSON.
func genericVals() map[string]string {
	n, o := richVals()
	return map[string]string{
		"s": `{x:1,s:"foo"}`,
		"t": `{y:1.5,z:[1,2]}`,
		"u": `{x:7}`,
		"L": `{x:2,s:"` + noise(largeLen) + `"}`,
		"R": `{x:3,s:"` + strings.Repeat("abcdefghij", largeLen/10) + `"}`,
		"n": n,
		"o": o,
	}
}

func lakeVals() map[string]string {
	cfg := &pools.Config{Ts: nano.Ts(1e18), Name: "p", ID: fixedID,
		SortKeys: order.SortKeys{order.NewSortKey(order.Asc, field.Path{"k"})}, SeekStride: 1, Threshold: 2}
	obj := data.Object{ID: fixedID, Min: zed.NewInt64(1), Max: zed.NewInt64(9), Count: 3, Size: 77}
	m := zson.NewZNGMarshaler()
	m.Decorate(zson.StylePackage)
	out := genericVals()
	for class, v := range map[string]any{"s": cfg, "t": obj} {
		val, err := m.Marshal(v)
		if err != nil {
			panic(err)
		}
		out[class] = zson.FormatValue(val)
	}
	return out
}

func targets() []*target {
	var out []*target
	add := func(name, format string, latch bool, opts anyio.WriterOpts, vals map[string]string) {
		opts.Format = format
		out = append(out, &target{Name: name, Format: format, Layer: "direct", Latch: latch, NSinks: 1, opts: opts, vals: vals})
		out = append(out, &target{Name: name + "+buf", Format: format, Layer: "bufwriter", Latch: true, NSinks: 1, opts: opts, vals: vals})
	}
	g := genericVals()
	add("zng", "zng", false, anyio.WriterOpts{}, g)
	add("zng-t1", "zng", false, anyio.WriterOpts{ZNG: &zngio.WriterOpts{FrameThresh: 1}}, g)
	add("zng-lz4-t64", "zng", false, anyio.WriterOpts{ZNG: &zngio.WriterOpts{Compress: true, FrameThresh: 64}}, g)
	add("zson", "zson", false, anyio.WriterOpts{}, g)
	add("zson-pretty", "zson", false, anyio.WriterOpts{ZSON: zsonio.WriterOpts{Pretty: 4}}, g)
	add("zjson", "zjson", false, anyio.WriterOpts{}, g)
	add("json", "json", true, anyio.WriterOpts{}, g)
	add("json-pretty", "json", true, anyio.WriterOpts{JSON: jsonio.WriterOpts{Pretty: 2}}, g)
	csv := genericVals()
	csv["t"] = `{x:"q",s:2}` // csv needs equal field names
	csv["n"] = `{x:null(int64),s:"a,b \"q\"\nsecond line"}`
	csv["o"] = `{x:[1,null,2],s:null(string)}`
	add("csv", "csv", true, anyio.WriterOpts{}, csv)
	add("tsv", "tsv", true, anyio.WriterOpts{}, csv)
	zeek := genericVals()
	zeek["t"] = `{y:1.5,z:"k"}`
	zeek["n"] = `{x:null(int64),s:"foo",v:[1,null,3],w:|[1,2]|,r:{a:null(string),b:1.5}}`
	zeek["o"] = `{x:9,s:null(string),v:null([int64]),w:|[3]|,r:{a:"q",b:null(float64)}}`
	add("zeek", "zeek", false, anyio.WriterOpts{}, zeek)
	add("table", "table", false, anyio.WriterOpts{}, zeek)
	add("text", "text", false, anyio.WriterOpts{}, g)
	add("vng", "vng", false, anyio.WriterOpts{}, g)
	add("lake", "lake", false, anyio.WriterOpts{}, lakeVals())
	out = append(out, &target{Name: "dataobj", Format: "dataobj", Layer: "dataobj", Latch: true, NSinks: 2, vals: g})
	// The lake's vector (VNG) object writer: vngio over a bufwriter over storage.Engine.Put.
	out = append(out, &target{Name: "vector", Format: "vng", Layer: "vector", Latch: true, NSinks: 1, vals: g})
	return out
}

// readBack parses the no-fault bytes with the matching reader and returns the
// values in ZSON ("" reader = no reader exists for the format).
func readBack(format string, b []byte) (vals []string, hasReader bool, err error) {
	switch format {
	case "table", "text", "lake":
		return nil, false, nil
	case "dataobj":
		format = "zng"
	}
	zr, err := anyio.NewReaderWithOpts(zed.NewContext(), bytes.NewReader(b), demand.All(), anyio.ReaderOpts{Format: format})
	if err != nil {
		return nil, true, err
	}
	defer zr.Close()
	for {
		v, err := zr.Read()
		if err != nil {
			return vals, true, err
		}
		if v == nil {
			return vals, true, nil
		}
		vals = append(vals, zson.FormatValue(*v))
	}
}

// lossless formats reproduce the written values exactly.
func lossless(format string) bool {
	switch format {
	case "zng", "zson", "zjson", "vng", "dataobj":
		return true
	}
	return false
}
