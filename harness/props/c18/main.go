// C18 -- a failed write to the output is always reported.
//
// Structure of the check (see run):
//
//  1. TLC checks SinkWriter.tla exhaustively for small bounds: the local
//     error-handling rules L1-L4 of a layered writer imply the end-to-end
//     property for every chunking, flush point and fault; two expected-
//     violation runs show that dropping L1 or L3 (the defect disjuncts) loses
//     it.  The same run exports the value scripts.
//  2. Fault enumeration on the real code: for every writer reachable through
//     anyio.NewWriter (directly over the sink and through emitter's
//     bufwriter) and for data.Object.NewWriter, for every script, a dry run
//     counts the sink write calls n; then for every k <= n and every mode
//     (one-shot, sticky, short) the script is re-run over a sink whose k-th
//     write call fails.  Oracle: a failed sink call must be reported by some
//     Write or by Close.  The no-fault bytes are read back with the format's
//     reader.
//  3. Every recorded event trace (API call/return, sink write/close) is
//     validated by TLC against SinkWriterTrace.tla, which re-derives the sink
//     outcomes from the fault model, checks byte conservation against the
//     reference stream and evaluates the property on the reached state; the
//     verdict of the specification is compared with the Go oracle.
//  4. Negative controls: corrupted traces must be rejected / judged violating.
package main

import (
	"bytes"
	"encoding/json"
	"fmt"
	"math/rand"
	"os"
	"regexp"
	"sort"
	"strconv"
	"strings"
	"sync"
	"time"

	zed "github.com/brimdata/super"
	"github.com/brimdata/super/zbuf"
	"github.com/brimdata/super/zio"
	"github.com/brimdata/super/zson"

	"verif/core"
)

// runResult is one execution of a value script on a real writer over the
// faulty sinks.
type runResult struct {
	Events   []Event
	Failed   bool // some sink write call failed
	Reported bool // some Write or Close returned an error
	FailOp   string
	FailSite string
	Calls    int // sink write calls
	Sinks    [][]byte
	Closed   []int
	Panic    string
	Writes   int // Write calls issued
	// the copy loop that drove the Write calls, and whether it honoured its contract
	Loop          string
	LoopSwallowed bool // a Write returned an error but the loop returned nil
	LoopContinued int  // Write calls issued after a Write had returned an error
}

// parseVals instantiates a script for a target.  Parsed values are cached per
// target (they are immutable and writers must not retain them).
func parseVals(t *target, script []string) ([]zed.Value, error) {
	t.mu.Lock()
	defer t.mu.Unlock()
	if t.parsed == nil {
		t.parsed = map[string]zed.Value{}
		t.zctx = zed.NewContext()
	}
	var vals []zed.Value
	for _, class := range script {
		v, ok := t.parsed[class]
		if !ok {
			text := t.vals[class]
			if text == "" {
				return nil, fmt.Errorf("class %s unsupported", class)
			}
			var err error
			v, err = zson.ParseValue(t.zctx, text)
			if err != nil {
				return nil, fmt.Errorf("parse %.40s: %w", text, err)
			}
			t.parsed[class] = v
		}
		vals = append(vals, v)
	}
	return vals, nil
}

// shim records the Write calls that the repository's copy loop issues and
// what each returned to the loop.
type shim struct {
	w          writer
	p          *plan
	res        *runResult
	sawErr     bool
	afterError int // Write calls issued by the loop after a Write had failed
}

func (s *shim) Write(v zed.Value) error {
	if s.sawErr {
		s.afterError++
	}
	s.p.curOp = "Write"
	s.p.events = append(s.p.events, Event{E: "call", Op: "Write"})
	s.res.Writes++
	err := s.w.Write(v)
	s.p.events = append(s.p.events, Event{E: "ret", Op: "Write", Err: err != nil})
	if err != nil {
		s.sawErr = true
	}
	return err
}

// execute drives the real writer the way the repository does: the values are
// copied to it by one of the real copy loops (zio.Copy or zbuf.CopyPuller,
// which must stop at the first error), then Close is called.
func execute(t *target, script []string, k int, mode string, ref [][]byte) (*runResult, error) {
	type out struct {
		res *runResult
		err error
	}
	ch := make(chan out, 1)
	go func() {
		res, err := execute1(t, script, k, mode, ref)
		ch <- out{res, err}
	}()
	select {
	case o := <-ch:
		return o.res, o.err
	case <-time.After(60 * time.Second):
		// A writer that hangs is not this property's subject; give up on the case.
		return nil, fmt.Errorf("writer %s did not return within 60s on script %v (k=%d %s)", t.Name, script, k, mode)
	}
}

func execute1(t *target, script []string, k int, mode string, ref [][]byte) (res *runResult, err error) {
	vals, err := parseVals(t, script)
	if err != nil {
		return nil, err
	}
	p := newPlan(k, mode, ref)
	res = &runResult{}
	defer func() {
		if r := recover(); r != nil {
			res.Panic = fmt.Sprint(r)
			finish(res, p)
		}
	}()
	w, err := t.open(p)
	if err != nil {
		return nil, err
	}
	sh := &shim{w: w, p: p, res: res}
	var loopErr error
	res.Loop = "zio.Copy"
	if (k+len(script))%2 == 1 {
		res.Loop = "zbuf.CopyPuller"
		loopErr = zbuf.CopyPuller(sh, zbuf.NewPuller(zbuf.NewArray(vals)))
	} else {
		loopErr = zio.Copy(sh, zbuf.NewArray(vals))
	}
	res.LoopSwallowed = sh.sawErr && loopErr == nil
	res.LoopContinued = sh.afterError
	if loopErr != nil {
		res.Reported = true
	}
	p.curOp = "Close"
	p.events = append(p.events, Event{E: "call", Op: "Close"})
	cerr := w.Close()
	p.events = append(p.events, Event{E: "ret", Op: "Close", Err: cerr != nil})
	if cerr != nil {
		res.Reported = true
	}
	finish(res, p)
	return res, nil
}

func finish(res *runResult, p *plan) {
	res.Events = p.events
	res.Failed = p.failed
	res.FailOp = p.failOp
	res.FailSite = p.failSite
	res.Calls = p.calls
	for _, s := range p.sinks {
		res.Sinks = append(res.Sinks, s.data)
		res.Closed = append(res.Closed, s.closed)
	}
}

func compact(evs []Event) string {
	var b strings.Builder
	for _, e := range evs {
		switch e.E {
		case "call":
			fmt.Fprintf(&b, " %s(", e.Op)
		case "ret":
			if e.Err {
				b.WriteString(")=ERR")
			} else {
				b.WriteString(")=nil")
			}
		case "sink":
			fmt.Fprintf(&b, " w%d[%d+%d->%d", e.S, e.Off, e.Len, e.N)
			if e.Err {
				b.WriteString("!")
			}
			b.WriteString("]")
		case "sclose":
			fmt.Fprintf(&b, " close%d", e.S)
		}
	}
	return strings.TrimSpace(b.String())
}

// Known defect disjuncts of SinkWriter.tla that are enabled in the profile of
// a writer (DESIGN 2.4).  They only decide whether a broken local rule is
// booked as `taint` or as `broken` by the specification; the verdict on the
// property and the known-findings protocol do not depend on them.
//
//	F-C18-1 zngio.Writer.flush returns nil when writeBlock fails        -> L1
//	F-C18-2 csvio.Writer.Close ignores the csv.Writer's deferred error  -> L3
//	F-C18-3/4 tableio.Writer.Write ignores flush/header write errors    -> L1
// (all four were repaired by fix: commits 9616228f1, 2798b3726, d01e07394; the table is empty now)
var defectsOf = map[string][]string{}

type witness struct {
	Target string   `json:"target"`
	Script []string `json:"script"`
	K      int      `json:"k"`
	Mode   string   `json:"mode"`
	Trace  string   `json:"trace,omitempty"`
}

// traceRec is one recorded execution together with the Go oracle's verdict.
type traceRec struct {
	id       int
	t        *target
	w        witness
	tot      []int
	events   []Event
	failed   bool
	reported bool
	site     string
	loopBad  bool // the copy loop broke its contract: the caller's view differs from the Write returns
}

type checker struct {
	c       *core.Ctx
	traces  []*traceRec
	byName  map[string]*target
	refs    map[string][][]byte // "<direct target name>|<script>" -> no-fault bytes
	skipped int
}

func scriptKey(s []string) string { return strings.Join(s, "") }

func (ck *checker) record(t *target, w witness, tot []int, r *runResult) *traceRec {
	tr := &traceRec{id: len(ck.traces) + 1, t: t, w: w, tot: tot, events: r.Events,
		failed: r.Failed, reported: r.Reported, site: r.FailSite, loopBad: r.LoopSwallowed || r.LoopContinued > 0}
	ck.traces = append(ck.traces, tr)
	return tr
}

func signature(t *target, site string) string {
	return fmt.Sprintf("sink-error-unreported:%s:%s:%s", t.Format, t.Layer, site)
}

// faultOracle is the property's first clause on one real execution.
func (ck *checker) faultOracle(t *target, w witness, r *runResult) {
	c := ck.c
	if r.Panic != "" {
		c.Inconclusive("writer %s panicked on script %v k=%d %s: %s", t.Name, w.Script, w.K, w.Mode, r.Panic)
		return
	}
	if r.LoopSwallowed || r.LoopContinued > 0 {
		w.Trace = compact(r.Events)
		c.Violate("copy-loop-ignores-writer-error:"+r.Loop,
			fmt.Sprintf("%s does not stop at the first writer error (error dropped: %v, Write calls after the error: %d): %s",
				r.Loop, r.LoopSwallowed, r.LoopContinued, w.Trace), w)
	}
	if r.Failed && !r.Reported {
		w.Trace = compact(r.Events)
		c.Violate(signature(t, r.FailSite),
			fmt.Sprintf("%s writer (%s): sink write call %d failed (%s, inside %s at %s) but every Write and Close returned nil: %s",
				t.Format, t.Name, w.K, w.Mode, r.FailOp, r.FailSite, w.Trace), w)
	}
}

// noFaultOracle is the property's second clause: the bytes delivered to the
// sink are exactly the bytes of a complete, readable stream.
func (ck *checker) noFaultOracle(t *target, script []string, r *runResult, ref [][]byte) {
	c := ck.c
	w := witness{Target: t.Name, Script: script, Mode: ModeNone}
	if r.Reported || r.Failed {
		return
	}
	for i, n := range r.Closed {
		if n != 1 {
			c.Drift("%s %v: sink %d closed %d times", t.Name, script, i+1, n)
		}
	}
	for i := range r.Sinks {
		if i < len(ref) && !bytes.Equal(r.Sinks[i], ref[i]) {
			c.Violate(fmt.Sprintf("no-fault-stream-differs:%s:%s", t.Format, t.Layer),
				fmt.Sprintf("%s (%s): the bytes delivered to sink %d (%d bytes) differ from the stream the same values produce when written directly (%d bytes)",
					t.Format, t.Name, i+1, len(r.Sinks[i]), len(ref[i])), w)
			return
		}
	}
	if len(script) == 0 && len(r.Sinks[0]) == 0 {
		return // the empty stream (csvio's reader refuses an empty file by design)
	}
	vals, _ := parseVals(t, script)
	got, hasReader, err := readBack(t.Format, r.Sinks[0])
	if !hasReader {
		// No reader exists (table, text, lake): a complete stream ends with a newline.
		b := r.Sinks[0]
		if len(script) > 0 && (len(b) == 0 || b[len(b)-1] != '\n') {
			c.Violate(fmt.Sprintf("no-fault-stream-incomplete:%s:%s", t.Format, t.Layer),
				fmt.Sprintf("%s (%s): %d values written without error but the sink holds %d bytes not ending in a newline", t.Format, t.Name, len(script), len(b)), w)
		}
		return
	}
	if err != nil {
		c.Violate(fmt.Sprintf("no-fault-stream-unreadable:%s:%s", t.Format, t.Layer),
			fmt.Sprintf("%s (%s): %d values written without error but reading the %d sink bytes back fails: %v", t.Format, t.Name, len(script), len(r.Sinks[0]), err), w)
		return
	}
	if len(got) != len(vals) {
		c.Violate(fmt.Sprintf("no-fault-stream-incomplete:%s:%s", t.Format, t.Layer),
			fmt.Sprintf("%s (%s): %d values written without error but %d read back", t.Format, t.Name, len(vals), len(got)), w)
		return
	}
	if lossless(t.Format) {
		for i, v := range vals {
			if want := zson.FormatValue(v); got[i] != want {
				c.Violate(fmt.Sprintf("no-fault-stream-differs:%s:%s", t.Format, t.Layer),
					fmt.Sprintf("%s (%s): value %d reads back as %.80s, written %.80s", t.Format, t.Name, i, got[i], want), w)
				return
			}
		}
	}
	if t.Format == "dataobj" && len(r.Sinks) > 1 {
		if _, _, err := readBack("zng", r.Sinks[1]); err != nil {
			c.Violate("no-fault-stream-unreadable:dataobj:seekindex", fmt.Sprintf("seek index unreadable: %v", err), w)
		}
	}
}

var modes = []string{ModeOneShot, ModeSticky, ModeShort}

func pad2(a []int) []int {
	for len(a) < 2 {
		a = append(a, 0)
	}
	return a
}

// enumerate runs one (target, script) pair: dry runs, no-fault oracle, and
// every fault position and mode.
func (ck *checker) enumerate(t *target, script []string) error {
	c := ck.c
	dry, err := execute(t, script, 0, ModeNone, nil)
	if err != nil {
		return err
	}
	if dry.Reported || dry.Panic != "" {
		// The format refuses this script without any sink fault (e.g. CSV and
		// a second record type): not a case of this property.
		ck.skipped++
		return nil
	}
	dry2, err := execute(t, script, 0, ModeNone, nil)
	if err != nil {
		return err
	}
	for i := range dry.Sinks {
		if !bytes.Equal(dry.Sinks[i], dry2.Sinks[i]) {
			c.Note(fmt.Sprintf("%s %v: output differs between two fault-free runs; skipped", t.Name, script))
			ck.skipped++
			return nil
		}
	}
	// Reference stream: for a layered target the bytes its format produces
	// when written directly (so that draining the buffer is really checked).
	ref := dry.Sinks
	key := strings.TrimSuffix(t.Name, "+buf") + "|" + scriptKey(script)
	if t.Layer == "direct" {
		ck.refs[key] = dry.Sinks
	} else if r, ok := ck.refs[key]; ok {
		ref = r
	}
	var tot []int
	for _, b := range ref {
		tot = append(tot, len(b))
	}
	tot = pad2(tot)
	nf, err := execute(t, script, 0, ModeNone, ref)
	if err != nil {
		return err
	}
	ck.record(t, witness{Target: t.Name, Script: script, Mode: ModeNone}, tot, nf)
	ck.noFaultOracle(t, script, nf, ref)
	c.Eval(fmt.Sprintf("%s|%s|0|none", t.Name, scriptKey(script)), len(script) > 0)
	for k := 1; k <= nf.Calls; k++ {
		for _, mode := range modes {
			r, err := execute(t, script, k, mode, ref)
			if err != nil {
				return err
			}
			w := witness{Target: t.Name, Script: script, K: k, Mode: mode}
			ck.record(t, w, tot, r)
			ck.faultOracle(t, w, r)
			c.Eval(fmt.Sprintf("%s|%s|%d|%s", t.Name, scriptKey(script), k, mode), r.Failed)
			if r.Failed {
				c.Add("fault_runs_"+mode, 1)
				if r.Reported {
					c.Add("faults_reported", 1)
				} else {
					c.Add("faults_unreported", 1)
				}
			}
		}
	}
	return nil
}

// ---------------------------------------------------------------- TLC side

func (tr *traceRec) ndjson(buf *bytes.Buffer) int {
	enc := json.NewEncoder(buf)
	def := defectsOf[tr.t.Format+"/"+tr.t.Layer]
	n := 0
	put := func(e Event) {
		e.T = tr.id
		enc.Encode(e)
		n++
	}
	enc.Encode(beginEvent{T: tr.id, E: "begin", S: tr.t.NSinks, K: tr.w.K, Mode: tr.w.Mode, Lat: tr.t.Latch, Tot: tr.tot,
		Def: append([]string{}, def...), Prof: tr.t.Name})
	n++
	for _, e := range tr.events {
		put(e)
	}
	put(Event{E: "end"})
	return n
}

type verdict struct {
	Failed, Reported, PropReported, PropComplete bool
	Broken, Taint                                string
}

var reVerdict = regexp.MustCompile(`^<<"VERDICT", (\d+), (TRUE|FALSE), (TRUE|FALSE), (TRUE|FALSE), (TRUE|FALSE), <<(.*?)>>, <<(.*?)>>>>$`)
var reRefused = regexp.MustCompile(`^<<"REFUSED", (\d+), (\d+)>>$`)
var reHigh = regexp.MustCompile(`<<"HIGHWATER", (\d+), (\d+)>>`)

const traceCfg = "SinkWriterTrace.trace.cfg"

// validateBatch validates traces with one TLC run.  It returns the verdicts
// printed by the specification at each trace's end and, for traces that are
// not behaviours of the specification, the (batch-relative) number of the
// event that was refused.
func (ck *checker) validateBatch(traces []*traceRec) (map[int]verdict, map[int]int, error) {
	var buf bytes.Buffer
	total := 0
	for _, tr := range traces {
		total += tr.ndjson(&buf)
	}
	res, err := ck.c.RunTLC(core.TLCRun{Module: "SinkWriterTrace", Cfg: traceCfg,
		Files: map[string][]byte{"trace.ndjson": buf.Bytes()}, Workers: 1, Timeout: 10 * time.Minute})
	if res == nil {
		return nil, nil, err
	}
	out := map[int]verdict{}
	refused := map[int]int{}
	for _, line := range res.Prints {
		line = strings.TrimSpace(line)
		if m := reVerdict.FindStringSubmatch(line); m != nil {
			id, _ := strconv.Atoi(m[1])
			out[id] = verdict{m[2] == "TRUE", m[3] == "TRUE", m[4] == "TRUE", m[5] == "TRUE", m[6], m[7]}
		} else if m := reRefused.FindStringSubmatch(line); m != nil {
			id, _ := strconv.Atoi(m[1])
			refused[id], _ = strconv.Atoi(m[2])
		}
	}
	m := reHigh.FindStringSubmatch(res.Out)
	if err != nil || res.Status != "ok" || m == nil || m[1] != m[2] || m[2] != strconv.Itoa(total) {
		tail := res.Out
		if len(tail) > 2000 {
			tail = tail[len(tail)-2000:]
		}
		return out, refused, fmt.Errorf("trace validation did not complete (%s): %v\n%s", res.Status, err, tail)
	}
	return out, refused, nil
}

type control struct {
	name   string
	tr     *traceRec
	reject bool
}

// validate runs all traces and the negative controls through TLC (several
// JVMs in parallel) and compares the specification's verdict with the Go
// oracle.
func (ck *checker) validate(jvms int) {
	c := ck.c
	controls := ck.negativeControls()
	all := append([]*traceRec{}, ck.traces...)
	for _, ctl := range controls {
		all = append(all, ctl.tr)
	}
	n := len(all)
	per := (n + jvms - 1) / jvms
	var wg sync.WaitGroup
	var mu sync.Mutex
	verdicts := map[int]verdict{}
	refused := map[int]int{}
	for b := 0; b < jvms; b++ {
		lo, hi := b*per, (b+1)*per
		if hi > n {
			hi = n
		}
		if lo >= hi {
			continue
		}
		wg.Add(1)
		go func(batch []*traceRec) {
			defer wg.Done()
			vs, rf, err := ck.validateBatch(batch)
			mu.Lock()
			for id, v := range vs {
				verdicts[id] = v
			}
			for id, at := range rf {
				refused[id] = at
			}
			mu.Unlock()
			if err != nil {
				c.Inconclusive("%v", err)
			}
		}(all[lo:hi])
	}
	wg.Wait()
	agree, nrefused := 0, 0
	for _, tr := range ck.traces {
		if _, bad := refused[tr.id]; bad {
			nrefused++
			c.Drift("trace of %s script %v k=%d %s is not a behaviour of SinkWriter.tla: %s",
				tr.t.Name, tr.w.Script, tr.w.K, tr.w.Mode, compact(tr.events))
			continue
		}
		v, ok := verdicts[tr.id]
		if !ok {
			c.Inconclusive("no verdict from TLC for trace %d (%s %v k=%d %s)", tr.id, tr.t.Name, tr.w.Script, tr.w.K, tr.w.Mode)
			continue
		}
		goBad := tr.failed && !tr.reported
		if tr.loopBad {
			continue // already reported by the copy-loop oracle; the trace shows the writer's returns, not the caller's view
		}
		if v.Failed != tr.failed || v.Reported != tr.reported || v.PropReported == goBad {
			c.Inconclusive("specification and harness disagree on %s script %v k=%d %s: spec failed=%v reported=%v property=%v, harness failed=%v reported=%v",
				tr.t.Name, tr.w.Script, tr.w.K, tr.w.Mode, v.Failed, v.Reported, v.PropReported, tr.failed, tr.reported)
			continue
		}
		agree++
		if !tr.failed && !v.PropComplete {
			c.Violate(fmt.Sprintf("no-fault-stream-incomplete:%s:%s", tr.t.Format, tr.t.Layer),
				fmt.Sprintf("%s (%s): no sink call failed and Close returned nil, but the sink did not receive the whole reference stream in order: %s",
					tr.t.Format, tr.t.Name, compact(tr.events)), tr.w)
		}
		if v.Broken != "" {
			c.Add("traces_breaking_a_local_rule", 1)
			if !goBad && (tr.failed || v.PropComplete) {
				c.Drift("%s script %v k=%d %s breaks local rule %s of SinkWriter.tla although the property holds: %s",
					tr.t.Name, tr.w.Script, tr.w.K, tr.w.Mode, v.Broken, compact(tr.events))
			}
		}
		if v.Taint != "" {
			c.Add("traces_through_known_defect_disjunct", 1)
		}
	}
	c.Add("traces_validated_against_impl", int64(agree))
	c.Set("traces_recorded", len(ck.traces))
	c.Set("traces_refused_by_spec", nrefused)
	// Negative controls: a vacuous trace specification would accept them.
	for _, ctl := range controls {
		_, bad := refused[ctl.tr.id]
		v, ok := verdicts[ctl.tr.id]
		switch {
		case ctl.reject && !bad:
			c.Inconclusive("negative control %q: the corrupted trace was accepted by SinkWriterTrace.tla", ctl.name)
		case !ctl.reject && (bad || !ok || v.PropReported):
			c.Inconclusive("negative control %q: the specification did not judge the property violated (refused=%v verdict=%+v)", ctl.name, bad, v)
		default:
			c.Add("negative_controls_passed", 1)
		}
	}
}

// negativeControls corrupts one field of recorded traces; TLC must refuse
// the trace (or, for a dropped error return, judge the property violated).
func (ck *checker) negativeControls() []control {
	c := ck.c
	var clean, faulty *traceRec
	for _, tr := range ck.traces {
		nsink := 0
		for _, e := range tr.events {
			if e.E == "sink" && e.Len > 1 {
				nsink++
			}
		}
		if clean == nil && !tr.failed && nsink >= 2 && tr.t.Layer == "direct" {
			clean = tr
		}
		if faulty == nil && tr.failed && tr.reported && tr.t.Layer == "direct" && !tr.t.Latch && len(defectsOf[tr.t.Format+"/direct"]) == 0 {
			faulty = tr
		}
	}
	if clean == nil || faulty == nil {
		c.Inconclusive("no trace suitable for the negative controls")
		return nil
	}
	next := len(ck.traces)
	mutate := func(tr *traceRec, f func(evs []Event)) *traceRec {
		cp := *tr
		next++
		cp.id = next
		cp.events = append([]Event{}, tr.events...)
		f(cp.events)
		return &cp
	}
	insert := func(tr *traceRec, at int, e Event) *traceRec {
		cp := *tr
		next++
		cp.id = next
		cp.events = append(append(append([]Event{}, tr.events[:at]...), e), tr.events[at:]...)
		return &cp
	}
	firstSink := func(evs []Event) int {
		for i, e := range evs {
			if e.E == "sink" && e.Len > 1 {
				return i
			}
		}
		return -1
	}
	return []control{
		{"spurious error return", mutate(clean, func(evs []Event) {
			for i := range evs {
				if evs[i].E == "ret" {
					evs[i].Err = true
					return
				}
			}
		}), true},
		{"sink accepted fewer bytes than the fault model says", mutate(clean, func(evs []Event) { evs[firstSink(evs)].N-- }), true},
		{"sink error not in the fault model", mutate(clean, func(evs []Event) { evs[firstSink(evs)].Err = true }), true},
		{"payload is not the continuation of the stream", mutate(clean, func(evs []Event) { evs[firstSink(evs)].Off++ }), true},
		{"sink write after the sink was closed", insert(clean, firstSink(clean.events), Event{E: "sclose", S: 1}), true},
		{"sink write outside an API call", insert(clean, 0, Event{E: "sink", S: 1, Off: 0, Len: 1, N: 1}), true},
		{"error return dropped", mutate(faulty, func(evs []Event) {
			for i := range evs {
				if evs[i].E == "ret" {
					evs[i].Err = false
				}
			}
		}), false},
	}
}

// ---------------------------------------------------------------- scripts

func (ck *checker) model() ([][]string, bool) {
	c := ck.c
	cfg := "SinkWriter.exh.cfg"
	if !c.Quick() {
		cfg = "SinkWriter.thorough.cfg"
	}
	var scripts [][]string
	ok := true
	var wg sync.WaitGroup
	wg.Add(1)
	go func() {
		defer wg.Done()
		res := c.MustHold(core.TLCRun{Module: "SinkWriter", Cfg: cfg, Keep: []string{"scripts.json"}, Workers: 6,
			Coverage: c.Quick(), Timeout: 15 * time.Minute})
		if res == nil {
			ok = false
			return
		}
		if len(res.ZeroCov) > 0 {
			c.Inconclusive("SinkWriter.tla: actions never taken in the exhaustive model: %v", res.ZeroCov)
		}
		if err := core.ReadJSONFile(res, "scripts.json", &scripts); err != nil {
			c.Inconclusive("%v", err)
			ok = false
		}
	}()
	if !c.Quick() {
		wg.Add(1)
		go func() {
			defer wg.Done()
			c.MustHold(core.TLCRun{Module: "SinkWriter", Cfg: "SinkWriter.two.cfg", Workers: 4, Timeout: 15 * time.Minute})
		}()
	}
	// Non-vacuity: each defect disjunct really loses the property.
	tmpl, err := os.ReadFile(core.VerifDir + "/specs/cfg/SinkWriter.defect.cfg")
	if err != nil {
		c.Inconclusive("%v", err)
		return nil, false
	}
	for _, d := range []string{"L1", "L3"} {
		wg.Add(1)
		go func(d string) {
			defer wg.Done()
			cfg := strings.ReplaceAll(string(tmpl), "@DEFECT@", `"`+d+`"`)
			res, err := c.RunTLC(core.TLCRun{Module: "SinkWriter", Cfg: cfg, Workers: 2, Timeout: 5 * time.Minute})
			if err != nil || res == nil {
				c.Inconclusive("defect run %s: %v", d, err)
				return
			}
			if res.Status != "invariant" || res.Violated != "DefectHarmless" {
				c.Inconclusive("SinkWriter.tla: dropping rule %s does not lose the property in the model (status %s %s): the rule is vacuous", d, res.Status, res.Violated)
				return
			}
			c.Add("defect_disjuncts_shown_harmful", 1)
		}(d)
	}
	wg.Wait()
	sort.Slice(scripts, func(i, j int) bool {
		if len(scripts[i]) != len(scripts[j]) {
			return len(scripts[i]) < len(scripts[j])
		}
		return scriptKey(scripts[i]) < scriptKey(scripts[j])
	})
	return scripts, ok
}

// mustScripts are always part of a tier: rows of the rich type next to each
// other (row-level nulls, dictionaries over several rows) and after a value of
// another type.
var mustScripts = [][]string{{"n", "o"}, {"o", "n"}, {"s", "n"}, {"n", "L"}}

// pick selects the scripts of this tier: all short ones, mustScripts, and a
// seeded sample of the longest.
func pick(c *core.Ctx, all [][]string) [][]string {
	full, sample := 1, 4
	if !c.Quick() {
		full, sample = 2, 100
	}
	rng := rand.New(rand.NewSource(c.Seed + 18))
	var out, long [][]string
	have := map[string]bool{}
	for _, s := range all {
		if len(s) <= full {
			out = append(out, s)
			have[scriptKey(s)] = true
		}
	}
	for _, s := range mustScripts {
		if !have[scriptKey(s)] {
			out = append(out, s)
			have[scriptKey(s)] = true
		}
	}
	for _, s := range all {
		if !have[scriptKey(s)] {
			long = append(long, s)
		}
	}
	rng.Shuffle(len(long), func(i, j int) { long[i], long[j] = long[j], long[i] })
	if len(long) > sample {
		long = long[:sample]
	}
	return append(out, long...)
}

func run(c *core.Ctx) error {
	c.Trust("TLC 1.8 (tla2tools 2026.09); the harness's faulty io.WriteCloser and event recorder; the formats' own readers for the read-back; Go runtime call stacks (used only to name signatures)")
	c.Assume("the sink honours the io.Writer contract (n < len(p) implies a non-nil error); sink Close never fails and reports nothing; callers stop writing values after the first error and always call Close (zio.CopyWithContext, cli/outputflags)")
	c.Assume("value scripts up to the tier's length over 7 value classes per format (two of them rich: nulls mixed with distinct values, unions, maps, nested containers); arrows and parquet writers are not covered")
	c.Rule("case = (writer target, value script, failing sink call k, mode); scripts are the words exported by TLC from SinkWriter.tla instantiated per format; every k up to the dry run's number of sink write calls x {oneshot, sticky, short}, plus the fault-free run (read back with the format's reader); non-trivial = the injected fault was actually hit (or, for the fault-free run, at least one value was written); every case's event trace is validated against SinkWriterTrace.tla")
	ck := &checker{c: c, byName: map[string]*target{}, refs: map[string][][]byte{}}
	tgts := targets()
	for _, t := range tgts {
		ck.byName[t.Name] = t
	}
	if c.Replay != "" {
		return ck.replay()
	}
	if os.Getenv("C18_DUMP") != "" {
		dump(tgts)
		return nil
	}
	all, ok := ck.model()
	if !ok {
		return nil
	}
	scripts := pick(c, all)
	c.Set("scripts_exported_by_tlc", len(all))
	c.Set("scripts_used", len(scripts))
	c.Logf("TLC: design check done; %d scripts exported, %d used", len(all), len(scripts))
	for _, t := range tgts {
		for _, s := range scripts {
			if err := ck.enumerate(t, s); err != nil {
				return fmt.Errorf("%s %v: %w", t.Name, s, err)
			}
		}
	}
	c.Set("targets", len(tgts))
	c.Set("scripts_refused_by_format", ck.skipped)
	c.Logf("fault enumeration done: %d executions on %d targets, %d violations so far", len(ck.traces), len(tgts), c.Violations())
	for i, tr := range ck.traces {
		if i%(len(ck.traces)/10+1) == 0 {
			c.Sample(map[string]any{"target": tr.t.Name, "script": tr.w.Script, "k": tr.w.K, "mode": tr.w.Mode,
				"trace": compact(tr.events), "failed": tr.failed, "reported": tr.reported})
		}
	}
	ck.validate(6)
	c.Logf("trace validation done: %d traces validated, %d negative controls passed", c.Count("traces_validated_against_impl"), c.Count("negative_controls_passed"))
	return nil
}

func (ck *checker) replay() error {
	var w witness
	if _, err := ck.c.ReplayWitness(&w); err != nil {
		return err
	}
	t := ck.byName[w.Target]
	if t == nil {
		return fmt.Errorf("unknown target %q", w.Target)
	}
	dry, err := execute(t, w.Script, 0, ModeNone, nil)
	if err != nil {
		return err
	}
	ref := dry.Sinks
	if t.Layer == "bufwriter" {
		if d, err := execute(ck.byName[strings.TrimSuffix(t.Name, "+buf")], w.Script, 0, ModeNone, nil); err == nil {
			ref = d.Sinks
		}
	}
	r, err := execute(t, w.Script, w.K, w.Mode, ref)
	if err != nil {
		return err
	}
	fmt.Printf("target=%s script=%v k=%d mode=%s failed=%v reported=%v site=%s\n  %s\n", t.Name, w.Script, w.K, w.Mode, r.Failed, r.Reported, r.FailSite, compact(r.Events))
	if w.K == 0 {
		ck.noFaultOracle(t, w.Script, r, ref)
	} else {
		ck.faultOracle(t, w, r)
	}
	return nil
}

func dump(tgts []*target) {
	scripts := [][]string{{"n"}, {"n", "o"}}
	for _, t := range tgts {
		for _, sc := range scripts {
			dry, err := execute(t, sc, 0, ModeNone, nil)
			if err != nil {
				fmt.Printf("%-14s %v: cannot run: %v\n", t.Name, sc, err)
				continue
			}
			fmt.Printf("%-14s %v calls=%d reported=%v panic=%q: %s\n", t.Name, sc, dry.Calls, dry.Reported, dry.Panic, compact(dry.Events))
			if dry.Reported {
				continue
			}
			for k := 1; k <= dry.Calls; k++ {
				for _, mode := range modes {
					r, _ := execute(t, sc, k, mode, dry.Sinks)
					flag := "ok "
					if r.Failed && !r.Reported {
						flag = "BAD"
					}
					fmt.Printf("   %s k=%d %-7s site=%s panic=%q: %s\n", flag, k, mode, r.FailSite, r.Panic, compact(r.Events))
				}
			}
		}
	}
}

func main() { core.Main("C18", "fault_enumeration", run) }
