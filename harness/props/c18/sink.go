package main

import (
	"bytes"
	"errors"
	"io"
	"runtime"
	"strings"
)

// Fault modes of the sink (SinkWriter.tla, Faulty/SinkN).
const (
	ModeNone    = "none"
	ModeOneShot = "oneshot" // call K fails, accepts nothing; later calls succeed
	ModeSticky  = "sticky"  // call K and every later call fail
	ModeShort   = "short"   // call K accepts len/2 bytes and returns io.ErrShortWrite; later calls succeed
)

var errInjected = errors.New("injected sink failure")

// Event is one line of the ndjson trace validated by SinkWriterTrace.tla.
type Event struct {
	T   int    `json:"t"`   // trace number within the batch
	E   string `json:"e"`   // begin | call | sink | sclose | ret | end
	Op  string `json:"op"`  // call/ret: Write | Close
	S   int    `json:"s"`   // sink, sclose: sink index (1-based); begin: number of sinks
	Off int    `json:"off"` // sink: offset of the payload in the reference stream (-1: not a continuation)
	Len int    `json:"len"` // sink: len(p)
	N   int    `json:"n"`   // sink: bytes accepted
	Err bool   `json:"err"` // sink/ret: an error was returned
}

// beginEvent opens a trace: profile of the writer, fault, reference lengths.
type beginEvent struct {
	T    int      `json:"t"`
	E    string   `json:"e"`    // "begin"
	S    int      `json:"s"`    // number of sinks
	K    int      `json:"k"`    // failing call number (0 = none)
	Mode string   `json:"mode"` // fault mode
	Lat  bool     `json:"lat"`  // a sticky (bufio-like) layer sits directly above the sink
	Tot  []int    `json:"tot"`  // length of the reference stream per sink (two entries)
	Def  []string `json:"def"`  // defect disjuncts enabled for this writer (known findings)
	Prof string   `json:"prof"` // target name (informational)
}

// plan is the fault plan and the recorder shared by all sinks of one run.
type plan struct {
	k      int
	mode   string
	calls  int // sink write calls so far, all sinks
	events []Event
	failed bool
	// first failing call
	failSite string
	failOp   string
	curOp    string
	ref      [][]byte // per sink reference (no-fault) stream; nil in the dry run
	sinks    []*sink
	pkgs     []string
}

type sink struct {
	p       *plan
	idx     int // 1-based
	data    []byte
	offered int // sum of len(p) of all calls so far
	closed  int
}

func newPlan(k int, mode string, ref [][]byte) *plan {
	return &plan{k: k, mode: mode, ref: ref}
}

func (p *plan) newSink() *sink {
	s := &sink{p: p, idx: len(p.sinks) + 1}
	p.sinks = append(p.sinks, s)
	return s
}

func (p *plan) faulty(call int) bool {
	switch p.mode {
	case ModeOneShot, ModeShort:
		return call == p.k
	case ModeSticky:
		return p.k > 0 && call >= p.k
	}
	return false
}

func (s *sink) Write(b []byte) (int, error) {
	p := s.p
	p.calls++
	off := -1
	if p.ref == nil {
		off = s.offered
	} else if s.idx <= len(p.ref) {
		ref := p.ref[s.idx-1]
		if s.offered+len(b) <= len(ref) && bytes.Equal(ref[s.offered:s.offered+len(b)], b) {
			off = s.offered
		}
	}
	s.offered += len(b)
	n, err := len(b), error(nil)
	if p.faulty(p.calls) {
		n, err = 0, errInjected
		if p.mode == ModeShort {
			n, err = len(b)/2, io.ErrShortWrite
		}
		if !p.failed {
			p.failed = true
			p.failOp = p.curOp
			p.failSite = callSite()
		}
	}
	s.data = append(s.data, b[:n]...)
	p.events = append(p.events, Event{E: "sink", S: s.idx, Off: off, Len: len(b), N: n, Err: err != nil})
	return n, err
}

func (s *sink) Close() error {
	s.closed++
	s.p.events = append(s.p.events, Event{E: "sclose", S: s.idx})
	return nil
}

const modPrefix = "github.com/brimdata/super/"

// callSite returns the chain of repository functions between the harness
// and the failing sink call, outermost first, at most three frames, e.g.
// "zngio.Writer.Write>zngio.Writer.flush>zngio.Writer.writeBlock".  It is
// used only to name violation signatures.
func callSite() string {
	pc := make([]uintptr, 64)
	n := runtime.Callers(2, pc)
	frames := runtime.CallersFrames(pc[:n])
	var chain []string
	inWriter := false // between the sink (innermost harness frames) and the harness's driver
	for {
		f, more := frames.Next()
		if strings.HasPrefix(f.Function, "main.") {
			if inWriter {
				break // reached the harness's shim/driver: frames above are the copy loop
			}
		} else {
			inWriter = true
			if strings.HasPrefix(f.Function, modPrefix) {
				name := strings.TrimPrefix(f.Function, modPrefix)
				if i := strings.LastIndex(name, "/"); i >= 0 {
					name = name[i+1:]
				}
				name = strings.NewReplacer("(*", "", ")", "").Replace(name)
				chain = append(chain, name)
			}
		}
		if !more {
			break
		}
	}
	// innermost first -> outermost first
	for i, j := 0, len(chain)-1; i < j; i, j = i+1, j-1 {
		chain[i], chain[j] = chain[j], chain[i]
	}
	if len(chain) > 3 {
		chain = chain[:3]
	}
	return strings.Join(chain, ">")
}
