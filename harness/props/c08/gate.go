package main

// A deterministic scheduler for the scatter legs of a parallel lake query.
//
// Every leg of a dag.Scatter pulls its next object/partition from the one
// shared meta.Lister / meta.Slicer.  The verif hook at the entry of that Pull
// parks the calling goroutine; a controller waits until the whole process is
// quiescent (every goroutine other than the controller is blocked -- decided
// from a stop-the-world runtime.Stack snapshot, not from wall-clock time) and
// then releases exactly one parked leg, chosen by the schedule exported by TLC
// from ParScan.tla.  The hook trace (which served pull received which objects)
// is recorded for validation against the spec.

import (
	"bytes"
	"fmt"
	"runtime"
	"sort"
	"strconv"
	"sync"
	"time"

	"github.com/brimdata/super/pkg/verif"
	"github.com/segmentio/ksuid"
)

// pullEvent is one served pull of the shared source.
type pullEvent struct {
	Leg     int      `json:"leg"`     // canonical leg name 1..N (order of first service)
	Objects []string `json:"objects"` // object ids handed out during this pull (empty = end of stream)
}

type gate struct {
	site     string // the hook site that is gated
	schedule []int  // preferred leg (named in order of first service) for the i-th served pull
	freshSel int    // which of the parked, not yet served goroutines becomes the next new leg (rotation)

	mu      sync.Mutex
	parked  map[int64]chan struct{}
	names   map[int64]int
	cur     int64 // goroutine whose pull is in progress
	events  []pullEvent
	served  int // number of pulls released so far
	ctlGoid int64
	stop    chan struct{}
	done    chan struct{}
	err     error
	polls   int
}

func goid() int64 {
	var buf [64]byte
	n := runtime.Stack(buf[:], false)
	// "goroutine 123 [running]:"
	f := bytes.Fields(buf[:n])
	id, _ := strconv.ParseInt(string(f[1]), 10, 64)
	return id
}

var stackBuf = make([]byte, 1<<20)

// busyGoroutines returns the number of goroutines (other than self) that can
// still make progress on their own: running, runnable, in a syscall,
// sleeping on a timer or waiting for the collector.
func busyGoroutines(self int64) (busy int, total int) {
	for {
		n := runtime.Stack(stackBuf, true)
		if n < len(stackBuf) {
			return parseBusy(stackBuf[:n], self)
		}
		stackBuf = make([]byte, 2*len(stackBuf))
	}
}

func parseBusy(b []byte, self int64) (busy, total int) {
	for len(b) > 0 {
		i := bytes.IndexByte(b, '\n')
		var line []byte
		if i < 0 {
			line, b = b, nil
		} else {
			line, b = b[:i], b[i+1:]
		}
		if !bytes.HasPrefix(line, []byte("goroutine ")) {
			continue
		}
		rest := line[len("goroutine "):]
		sp := bytes.IndexByte(rest, ' ')
		if sp < 0 {
			continue
		}
		id, err := strconv.ParseInt(string(rest[:sp]), 10, 64)
		if err != nil {
			continue
		}
		lb := bytes.IndexByte(rest, '[')
		rb := bytes.LastIndexByte(rest, ']')
		if lb < 0 || rb < lb {
			continue
		}
		total++
		if id == self {
			continue
		}
		state := rest[lb+1 : rb]
		if c := bytes.IndexByte(state, ','); c >= 0 {
			state = state[:c]
		}
		switch string(state) {
		case "running", "runnable", "syscall", "sleep", "preempted", "GC assist wait", "GC sweep wait", "GC scavenge wait",
			"GC worker (idle)", "GC assist marking", "copystack", "waiting", "force gc (idle)", "timer goroutine (idle)":
			// "waiting" is the generic transient state; count it as busy to be safe.
			busy++
		}
	}
	return
}

func newGate(site string, schedule []int, freshSel int) *gate {
	return &gate{site: site, schedule: schedule, freshSel: freshSel, parked: map[int64]chan struct{}{}, names: map[int64]int{},
		stop: make(chan struct{}), done: make(chan struct{})}
}

func (g *gate) hook(site string, args ...any) {
	switch site {
	case g.site:
		id := goid()
		ch := make(chan struct{})
		g.mu.Lock()
		g.parked[id] = ch
		g.mu.Unlock()
		<-ch
	case "meta.Lister.Pull.object":
		id := goid()
		g.mu.Lock()
		if n := len(g.events); n > 0 && g.cur == id {
			g.events[n-1].Objects = append(g.events[n-1].Objects, args[1].(ksuid.KSUID).String())
		} else {
			// An object handed out outside a released pull: record it as its own event
			// so that validation against the spec rejects the trace.
			g.events = append(g.events, pullEvent{Leg: -1, Objects: []string{args[1].(ksuid.KSUID).String()}})
		}
		g.mu.Unlock()
	}
}

// start installs the hook and runs the controller until stopGate.
func (g *gate) start() {
	verif.SetHook(g.hook)
	go g.control()
}

func (g *gate) finish() ([]pullEvent, error) {
	close(g.stop)
	<-g.done
	verif.SetHook(nil)
	g.mu.Lock()
	defer g.mu.Unlock()
	// release anything still parked (query torn down)
	for id, ch := range g.parked {
		close(ch)
		delete(g.parked, id)
	}
	return g.events, g.err
}

func (g *gate) control() {
	defer close(g.done)
	g.ctlGoid = goid()
	idle := 0
	for {
		select {
		case <-g.stop:
			return
		default:
		}
		runtime.Gosched()
		busy, _ := busyGoroutines(g.ctlGoid)
		g.polls++
		if busy > 0 {
			idle = 0
			// let the running goroutines run: the snapshot stops the world
			time.Sleep(20 * time.Microsecond)
			continue
		}
		g.mu.Lock()
		if len(g.parked) == 0 {
			g.mu.Unlock()
			// Nothing parked and nothing running: either the query is finished
			// (the driver will stop us) or the process is stuck.
			idle++
			if idle > 20000 {
				g.err = fmt.Errorf("gate: process quiescent with no parked leg for %d polls", idle)
				return
			}
			time.Sleep(50 * time.Microsecond)
			continue
		}
		idle = 0
		// Legs are named in order of first service.  The schedule asks either for
		// an already named leg or (name = number of named legs + 1) for a fresh
		// one; a fresh leg is the parked unnamed goroutine with the smallest id.
		byName := map[int]int64{}
		var fresh []int64
		for id := range g.parked {
			if n, ok := g.names[id]; ok {
				byName[n] = id
			} else {
				fresh = append(fresh, id)
			}
		}
		sort.Slice(fresh, func(i, j int) bool { return fresh[i] < fresh[j] })
		next := len(g.names) + 1
		pick := 0
		if g.served < len(g.schedule) {
			want := g.schedule[g.served]
			if _, ok := byName[want]; ok {
				pick = want
			} else if want >= next && len(fresh) > 0 {
				pick = next
			}
		}
		if pick == 0 {
			for n := 1; n < next; n++ {
				if _, ok := byName[n]; ok {
					pick = n
					break
				}
			}
			if pick == 0 {
				pick = next
			}
		}
		if pick == next {
			// the legs are interchangeable copies, but which scatter path (= which parent
			// of the fan-in) gets which object decides e.g. the merge heap's layout
			f := fresh[(g.freshSel+next)%len(fresh)]
			g.names[f] = next
			byName[next] = f
		}
		id := byName[pick]
		ch := g.parked[id]
		delete(g.parked, id)
		g.cur = id
		g.events = append(g.events, pullEvent{Leg: pick})
		g.served++
		g.mu.Unlock()
		close(ch)
	}
}
