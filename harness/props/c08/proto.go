package main

// C08, protocol part: the pull protocol that joins parallel legs
// (specs/PullProto.tla).  The REAL operators -- combine.New, merge.New,
// op.NewMux, fork.New/AddExit, built the way compiler/kernel builds them --
// are run over scripted leaf pullers whose Pull(false) parks at a gate.  A
// driver moves only when the whole process is quiescent (runtime.Stack
// snapshot, see gate.go): it lets one parked leaf return, or issues the
// consumer's next call (Pull(false), Pull(true) after K batches, cancel).
// Every execution is recorded (environment moves and what the consumer got
// back) and TLC replays it through PullProto's own actions
// (specs/PullProtoTrace.tla).  For the scatter fan-ins (legs -> combine /
// merge) the delivered values are compared with what a single leg would
// deliver (the C08 oracle: nothing lost, duplicated, swallowed, no hang).

import (
	"context"
	"errors"
	"fmt"
	"math/rand"
	"os"
	"runtime"
	"sort"
	"strings"
	"time"

	zed "github.com/brimdata/super"
	"github.com/brimdata/super/order"
	zruntime "github.com/brimdata/super/runtime"
	"github.com/brimdata/super/runtime/sam/expr"
	"github.com/brimdata/super/runtime/sam/op"
	"github.com/brimdata/super/runtime/sam/op/combine"
	"github.com/brimdata/super/runtime/sam/op/fork"
	"github.com/brimdata/super/runtime/sam/op/merge"
	"github.com/brimdata/super/zbuf"

	"verif/core"
)

const (
	itEOS    = 0
	itERR    = -1
	itCTXERR = -2
)

type protoCase struct {
	ID      int     `json:"id"`
	Topo    string  `json:"topo"`
	N       int     `json:"n"`
	Mode    string  `json:"mode"`
	K       int     `json:"k"`
	Skew    bool    `json:"skew"`
	Scripts [][]int `json:"scripts"`
	Ev      [][]any `json:"ev"`
	Ldone   []int   `json:"ldone"`
	// outcome flags (not part of the trace)
	hang   bool
	leaked int
	pref   [][]any
}

var errLeaf = errors.New("scripted leaf error")

type pgate struct {
	parked map[int]chan struct{}
	mu     chan struct{} // binary semaphore (no sync.Mutex: keeps goroutine states simple)
}

func (g *pgate) lock()   { g.mu <- struct{}{} }
func (g *pgate) unlock() { <-g.mu }

type leaf struct {
	id     int
	script []int
	pos    int
	closed bool
	done   int
	g      *pgate
}

func (l *leaf) Pull(done bool) (zbuf.Batch, error) {
	if done {
		l.g.lock()
		l.done++
		l.closed = true
		l.g.unlock()
		return nil, nil
	}
	ch := make(chan struct{})
	l.g.lock()
	l.g.parked[l.id] = ch
	l.g.unlock()
	<-ch
	l.g.lock()
	defer l.g.unlock()
	if l.closed || l.pos >= len(l.script) {
		return nil, nil
	}
	x := l.script[l.pos]
	l.pos++
	if x == itERR {
		return nil, errLeaf
	}
	return zbuf.NewArray([]zed.Value{zed.NewInt64(int64(x))}), nil
}

// dropper is the skewed fork leg: it consumes every batch and passes only EOS on
type dropper struct{ parent zbuf.Puller }

func (d *dropper) Pull(done bool) (zbuf.Batch, error) {
	if done {
		return d.parent.Pull(true)
	}
	for {
		b, err := d.parent.Pull(false)
		if b == nil || err != nil {
			return b, err
		}
		b.Unref()
	}
}

type pres struct {
	item int
	err  error
}

func decode(b zbuf.Batch, err error) int {
	if err != nil {
		if errors.Is(err, context.Canceled) {
			return itCTXERR
		}
		return itERR
	}
	if b == nil {
		return itEOS
	}
	if eoc, ok := b.(*zbuf.EndOfChannel); ok {
		var p int
		fmt.Sscan(string(*eoc), &p)
		return -10 - p
	}
	inner, _ := zbuf.Unlabel(b)
	if inner == nil {
		inner = b
	}
	vals := inner.Values()
	if len(vals) != 1 {
		return -99
	}
	return int(vals[0].Int())
}

func quiet(self int64) {
	for i := 0; ; i++ {
		runtime.Gosched()
		if busy, _ := busyGoroutines(self); busy == 0 {
			return
		}
		time.Sleep(20 * time.Microsecond)
	}
}

// runProto executes one case on the real operators; moves are chosen by pref
// (a schedule exported by TLC) where possible, else by rng.
func runProto(cs *protoCase, rng *rand.Rand) {
	self := goid()
	base := runtime.NumGoroutine()
	rctx := zruntime.NewContext(context.Background(), zed.NewContext())
	g := &pgate{parked: map[int]chan struct{}{}, mu: make(chan struct{}, 1)}
	var leaves []*leaf
	for i, s := range cs.Scripts {
		leaves = append(leaves, &leaf{id: i + 1, script: s, g: g})
	}
	var parents []zbuf.Puller
	if strings.HasPrefix(cs.Topo, "fork-") {
		f := fork.New(rctx, leaves[0])
		for k := 0; k < cs.N; k++ {
			var e zbuf.Puller = f.AddExit()
			if cs.Skew && k == 0 {
				e = &dropper{e}
			}
			parents = append(parents, e)
		}
	} else {
		for _, l := range leaves {
			parents = append(parents, l)
		}
	}
	var top zbuf.Puller
	switch {
	case strings.HasSuffix(cs.Topo, "combine"):
		top = combine.New(rctx, parents)
	case strings.HasSuffix(cs.Topo, "merge"):
		top = merge.New(rctx, parents, expr.NewValueCompareFn(order.Asc, true), expr.Resetters{})
	default:
		m := map[string]zbuf.Puller{}
		for i, p := range parents {
			m[fmt.Sprint(i+1)] = p
		}
		top = op.NewMux(rctx, m)
	}
	resCh := make(chan pres, 1)
	outstanding, wasDone, finished, cancelled, started := false, false, false, false, false
	cnt := 0
	prefPos := 0
	for step := 0; step < 200; step++ {
		quiet(self)
		if outstanding {
			select {
			case r := <-resCh:
				outstanding = false
				cs.Ev = append(cs.Ev, []any{"R", r.item})
				if r.item > 0 {
					cnt++
				}
				if wasDone || (r.item <= 0 && r.item > -10) {
					finished = true
				}
				continue
			default:
			}
		}
		// the environment's possible moves
		var moves [][]any
		g.lock()
		var ids []int
		for id := range g.parked {
			ids = append(ids, id)
		}
		g.unlock()
		sort.Ints(ids)
		for _, id := range ids {
			moves = append(moves, []any{"L", id})
		}
		if !outstanding && !finished {
			switch {
			case cs.Mode == "head" && cnt >= cs.K && started:
				moves = append(moves, []any{"C", 2})
			case cs.Mode == "cancel" && cnt >= cs.K:
				moves = append(moves, []any{"C", 3})
			default:
				moves = append(moves, []any{"C", 1})
			}
		}
		if rctx.Err() != nil {
			cancelled = true // Mux cancels the context itself (end of all channels, or an error)
		}
		if finished && !cancelled && !outstanding {
			moves = append(moves, []any{"C", 3})
		}
		if len(moves) == 0 {
			if outstanding {
				cs.hang = true
				if dbg := os.Getenv("VERIF_C08_PROTO_DEBUG"); dbg != "" {
					buf := make([]byte, 1<<20)
					fmt.Fprintf(os.Stderr, "HANG %s n=%d %s/%d %v ev=%v\n%s\n", cs.Topo, cs.N, cs.Mode, cs.K, cs.Scripts, cs.Ev, buf[:runtime.Stack(buf, true)])
				}
			}
			break
		}
		pick := -1
		for prefPos < len(cs.pref) && pick < 0 {
			p := cs.pref[prefPos]
			if p[0] == "R" {
				prefPos++
				continue
			}
			for i, m := range moves {
				if m[0] == p[0] && fmt.Sprint(m[1]) == fmt.Sprint(p[1]) {
					pick = i
				}
			}
			prefPos++
			if pick < 0 {
				break // the exported move is not possible here: fall back to the rng from now on
			}
		}
		if pick < 0 {
			pick = rng.Intn(len(moves))
		}
		m := moves[pick]
		cs.Ev = append(cs.Ev, m)
		switch {
		case m[0] == "L":
			g.lock()
			ch := g.parked[m[1].(int)]
			delete(g.parked, m[1].(int))
			g.unlock()
			close(ch)
		case m[1] == 3:
			cancelled, finished = true, true
			rctx.Cancel()
		default:
			done := m[1] == 2
			outstanding, wasDone, started = true, done, true
			go func() {
				b, err := top.Pull(done)
				resCh <- pres{decode(b, err), err}
			}()
		}
	}
	// tear down whatever is left (a hang, or the step limit)
	if !cancelled {
		rctx.Cancel()
	}
	for i := 0; i < 50; i++ {
		quiet(self)
		g.lock()
		n := len(g.parked)
		for id, ch := range g.parked {
			close(ch)
			delete(g.parked, id)
		}
		g.unlock()
		if n == 0 {
			break
		}
	}
	quiet(self)
	cs.leaked = runtime.NumGoroutine() - base
	for _, l := range leaves {
		cs.Ldone = append(cs.Ldone, l.done)
	}
}

func delivered(cs *protoCase) (items []int) {
	for _, e := range cs.Ev {
		if e[0] == "R" {
			items = append(items, e[1].(int))
		}
	}
	return
}

// protoPart is the protocol part of ./check C08.
func (h *harness) protoPart(rng *rand.Rand) error {
	c := h.c
	t0 := time.Now()
	cfg := "PullProto.check.cfg"
	if !c.Quick() {
		cfg = "PullProto.check-thorough.cfg"
	}
	res := c.MustHold(core.TLCRun{Module: "PullProto", Cfg: cfg, Workers: 8, Deadlock: true, Timeout: 15 * time.Minute, HeapMB: 6000})
	if res == nil {
		return nil
	}
	c.Logf("TLC PullProto (%s): %d states; no deadlock, Complete, ErrorDelivered, DonePropagated, MergeOrdered hold (%.1fs)", cfg, res.Distinct, res.Wall.Seconds())
	res.Out = ""
	// as-coded deadlocks of fork | merge must be found by TLC (design observations; they
	// also show that the deadlock check of the runs above is not vacuous)
	expect := map[string]string{"PullProto.skew.cfg": "`fork (=> <leg that consumes without emitting> => pass) | merge` deadlocks after two batches -- merge.Op.start waits for leg 1, the Router cannot hand batch 2 to leg 2 whose puller holds batch 1 for the merge"}
	if !c.Quick() {
		expect["PullProto.forkmerge3.cfg"] = "`fork (=> pass => pass => pass) | merge | head 2` deadlocks -- merge.propagateDone sends done to a puller that is waiting in route.Pull(false), the Router's sendEOS is stuck at a route whose puller waits for the merge to take its batch"
		if r2 := c.MustHold(core.TLCRun{Module: "PullProto", Cfg: "PullProto.forkmerge2.cfg", Workers: 8, Deadlock: true, Timeout: 10 * time.Minute}); r2 != nil {
			r2.Out = ""
		}
	}
	var names []string
	for n := range expect {
		names = append(names, n)
	}
	sort.Strings(names)
	for _, n := range names {
		sk, err := c.RunTLC(core.TLCRun{Module: "PullProto", Cfg: n, Workers: 4, Deadlock: true, Timeout: 5 * time.Minute})
		if err != nil {
			c.Inconclusive("%v", err)
		} else if sk.Status != "deadlock" {
			c.Inconclusive("TLC did not find the expected deadlock of %s (status %s): the deadlock check is vacuous or the code changed", n, sk.Status)
		} else {
			c.Note("design observation (not a C08 violation: independent of the scan parallelism): PullProto.tla/TLC " + n + ": " + expect[n])
		}
	}
	lv := c.MustHold(core.TLCRun{Module: "PullProto", Cfg: "PullProto.live.cfg", Workers: 4, Deadlock: true, Timeout: 10 * time.Minute})
	if lv != nil {
		c.Logf("TLC PullProto liveness (Terminates under weak fairness): %d states (%.1fs)", lv.Distinct, lv.Wall.Seconds())
		lv.Out = ""
	}

	// ---- executions of the real operators
	var cases []*protoCase
	widths := []int{1, 2, 3}
	reps := 4
	if !c.Quick() {
		reps = 12
	}
	id := 0
	for _, topo := range []string{"combine", "merge", "mux", "fork-combine", "fork-merge"} {
		for _, n := range widths {
			if n == 1 && (topo == "mux" || strings.HasPrefix(topo, "fork-")) {
				continue
			}
			for _, mode := range []string{"drain", "head", "cancel"} {
				for _, k := range []int{0, 1, 2} {
					if (mode == "drain" && k != 0) || (mode == "head" && k == 0) {
						continue
					}
					for si, scr := range protoScripts(topo, n) {
						nr := reps
						if c.Quick() && topo != "combine" && topo != "merge" {
							nr = reps / 2 // the scatter fan-ins (C08 proper) get more schedules
						}
						for r := 0; r < nr; r++ {
							id++
							cases = append(cases, &protoCase{ID: id, Topo: topo, N: n, Mode: mode, K: k, Scripts: scr})
							_ = si
						}
					}
				}
			}
		}
	}
	// the skewed fork (a leg that consumes without emitting): combine must cope, merge is known to hang
	for _, topo := range []string{"fork-combine", "fork-merge"} {
		id++
		cases = append(cases, &protoCase{ID: id, Topo: topo, N: 2, Mode: "drain", Skew: true, Scripts: [][]int{{1, 2}}})
	}
	for _, cs := range cases {
		runProto(cs, rng)
		h.judgeProto(cs)
	}
	c.Logf("protocol part: %d executions of the real combine/merge/mux/fork operators under the quiescence driver (%.1fs)", len(cases), time.Since(t0).Seconds())
	return h.validateProto(cases)
}

func protoScripts(topo string, n int) [][][]int {
	if strings.HasPrefix(topo, "fork-") {
		return [][][]int{{{1, 2}}, {{1, 2, 3}}, {{1, itERR}}, {{itERR}}}
	}
	clean := make([][]int, n)
	for b := 1; b <= 3; b++ {
		clean[(b-1)%n] = append(clean[(b-1)%n], b)
	}
	e1 := make([][]int, n)
	e2 := make([][]int, n)
	for i := 1; i <= n; i++ {
		if i == 1 {
			e1[i-1] = []int{1, itERR}
		} else {
			e1[i-1] = []int{i}
		}
		if i == n {
			e2[i-1] = []int{itERR}
		} else {
			e2[i-1] = []int{i, i + 3}
		}
	}
	return [][][]int{clean, e1, e2}
}

// judgeProto applies the C08 oracle to the scatter fan-ins and records
// observations for the other topologies.
func (h *harness) judgeProto(cs *protoCase) {
	c := h.c
	scatter := cs.Topo == "combine" || cs.Topo == "merge"
	del := delivered(cs)
	var batches []int
	for _, x := range del {
		if x > 0 {
			batches = append(batches, x)
		}
	}
	all := map[int]int{}
	hasErr := false
	for _, s := range cs.Scripts {
		for _, x := range s {
			if x > 0 {
				all[x]++
			} else if x == itERR {
				hasErr = true
			}
		}
	}
	copies := 1
	if strings.HasPrefix(cs.Topo, "fork-") {
		copies = cs.N
		if cs.Skew {
			copies--
		}
	}
	report := func(kind, what string) {
		w := map[string]any{"kind": "proto", "case": cs, "events": cs.Ev}
		if scatter {
			c.Violate("proto:"+cs.Topo+":"+kind, fmt.Sprintf("%d legs -> %s, consumer %s/%d, scripts %v: %s (events %v)", cs.N, cs.Topo, cs.Mode, cs.K, cs.Scripts, what, cs.Ev), w)
		} else {
			h.protoObs[fmt.Sprintf("%s:%s:%v:%v:%s", cs.Topo, kind, cs.Scripts, cs.Skew, cs.Mode)] = fmt.Sprintf("%s (%d legs, consumer %s/%d, scripts %v, skew %v): %s", cs.Topo, cs.N, cs.Mode, cs.K, cs.Scripts, cs.Skew, what)
		}
	}
	c.Eval(fmt.Sprintf("proto|%s|%d|%s|%d|%v|%v|%v", cs.Topo, cs.N, cs.Mode, cs.K, cs.Skew, cs.Scripts, cs.Ev), cs.N >= 2)
	if cs.hang {
		report("hang", fmt.Sprintf("the consumer's Pull never returns although every leaf has answered (all goroutines blocked); events %v", cs.Ev))
		return
	}
	seen := map[int]int{}
	for _, b := range batches {
		seen[b]++
		if all[b] == 0 || seen[b] > copies {
			report("duplicate", fmt.Sprintf("batch %d delivered %d times (delivered %v)", b, seen[b], del))
			return
		}
	}
	if strings.HasSuffix(cs.Topo, "merge") && !sort.IntsAreSorted(batches) {
		report("order", fmt.Sprintf("merge delivered %v", del))
	}
	if cs.Mode == "drain" && len(del) > 0 {
		last := del[len(del)-1]
		if hasErr {
			if last != itERR {
				report("error-swallowed", fmt.Sprintf("a leaf returned an error but the consumer's stream ends with %d (delivered %v)", last, del))
			}
		} else {
			if last != itEOS {
				report("no-eos", fmt.Sprintf("delivered %v", del))
			}
			for b := range all {
				if seen[b] != copies {
					report("lost", fmt.Sprintf("batch %d delivered %d times instead of %d (delivered %v)", b, seen[b], copies, del))
					return
				}
			}
		}
	}
	if cs.leaked > 0 {
		report("goroutines-left", fmt.Sprintf("%d goroutines still alive after the context was cancelled and every leaf released", cs.leaked))
	}
}

// validateProto has TLC replay the recorded executions through PullProto.
func (h *harness) validateProto(cases []*protoCase) error {
	c := h.c
	var recs []*protoCase
	for _, cs := range cases {
		if !cs.hang {
			recs = append(recs, cs)
		}
	}
	if os := h.corruptProto; os != "" && len(recs) > 3 {
		// self-test: one delivered item of one trace is altered
		for _, e := range recs[3].Ev {
			if e[0] == "R" {
				e[1] = 7
				break
			}
		}
	}
	t0 := time.Now()
	res := c.MustHold(core.TLCRun{Module: "PullProtoTrace", Cfg: "PullProtoTrace.cfg", Workers: 8, Timeout: 15 * time.Minute,
		Files: map[string][]byte{"ptraces.ndjson": core.NDJSON(recs)}})
	if res == nil {
		return nil
	}
	ok := map[int]bool{}
	for _, line := range res.Prints {
		var id int
		if n, _ := fmt.Sscanf(line, `<<"ACCEPT", %d>>`, &id); n == 1 {
			ok[id] = true
		}
	}
	acc := 0
	for _, cs := range recs {
		if ok[cs.ID] {
			acc++
		} else {
			c.Drift("protocol trace: PullProto.tla does not explain the execution of %s (%d legs, consumer %s/%d, scripts %v, skew %v): events %v, Pull(true) per leaf %v", cs.Topo, cs.N, cs.Mode, cs.K, cs.Scripts, cs.Skew, cs.Ev, cs.Ldone)
		}
	}
	c.Add("traces_validated_against_impl", int64(acc))
	c.Set("protocol_executions", len(cases))
	c.Set("protocol_traces_accepted", acc)
	c.Logf("TLC replayed %d recorded protocol executions through PullProto's actions: %d accepted (%d states, %.1fs)", len(recs), acc, res.Distinct, time.Since(t0).Seconds())
	var keys []string
	for k := range h.protoObs {
		keys = append(keys, k)
	}
	sort.Strings(keys)
	for _, k := range keys {
		c.Note("design observation on the real operators (not a C08 violation: independent of the scan parallelism): " + h.protoObs[k])
	}
	return nil
}
