package main

import (
	"context"
	"fmt"
	"os"
	"strings"

	zed "github.com/brimdata/super"
	"github.com/brimdata/super/compiler"
	"github.com/brimdata/super/compiler/data"
	"github.com/brimdata/super/pkg/storage"
	"github.com/brimdata/super/runtime"
	"github.com/brimdata/super/zfmt"

	"verif/lakeh"
)

func main() {
	ctx := context.Background()
	store := lakeh.NewMemStore()
	lk, err := lakeh.Create(ctx, store, 0, nil)
	if err != nil {
		panic(err)
	}
	dir := "asc"
	if len(os.Args) > 2 {
		dir = os.Args[2]
	}
	thresh := int64(1)
	if os.Getenv("THRESH") != "" {
		fmt.Sscan(os.Getenv("THRESH"), &thresh)
	}
	id, err := lk.CreatePool(ctx, "p", "k", dir, 0, thresh)
	if err != nil {
		panic(err)
	}
	loads := []string{
		"{k:1,g:\"a\",u:1,x:1}\n{k:3,g:\"b\",u:2,x:2}\n{k:\"s\",g:\"a\",u:3}",
		"{k:2,g:\"b\",u:4,x:1}\n{k:3,g:\"a\",u:5,x:null}\n{k:null,g:\"a\",u:6,x:1}\n{g:\"b\",u:7,x:2}\n{k:null,g:\"b\",u:8}\n{g:\"a\",u:9,x:2}",
	}
	if os.Getenv("LOADS") != "" {
		loads = strings.Split(os.Getenv("LOADS"), ";")
	}
	for _, l := range loads {
		if _, err := lk.LoadZSON(ctx, id, "main", l); err != nil {
			panic(err)
		}
	}
	objs, _ := lk.Objects(ctx, "p", "main")
	for _, o := range objs {
		fmt.Printf("obj %s [%s,%s] n=%d\n", o.ID[:6], o.Min, o.Max, o.Count)
	}
	src := data.NewSource(storage.NewRemoteEngine(), lk.Root)
	for _, prog := range strings.Split(os.Args[1], ";") {
		prog = strings.TrimSpace(prog)
		seq, _, err := compiler.Parse(prog)
		if err != nil {
			fmt.Println("PARSE", prog, err)
			continue
		}
		if os.Getenv("DIFF") != "" {
			r1, e1 := lk.QueryPar(ctx, prog, 1)
			for _, par := range []int{2, 3, 8} {
				rn, en := lk.QueryPar(ctx, prog, par)
				tag := "same"
				if fmt.Sprint(r1, e1) != fmt.Sprint(rn, en) {
					tag = "SEQDIFF"
					if fmt.Sprint(lakeh.Multiset(r1), e1) != fmt.Sprint(lakeh.Multiset(rn), en) {
						tag = "BAGDIFF"
					}
				}
				if tag != "same" {
					fmt.Printf("%s par=%d %s\n  1: %v %v\n  n: %v %v\n", tag, par, prog, r1, e1, rn, en)
				}
			}
			continue
		}
		pars := []int{1, 3}
		if os.Getenv("PARS") == "1" {
			pars = []int{1}
		}
		for _, par := range pars {
			rctx := runtime.NewContext(ctx, zed.NewContext())
			job, err := compiler.NewJob(rctx, seq, src, nil)
			if err != nil {
				fmt.Println("JOB", err)
				continue
			}
			if err := job.Optimize(); err != nil {
				fmt.Println("OPT", err)
				continue
			}
			if par > 1 {
				if err := job.Parallelize(par); err != nil {
					fmt.Println("PAR", err)
					continue
				}
			}
			fmt.Printf("=== %s  (par %d)\n%s\n", prog, par, zfmt.DAG(job.Entry()))
			if par > 1 && os.Getenv("SCHED") != "" {
				var sched []int
				for _, f := range strings.Split(os.Getenv("SCHED"), ",") {
					var n int
					fmt.Sscan(f, &n)
					sched = append(sched, n)
				}
				site := "meta.Lister.Pull.enter"
				if strings.Contains(zfmt.DAG(job.Entry()), "slicer") {
					site = "meta.Slicer.Pull.enter"
				}
				g := newGate(site, sched, par)
				g.start()
				rows, err := lk.QueryPar(ctx, prog, par)
				ev, gerr := g.finish()
				fmt.Println(rows, err)
				fmt.Println("events", ev, gerr, "polls", g.polls)
				continue
			}
			rows, err := lk.QueryPar(ctx, prog, par)
			fmt.Println(rows, err)
		}
	}
}
