// C08 -- lake query results are independent of the degree of parallelism.
//
// specs/ParScan.tla transcribes the parallel planner (Parallelize,
// concurrentPath, liftIntoParPaths), the shared Lister/Slicer, the scan of a
// partition, the merge/combine fan-in and the partial aggregation split, next
// to a reference semantics of a small operator alphabet.  TLC explores every
// interleaving of the legs' pulls for every (pool layout, direction, program,
// leg count) of the configured universe, checks that the parallel result
// equals the sequential one (as a sequence, up to ties of a sort key, or as a
// multiset -- whichever the program defines), and exports cases: layout,
// program, predicted plan, predicted Lister order, a leg schedule, predicted
// results.  This harness builds the real pools, runs the real query at
// parallelism 1 and at parallelism N with the legs' pulls FORCED into the
// exported schedule (gate.go), compares real-N with real-1 (the property),
// real-1 / real-N / the real plan with the spec's predictions (binding), and
// has TLC replay the recorded hook traces through the spec's own PullStep
// (specs/ParScanTrace.tla).
package main

import (
	"context"
	"encoding/json"
	"fmt"
	"math/rand"
	"os"
	"path/filepath"
	"sort"
	"strconv"
	"strings"
	"time"

	"github.com/brimdata/super/zfmt"

	"verif/core"
)

type harness struct {
	protoObs     map[string]string
	corruptProto string
	c            *core.Ctx
	e            *env
	traces       []traceJ
	byID         map[int]*ran
	feat         map[string]int
	altRuns      int
}

// traceJ is one record of traces.ndjson (see ParScanTrace.tla).
type traceJ struct {
	ID     int      `json:"id"`
	Lay    [][]val  `json:"lay"`
	Desc   bool     `json:"desc"`
	Prog   []string `json:"prog"`
	N      int      `json:"n"`
	Events [][2]any `json:"events"`
	Want   bool     `json:"want"`
}

// ran remembers a real execution until its TLC verdict arrives.
type ran struct {
	cs   *caseJ
	src  string
	rN   []canonRow
	rNn  []string
	mode string
}

type witness struct {
	Loads    [][]string `json:"loads"`
	Desc     bool       `json:"desc"`
	Thresh   int64      `json:"thresh"`
	Prog     []string   `json:"prog"`
	N        int        `json:"n"`
	Schedule []int      `json:"schedule,omitempty"`
	FreshSel int        `json:"fresh_sel,omitempty"`
	Procs    int        `json:"gomaxprocs,omitempty"`
	Mode     string     `json:"mode"`
	ByF      string     `json:"byf,omitempty"`
	Query    string     `json:"query"`
	Plan     string     `json:"plan,omitempty"`
	Par1     []string   `json:"par1"`
	ParN     []string   `json:"parN"`
	Err      string     `json:"error,omitempty"`
}

func main() {
	if os.Getenv("VERIF_C08_CHILD") == "1" {
		childMain()
		return
	}
	core.Main("C08", "model_checking", run)
}

func loadsOf(objs [][]mrow) [][]string {
	out := make([][]string, len(objs))
	for i, o := range objs {
		for _, r := range o {
			out[i] = append(out[i], rowZSON(r))
		}
	}
	return out
}

func cfgText(name string, repl map[string]string) (string, error) {
	b, err := os.ReadFile(filepath.Join(core.VerifDir, "specs", "cfg", name))
	if err != nil {
		return "", err
	}
	s := string(b)
	for k, v := range repl {
		if !strings.Contains(s, k) {
			return "", fmt.Errorf("cfg %s has no %q", name, k)
		}
		s = strings.Replace(s, k, v, 1)
	}
	return s, nil
}

func parseCases(res *core.TLCResult) ([]caseJ, error) {
	var out []caseJ
	for _, line := range res.Prints {
		if !strings.HasPrefix(line, `"{`) {
			continue
		}
		s, err := strconv.Unquote(line)
		if err != nil {
			return nil, fmt.Errorf("cannot unquote TLC case line: %v", err)
		}
		var cs caseJ
		if err := json.Unmarshal([]byte(s), &cs); err != nil {
			return nil, fmt.Errorf("cannot decode TLC case: %v: %.300s", err, s)
		}
		out = append(out, cs)
	}
	return out, nil
}

func run(c *core.Ctx) error {
	ctx := context.Background()
	e, err := newEnv(ctx)
	if err != nil {
		return err
	}
	h := &harness{c: c, e: e, byID: map[int]*ran{}, feat: map[string]int{}, protoObs: map[string]string{}, corruptProto: os.Getenv("VERIF_C08_CORRUPT_PROTO")}
	c.Trust("TLC 1.8; the verif hooks meta.Lister.Pull.enter/object and meta.Slicer.Pull.enter; the quiescence detector of the leg scheduler (runtime.Stack states); zson parser/formatter used to project results")
	c.Assume("pool key k over {1,2,3,\"s\",null,missing}; <= 4 objects of <= 3 values in the TLC universe; 2..3 legs under forced schedules, 2..16 legs free-running; operator alphabet of specs/ParScan.tla")
	c.Rule("case = (pool layout, direction, program, leg count, leg schedule) exported by TLC from a terminal state of ParScan.tla, replayed on a real pool with the legs' Lister/Slicer pulls forced into that schedule, plus free-running repeats at parallelism 2..16 and GOMAXPROCS 1/2/16; non-trivial = at least two legs received data objects, or the plan splits an aggregation / lifts a sort, head or tail into the legs")

	p0, err := e.buildPool("learn", false, 0, [][]string{{`{k:1,g:"a",u:1,x:1}`}})
	if err != nil {
		return err
	}
	if err := e.learnOps(p0.name); err != nil {
		return err
	}
	if c.Replay != "" {
		return h.replay()
	}

	// ---- the pull protocol that joins the legs (specs/PullProto.tla, proto.go)
	if os.Getenv("VERIF_C08_SKIP_PROTO") == "" {
		if err := h.protoPart(rand.New(rand.NewSource(c.Seed + 808))); err != nil {
			return err
		}
	}
	if os.Getenv("VERIF_C08_ONLY_PROTO") != "" {
		return nil
	}

	// ---- TLC: exhaustive exploration of the leg interleavings + case export
	type tlcRun struct {
		cfg     string
		emitMod int
	}
	runs := []tlcRun{{"ParScan.shapes.cfg", 5}, {"ParScan.grammar.cfg", 11}}
	if !c.Quick() {
		runs = []tlcRun{{"ParScan.shapes-thorough.cfg", 61}, {"ParScan.grammar-thorough.cfg", 53}, {"ParScan.triples.cfg", 47}}
	}
	if dbg := os.Getenv("VERIF_C08_CFGS"); dbg != "" { // development aid: "a.cfg:5,b.cfg:7"
		runs = nil
		for _, f := range strings.Split(dbg, ",") {
			nm, mod, _ := strings.Cut(f, ":")
			m, _ := strconv.Atoi(mod)
			runs = append(runs, tlcRun{nm, m})
		}
	}
	var cases []caseJ
	for _, r := range runs {
		txt, err := cfgText(r.cfg, map[string]string{
			"EmitMod = 0": fmt.Sprintf("EmitMod = %d", r.emitMod),
			"EmitRem = 0": fmt.Sprintf("EmitRem = %d", int(c.Seed%int64(r.emitMod)+int64(r.emitMod))%r.emitMod),
		})
		if err != nil {
			return err
		}
		t0 := time.Now()
		res := c.MustHold(core.TLCRun{Module: "ParScan", Cfg: txt, Workers: 8, Timeout: 18 * time.Minute, HeapMB: 6000})
		if res == nil {
			return nil
		}
		cs, err := parseCases(res)
		if err != nil {
			return err
		}
		res.Out, res.Prints = "", nil
		c.Logf("TLC %s: %d states, invariants hold; %d cases exported (%.1fs)", r.cfg, res.Distinct, len(cs), time.Since(t0).Seconds())
		if len(cs) == 0 {
			c.Inconclusive("TLC explored %d states of %s but exported no case", res.Distinct, r.cfg)
		}
		cases = append(cases, cs...)
	}
	c.Set("cases_exported", len(cases))

	// ---- replay on the real lake, schedules forced
	rng := rand.New(rand.NewSource(c.Seed + 8))
	budget, minCases := 25*time.Second, 150
	if !c.Quick() {
		budget, minCases = 6*time.Minute, 2000
	}
	// replay order: round robin over the programs (each program gets the same share of the
	// budget), random within a program
	byProg := map[string][]int{}
	var progKeys []string
	for _, i := range rng.Perm(len(cases)) {
		k := strings.Join(cases[i].Prog, "|")
		if _, ok := byProg[k]; !ok {
			progKeys = append(progKeys, k)
		}
		byProg[k] = append(byProg[k], i)
	}
	sort.Strings(progKeys)
	// first the cases in which TLC found the key-ordered merge load-bearing for a streaming
	// group-by (sens, at most 24), one per (layout, direction, program) before any repeats
	var order []int
	inOrder := map[int]bool{}
	sensN := 0
	for pass := 0; pass < 2 && len(order) < 24; pass++ {
		seen := map[string]bool{}
		for _, i := range rng.Perm(len(cases)) {
			cs := &cases[i]
			k := layoutKey(cs.Objs, cs.Desc) + strings.Join(cs.Prog, "|")
			if !cs.Sens || inOrder[i] || (pass == 0 && seen[k]) || len(order) >= 24 {
				continue
			}
			seen[k] = true
			inOrder[i] = true
			order = append(order, i)
		}
	}
	for _, cs := range cases {
		if cs.Sens {
			sensN++
		}
	}
	c.Set("cases_merge_load_bearing", sensN)
	for r := 0; len(order) < len(cases); r++ {
		more := false
		for _, k := range progKeys {
			if r < len(byProg[k]) {
				more = true
				if i := byProg[k][r]; !inOrder[i] {
					inOrder[i] = true
					order = append(order, i)
				}
			}
		}
		if !more {
			break
		}
	}
	t0 := time.Now()
	done := 0
	for _, i := range order {
		// a time budget, but never fewer than minCases (a loaded machine must not make the run vacuous)
		if el := time.Since(t0); (el > budget && done >= minCases) || el > 8*budget {
			break
		}
		if err := h.replayCase(&cases[i], len(h.traces)+1); err != nil {
			return fmt.Errorf("case %s: %w", caseName(&cases[i]), err)
		}
		done++
	}
	c.Set("cases_replayed", done)
	c.Logf("forced-schedule replay: %d of %d cases, %d evaluations, %d violations (%.1fs)", done, len(cases), c.Count("evaluations"), c.Violations(), time.Since(t0).Seconds())

	// ---- free-running repeats over the replayed pools: parallelism x GOMAXPROCS
	if err := h.freeRun(cases, order[:done], rng); err != nil {
		return err
	}

	// ---- larger pools (beyond the TLC universe): the spec evaluates the
	// sequential semantics (which comparison applies), the lake runs free
	bigs := h.genBigs(rng)

	// ---- TLC: replay of the recorded hook traces through the spec's PullStep
	if err := h.validate(bigs, rng); err != nil {
		return err
	}
	for _, k := range []string{"legs>=2 with data", "leg with >=2 partitions", "partition with >=2 objects", "leg stopped by lifted head", "partials split", "sort lifted", "combine fan-in", "merge on pool key", "desc pool", "mode exact", "mode cls", "mode bag", "schedule forced exactly"} {
		if h.feat[k] == 0 {
			c.Inconclusive("vacuous run: no replayed case with feature %q", k)
		}
	}
	c.Set("features", h.feat)
	return nil
}

func caseName(cs *caseJ) string {
	return fmt.Sprintf("%s desc=%v n=%d sched=%v loads=%v", strings.Join(cs.Prog, "|"), cs.Desc, cs.N, schedOf(cs), loadsOf(cs.Objs))
}

func schedOf(cs *caseJ) []int {
	var s []int
	for _, p := range cs.Served {
		s = append(s, p.Leg)
	}
	return s
}

func (h *harness) signature(kind string, tags []string, prog []string) string {
	if len(tags) > 0 {
		return kind + ":" + tags[0]
	}
	return kind + ":" + strings.Join(prog, "|")
}

// oracle compares a parallel result with the parallelism-1 result.
func (h *harness) oracle(w witness, mode, byf string, det bool, r1, rN []string, errN error, tags []string) {
	c := h.c
	if errN != nil {
		w.Err = errN.Error()
		c.Violate(h.signature("error", tags, w.Prog), fmt.Sprintf("`%s` succeeds at parallelism 1 but fails at parallelism %d: %v", w.Query, w.N, errN), w)
		return
	}
	if !det {
		return
	}
	a, an, err1 := realRows(r1)
	b, bn, err2 := realRows(rN)
	if err1 != nil || err2 != nil {
		c.Inconclusive("cannot parse results of %s: %v %v", w.Query, err1, err2)
		return
	}
	diff := compare(mode, byf, a, b, an, bn)
	if diff == "" {
		return
	}
	w.Par1, w.ParN, w.Mode, w.ByF = r1, rN, mode, byf
	what := fmt.Sprintf("`%s` returns a different %s at parallelism %d than at parallelism 1 (schedule %v): %v vs %v",
		w.Query, map[string]string{"multiset": "multiset of values", "order": "sequence"}[diff], w.N, w.Schedule, clip(rN), clip(r1))
	c.Violate(h.signature(diff, tags, w.Prog), what, w)
}

func clip(rows []string) string {
	s := strings.Join(rows, " ")
	if len(s) > 400 {
		s = s[:400] + "..."
	}
	return "[" + s + "]"
}

func (h *harness) replayCase(cs *caseJ, id int) error {
	c, e := h.c, h.e
	loads := loadsOf(cs.Objs)
	p, err := e.buildPool(layoutKey(cs.Objs, cs.Desc), cs.Desc, 0, loads)
	if err != nil {
		return err
	}
	src := progText(p.name, cs.Prog)
	r1, err := e.query(src, 1)
	if err != nil {
		return fmt.Errorf("parallelism 1: %w", err)
	}
	a, _, err := realRows(r1)
	if err != nil {
		return err
	}
	want := specRows(cs.Seq.Rows)
	if os.Getenv("VERIF_C08_CORRUPT") == "pred" && id == 3 && len(want) > 0 {
		want[0]["u"] = "77"
	}
	// binding: the reference semantics against the real sequential run
	if cs.Seq.Det {
		if d := compare(cs.Seq.Mode, cs.Seq.ByF, want, a, keys(want), keys(a)); d != "" {
			c.Drift("semantics: `%s` over %v (desc=%v): spec predicts %v, parallelism 1 returns %v (%s, mode %s)", strings.Join(cs.Prog, "|"), loads, cs.Desc, keys(want), clip(r1), d, cs.Seq.Mode)
		}
	}
	// binding: the planner transcription against the real parallel plan
	seq, err := e.plan(src, cs.N)
	if err != nil {
		return err
	}
	rp, tags, err := e.realPlan(seq)
	if err != nil {
		return err
	}
	sort.Strings(rp.Filter)
	sp := cs.Plan
	sp.Filter = append([]string(nil), sp.Filter...)
	sort.Strings(sp.Filter)
	if !samePlan(rp, sp) {
		c.Drift("plan: `%s` desc=%v: spec %+v real %+v", strings.Join(cs.Prog, "|"), cs.Desc, sp, rp)
	}
	// the property: parallelism N under the exported schedule
	sched := schedOf(cs)
	rN, ev, errN := e.gated(src, cs.N, rp.Slicer, sched, id)
	w := witness{Loads: loads, Desc: cs.Desc, Prog: cs.Prog, N: cs.N, Schedule: sched, FreshSel: id, Query: src, Plan: zfmt.DAG(seq), Par1: r1, ParN: rN}
	h.oracle(w, cs.Seq.Mode, cs.Seq.ByF, cs.Seq.Det, r1, rN, errN, tags)
	if !samePlan(rp, sp) && errN == nil {
		// The real plan is not the one the spec predicts, so the exported schedule (a
		// schedule of the predicted plan's pulls) says little about this flowgraph: the
		// harness enumerates the schedules of the real plan's pulls itself (bounded).
		h.altSchedules(cs, src, rp, loads, zfmt.DAG(seq), r1, tags, id)
	}

	// the hook trace
	tr := traceJ{ID: id, Lay: cs.Lay, Desc: cs.Desc, Prog: cs.Prog, N: cs.N}
	legsWithData := map[int]int{}
	exact := true
	k := 0
	for _, pe := range ev {
		objs := []int{}
		for _, o := range pe.Objects {
			objs = append(objs, p.objIdx[o])
		}
		tr.Events = append(tr.Events, [2]any{pe.Leg, objs})
		if len(objs) > 0 {
			legsWithData[pe.Leg]++
		}
		if k < len(cs.Served) {
			if cs.Served[k].Leg != pe.Leg || len(cs.Served[k].Objs) != len(objs) {
				exact = false
			}
			k++
		}
	}
	if k < len(cs.Served) {
		exact = false
	}
	tr.Want = !exact && errN == nil
	if os.Getenv("VERIF_C08_CORRUPT") == "trace" && id == 3 && len(tr.Events) > 0 {
		tr.Events[0][1] = []int{9}
	}
	h.traces = append(h.traces, tr)
	b, bn, _ := realRows(rN)
	h.byID[id] = &ran{cs: cs, src: src, rN: b, rNn: bn}
	if exact && errN == nil && cs.Seq.Det && len(cs.Taint) == 0 {
		h.feat["schedule forced exactly"]++
		pw := specRows(cs.ParRows)
		if d := compare(cs.Seq.Mode, cs.Seq.ByF, pw, b, keys(pw), keys(b)); d != "" {
			c.Drift("parallel semantics: `%s` over %v desc=%v n=%d schedule %v: spec predicts %v, real %v (%s)", strings.Join(cs.Prog, "|"), loads, cs.Desc, cs.N, sched, keys(pw), clip(rN), d)
		}
	}
	// features / non-triviality
	lifted := false
	for _, l := range rp.Legs {
		if strings.HasSuffix(l, ":out") {
			h.feat["partials split"]++
			lifted = true
		}
		if strings.HasPrefix(l, "S") {
			h.feat["sort lifted"]++
			lifted = true
		}
		if strings.HasPrefix(l, "H") || strings.HasPrefix(l, "T") {
			lifted = true
		}
	}
	if len(legsWithData) >= 2 {
		h.feat["legs>=2 with data"]++
	}
	for _, n := range legsWithData {
		if n >= 2 {
			h.feat["leg with >=2 partitions"]++
			break
		}
	}
	for _, s := range cs.Served {
		if rp.Slicer && len(s.Objs) >= 2 {
			h.feat["partition with >=2 objects"]++
			break
		}
	}
	if len(ev) > 0 && len(rp.Legs) > 0 && strings.HasPrefix(rp.Legs[len(rp.Legs)-1], "H") && len(legsWithData) >= 1 {
		h.feat["leg stopped by lifted head"]++
	}
	if rp.Fan == "combine" {
		h.feat["combine fan-in"]++
	} else if rp.MKey == "k" {
		h.feat["merge on pool key"]++
	}
	if cs.Desc {
		h.feat["desc pool"]++
	}
	h.feat["mode "+cs.Seq.Mode]++
	if len(cs.Taint) > 0 {
		h.feat["tainted in the spec (known defect path)"]++
	}
	c.Eval(fmt.Sprintf("gated|%s|%v|%s|%d|%v", layoutKey(cs.Objs, cs.Desc), cs.Desc, strings.Join(cs.Prog, "|"), cs.N, sched), len(legsWithData) >= 2 || lifted)
	if id%97 == 1 {
		c.Sample(map[string]any{"loads": loads, "desc": cs.Desc, "query": src, "legs": cs.N, "schedule": sched, "mode": cs.Seq.Mode,
			"plan": rp, "trace": tr.Events, "result": rN})
	}
	return nil
}

// altSchedules runs a case whose real plan deviates from the predicted one under the
// schedules of ITS pulls: every sequence of leg names of length objects + legs (each leg
// pulls until it sees the end), at most 12 of them and at most 600 per run.
func (h *harness) altSchedules(cs *caseJ, src string, rp planJ, loads [][]string, plan string, r1 []string, tags []string, id int) {
	var all [][]int
	L := len(cs.Objs) + cs.N
	var rec func(pre []int, named int)
	rec = func(pre []int, named int) {
		if len(pre) == L {
			all = append(all, append([]int(nil), pre...))
			return
		}
		for l := 1; l <= cs.N && l <= named+1; l++ {
			nn := named
			if l > named {
				nn = l
			}
			rec(append(pre, l), nn)
		}
	}
	rec(nil, 0)
	rng := rand.New(rand.NewSource(h.c.Seed*7919 + int64(id)))
	rng.Shuffle(len(all), func(i, j int) { all[i], all[j] = all[j], all[i] })
	if len(all) > 12 {
		all = all[:12]
	}
	for _, sched := range all {
		if h.altRuns >= 600 {
			return
		}
		h.altRuns++
		rN, _, errN := h.e.gated(src, cs.N, rp.Slicer, sched, id)
		w := witness{Loads: loads, Desc: cs.Desc, Prog: cs.Prog, N: cs.N, Schedule: sched, FreshSel: id, Query: src, Plan: plan, Par1: r1, ParN: rN}
		h.oracle(w, cs.Seq.Mode, cs.Seq.ByF, cs.Seq.Det, r1, rN, errN, tags)
		h.c.Eval(fmt.Sprintf("alt|%s|%v|%s|%d|%v", layoutKey(cs.Objs, cs.Desc), cs.Desc, strings.Join(cs.Prog, "|"), cs.N, sched), true)
	}
}

// freeRun repeats replayed cases without the gate at parallelism 2..16 under
// GOMAXPROCS 1, 2 and 16 (in a child process, see child.go).
func (h *harness) freeRun(cases []caseJ, idx []int, rng *rand.Rand) error {
	c := h.c
	per := 60
	if !c.Quick() {
		per = 1500
	}
	t0 := time.Now()
	var jobs []freeJob
	meta := map[string]*caseJ{}
	for _, procs := range []int{1, 2, 16} {
		for k := 0; k < per && len(idx) > 0; k++ {
			cs := &cases[idx[rng.Intn(len(idx))]]
			par := []int{2, 3, 8, 16}[rng.Intn(4)]
			key := fmt.Sprintf("free|%d|%s|%s|%d|%d", len(jobs), layoutKey(cs.Objs, cs.Desc), strings.Join(cs.Prog, "|"), par, procs)
			jobs = append(jobs, freeJob{Key: key, Pool: layoutKey(cs.Objs, cs.Desc), Loads: loadsOf(cs.Objs), Desc: cs.Desc, Prog: cs.Prog, Par: par, Procs: procs})
			meta[key] = cs
		}
	}
	// cases whose legs carry a lifted sort or a streaming group-by over >= 3 objects get
	// repeated runs at >= 3 legs: the heap layout of the fan-in merge and the arrival order
	// at the combine depend on which leg picked up which object
	hotSeen := map[string]bool{}
	maxHot := 10
	if !c.Quick() {
		maxHot = 120
	}
	for _, i := range idx {
		cs := &cases[i]
		hot := false
		for _, l := range cs.Plan.Legs {
			if strings.HasPrefix(l, "S") || strings.HasPrefix(l, "AB") || strings.HasPrefix(l, "AK") {
				hot = true
			}
		}
		k := layoutKey(cs.Objs, cs.Desc) + strings.Join(cs.Prog, "|")
		if !hot || len(cs.Objs) < 2 || hotSeen[k] || len(hotSeen) >= maxHot {
			continue
		}
		hotSeen[k] = true
		for rep := 0; rep < 4; rep++ {
			for _, par := range []int{3, 8} {
				key := fmt.Sprintf("free|%d|%s|%s|%d|%d", len(jobs), layoutKey(cs.Objs, cs.Desc), strings.Join(cs.Prog, "|"), par, 16)
				jobs = append(jobs, freeJob{Key: key, Pool: layoutKey(cs.Objs, cs.Desc), Loads: loadsOf(cs.Objs), Desc: cs.Desc, Prog: cs.Prog, Par: par, Procs: 16})
				meta[key] = cs
			}
		}
	}
	res, err := runFree(jobs)
	if err != nil {
		return err
	}
	for _, j := range jobs {
		r, ok := res[j.Key]
		if !ok {
			continue
		}
		cs := meta[j.Key]
		h.judgeFree(j, r, cs.Seq.Mode, cs.Seq.ByF, cs.Seq.Det)
		c.Eval(j.Key[strings.Index(j.Key[5:], "|")+6:], len(cs.Objs) >= 2)
	}
	c.Set("free_running_runs", len(jobs))
	c.Logf("free-running repeats: %d runs at parallelism 2..16, GOMAXPROCS 1/2/16 (%.1fs)", len(jobs), time.Since(t0).Seconds())
	return nil
}

// judgeFree applies the oracle to one free-running result.
func (h *harness) judgeFree(j freeJob, r freeRes, mode, byf string, det bool) {
	w := witness{Loads: j.Loads, Desc: j.Desc, Thresh: j.Thresh, Prog: j.Prog, N: j.Par, Procs: j.Procs, Query: r.Query, Par1: r.R1, ParN: r.RN}
	if r.Crash {
		w.Err = r.Msg
		w.Query = progText("pool", j.Prog)
		h.c.Violate(h.signature("crash", nil, j.Prog), fmt.Sprintf("`%s` at parallelism %d (GOMAXPROCS %d) kills the process: %s", w.Query, j.Par, j.Procs, r.Msg), w)
		return
	}
	if r.Err1 != "" {
		h.c.Inconclusive("parallelism 1 failed for %s: %s", r.Query, r.Err1)
		return
	}
	var errN error
	if r.ErrN != "" {
		errN = fmt.Errorf("%s", r.ErrN)
	}
	h.oracle(w, mode, byf, det, r.R1, r.RN, errN, r.Tags)
}
