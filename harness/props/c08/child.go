package main

// Free-running queries (no leg scheduler, real goroutine races at GOMAXPROCS
// 1/2/16) run in a child process: a crash of the query -- a panic in one of
// the runtime's goroutines kills the process -- is then a result ("the query
// fails at parallelism N"), not a dead harness.

import (
	"bufio"
	"bytes"
	"context"
	"encoding/json"
	"fmt"
	"os"
	"os/exec"
	"runtime"
	"strings"
	"time"
)

type freeJob struct {
	Key    string     `json:"key"`
	Pool   string     `json:"pool"` // cache key of the pool inside the child
	Loads  [][]string `json:"loads"`
	Desc   bool       `json:"desc"`
	Thresh int64      `json:"thresh"`
	Prog   []string   `json:"prog"`
	Par    int        `json:"par"`
	Procs  int        `json:"procs"`
}

type freeRes struct {
	Ev    string   `json:"ev"` // begin | res | done | fatal
	Key   string   `json:"key,omitempty"`
	R1    []string `json:"r1,omitempty"`
	RN    []string `json:"rn,omitempty"`
	Err1  string   `json:"err1,omitempty"`
	ErrN  string   `json:"errn,omitempty"`
	Tags  []string `json:"tags,omitempty"`
	Query string   `json:"query,omitempty"`
	Nobj  int      `json:"nobj,omitempty"`
	Crash bool     `json:"crash,omitempty"`
	Msg   string   `json:"msg,omitempty"`
}

func childMain() {
	w := bufio.NewWriter(os.Stdout)
	emit := func(r freeRes) {
		b, _ := json.Marshal(r)
		w.Write(b)
		w.WriteByte('\n')
		w.Flush()
	}
	var jobs []freeJob
	if err := json.NewDecoder(os.Stdin).Decode(&jobs); err != nil {
		emit(freeRes{Ev: "fatal", Msg: err.Error()})
		os.Exit(3)
	}
	e, err := newEnv(context.Background())
	if err != nil {
		emit(freeRes{Ev: "fatal", Msg: err.Error()})
		os.Exit(3)
	}
	p0, err := e.buildPool("learn", false, 0, [][]string{{`{k:1,g:"a",u:1,x:1}`}})
	if err == nil {
		err = e.learnOps(p0.name)
	}
	if err != nil {
		emit(freeRes{Ev: "fatal", Msg: err.Error()})
		os.Exit(3)
	}
	for _, j := range jobs {
		p, err := e.buildPool(j.Pool, j.Desc, j.Thresh, j.Loads)
		if err != nil {
			emit(freeRes{Ev: "fatal", Msg: err.Error()})
			os.Exit(3)
		}
		src := progText(p.name, j.Prog)
		emit(freeRes{Ev: "begin", Key: j.Key})
		res := freeRes{Ev: "res", Key: j.Key, Query: src, Nobj: p.nobj}
		runtime.GOMAXPROCS(1)
		r1, err1 := e.query(src, 1)
		res.R1 = r1
		if err1 != nil {
			res.Err1 = err1.Error()
		}
		if seq, err := e.plan(src, j.Par); err == nil {
			_, res.Tags, _ = e.realPlan(seq)
		}
		runtime.GOMAXPROCS(j.Procs)
		rN, errN := e.query(src, j.Par)
		res.RN = rN
		if errN != nil {
			res.ErrN = errN.Error()
		}
		emit(res)
	}
	emit(freeRes{Ev: "done"})
}

// runFree executes the jobs in child processes; a job that kills the child is
// reported with Crash = true and the remaining jobs continue in a new child.
func runFree(jobs []freeJob) (map[string]freeRes, error) {
	out := map[string]freeRes{}
	exe, err := os.Executable()
	if err != nil {
		return nil, err
	}
	rest := jobs
	for attempt := 0; attempt < 50 && len(rest) > 0; attempt++ {
		in, _ := json.Marshal(rest)
		cmd := exec.Command(exe)
		cmd.Env = append(os.Environ(), "VERIF_C08_CHILD=1")
		cmd.Stdin = bytes.NewReader(in)
		var stderr bytes.Buffer
		cmd.Stderr = &stderr
		stdout, err := cmd.StdoutPipe()
		if err != nil {
			return nil, err
		}
		if err := cmd.Start(); err != nil {
			return nil, err
		}
		timer := time.AfterFunc(15*time.Minute, func() { cmd.Process.Kill() })
		sc := bufio.NewScanner(stdout)
		sc.Buffer(make([]byte, 1<<20), 1<<26)
		pending, last, done, ndone := "", "", false, 0
		for sc.Scan() {
			var r freeRes
			if json.Unmarshal(sc.Bytes(), &r) != nil {
				continue
			}
			switch r.Ev {
			case "begin":
				pending = r.Key
			case "res":
				out[r.Key] = r
				pending, last = "", r.Key
				ndone++
			case "done":
				done = true
			case "fatal":
				timer.Stop()
				cmd.Wait()
				return nil, fmt.Errorf("child: %s", r.Msg)
			}
		}
		cmd.Wait()
		timer.Stop()
		if done {
			return out, nil
		}
		msg := stderr.String()
		if i := strings.Index(msg, "\n"); i > 0 {
			msg = msg[:i]
		}
		if pending == "" {
			// the process died between two queries: goroutines of the query that had just
			// delivered its result were still running
			if last == "" {
				return nil, fmt.Errorf("child died before the first query: %.600s", stderr.String())
			}
			out[last] = freeRes{Ev: "res", Key: last, Crash: true, Msg: msg}
			rest = rest[ndone:]
			continue
		}
		out[pending] = freeRes{Ev: "res", Key: pending, Crash: true, Msg: msg}
		rest = rest[ndone+1:]
	}
	return out, nil
}
