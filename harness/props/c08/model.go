package main

// Decoding of the cases exported by TLC from specs/ParScan.tla, rendering of the
// spec's abstract values as ZSON, and the comparisons (exact sequence / tie
// classes of a sort key / multiset) that the spec selects per case.

import (
	"encoding/json"
	"fmt"
	"sort"
	"strconv"
	"strings"

	zed "github.com/brimdata/super"
	"github.com/brimdata/super/zson"
)

// val is the spec's V(t, n).
type val struct {
	T string          `json:"t"`
	N json.RawMessage `json:"n"`
}

type mrow map[string]val

type planJ struct {
	Slicer bool     `json:"slicer"`
	Filter []string `json:"filter"`
	Legs   []string `json:"legs"`
	Fan    string   `json:"fan"`
	MKey   string   `json:"mkey"`
	MDesc  bool     `json:"mdesc"`
	Tail   []string `json:"tail"`
}

type servedJ struct {
	Leg  int   `json:"leg"`
	Objs []int `json:"objs"`
}

type seqJ struct {
	Rows []mrow `json:"rows"`
	Mode string `json:"mode"` // exact | cls | bag
	Det  bool   `json:"det"`
	ByF  string `json:"byf"`
}

type caseJ struct {
	Lay     [][]val   `json:"lay"`  // keys per load (the spec's layout value, echoed back in traces)
	Objs    [][]mrow  `json:"objs"` // rows per object
	Desc    bool      `json:"desc"`
	Prog    []string  `json:"prog"`
	N       int       `json:"n"`
	Plan    planJ     `json:"plan"`
	Lorder  []int     `json:"lorder"`
	Served  []servedJ `json:"served"`
	Seq     seqJ      `json:"seq"`
	ParRows []mrow    `json:"parrows"`
	Taint   []string  `json:"taint"`
	Sens    bool      `json:"sens"`
}

func (v val) int() int {
	var n int
	json.Unmarshal(v.N, &n)
	return n
}

func strOf(n int) string {
	if n == 19 {
		return "s"
	}
	return string(rune('a' + n - 1))
}

// text renders a spec value the way zson.FormatValue renders the real one
// (arrays and sets with their elements sorted as text, see canon()).
func (v val) text() string {
	switch v.T {
	case "int":
		return strconv.Itoa(v.int())
	case "uint":
		return strconv.Itoa(v.int()) + "(uint64)"
	case "str":
		return strconv.Quote(strOf(v.int()))
	case "null":
		return "null"
	case "emiss":
		return `error("missing")`
	case "t0":
		return "1970-01-01T00:00:00Z"
	case "nt":
		return "null(time)"
	case "avg":
		var p []int
		json.Unmarshal(v.N, &p)
		if len(p) != 2 || p[1] == 0 {
			return "null(float64)"
		}
		return zson.FormatValue(zed.NewFloat64(float64(p[0]) / float64(p[1])))
	case "bag":
		var p []int
		json.Unmarshal(v.N, &p)
		if len(p) == 0 {
			return "null"
		}
		el := make([]string, len(p))
		for i, n := range p {
			el[i] = strconv.Itoa(n)
		}
		sort.Strings(el)
		return "[" + strings.Join(el, ",") + "]"
	case "set":
		var p []val
		json.Unmarshal(v.N, &p)
		if len(p) == 0 {
			return "null"
		}
		el := make([]string, len(p))
		for i, e := range p {
			el[i] = e.text()
		}
		sort.Strings(el)
		return "|[" + strings.Join(el, ",") + "]|"
	}
	return "?" + v.T
}

// canonRow is a real or predicted row as field -> canonical text ("_" for a
// non-record value).  Field order is not part of the projection.
type canonRow map[string]string

func (r canonRow) key() string {
	ks := make([]string, 0, len(r))
	for k := range r {
		ks = append(ks, k)
	}
	sort.Strings(ks)
	var b strings.Builder
	for _, k := range ks {
		b.WriteString(k)
		b.WriteByte('=')
		b.WriteString(r[k])
		b.WriteByte(';')
	}
	return b.String()
}

func specRows(rows []mrow) []canonRow {
	out := make([]canonRow, len(rows))
	for i, r := range rows {
		c := canonRow{}
		for f, v := range r {
			c[f] = v.text()
		}
		out[i] = c
	}
	return out
}

// canon renders a real value with array and set elements sorted as text
// (collect() gathers in arrival order, which no program defines).
func canon(v zed.Value) string {
	switch typ := zed.TypeUnder(v.Type()).(type) {
	case *zed.TypeArray, *zed.TypeSet:
		if v.IsNull() {
			return "null"
		}
		var el []string
		inner := zed.InnerType(typ)
		for it := v.Iter(); !it.Done(); {
			el = append(el, canon(zed.NewValue(inner, it.Next()).Under()))
		}
		sort.Strings(el)
		if _, ok := typ.(*zed.TypeSet); ok {
			return "|[" + strings.Join(el, ",") + "]|"
		}
		return "[" + strings.Join(el, ",") + "]"
	}
	return zson.FormatValue(v)
}

// realRows projects result rows (ZSON text) onto canonRows and also returns
// the order-normalized full text of each row (field order kept).
func realRows(rows []string) ([]canonRow, []string, error) {
	zctx := zed.NewContext()
	out := make([]canonRow, len(rows))
	norm := make([]string, len(rows))
	for i, s := range rows {
		v, err := zson.ParseValue(zctx, s)
		if err != nil {
			return nil, nil, fmt.Errorf("parse result %q: %w", s, err)
		}
		c := canonRow{}
		if rt := zed.TypeRecordOf(v.Type()); rt != nil && !v.IsNull() {
			var parts []string
			it := v.Iter()
			for _, f := range rt.Fields {
				fv := zed.NewValue(f.Type, it.Next())
				t := canon(fv)
				c[f.Name] = t
				parts = append(parts, f.Name+":"+t)
			}
			norm[i] = "{" + strings.Join(parts, ",") + "}"
		} else {
			c["_"] = canon(v)
			norm[i] = c["_"]
		}
		out[i] = c
	}
	return out, norm, nil
}

// class is the tie class of a row under a comparator on field f (nulls,
// error("missing") and absent fields tie; the harness domain has no two
// different values that compare equal otherwise).
func class(r canonRow, f string) string {
	t, ok := r[f]
	if !ok || t == "null" || t == `error("missing")` || strings.HasPrefix(t, "null(") {
		return "~null"
	}
	return t
}

func multisetEq(a, b []string) bool {
	if len(a) != len(b) {
		return false
	}
	x := append([]string(nil), a...)
	y := append([]string(nil), b...)
	sort.Strings(x)
	sort.Strings(y)
	for i := range x {
		if x[i] != y[i] {
			return false
		}
	}
	return true
}

func seqEq(a, b []string) bool {
	if len(a) != len(b) {
		return false
	}
	for i := range a {
		if a[i] != b[i] {
			return false
		}
	}
	return true
}

// compare decides whether result b is the same as reference a under mode.
// It returns "" or the kind of difference: "multiset" or "order".
func compare(mode, byf string, a, b []canonRow, an, bn []string) string {
	if !multisetEq(an, bn) {
		return "multiset"
	}
	switch mode {
	case "exact":
		if !seqEq(an, bn) {
			return "order"
		}
	case "cls":
		for i := range a {
			if class(a[i], byf) != class(b[i], byf) {
				return "order"
			}
		}
	}
	return ""
}

func keys(rows []canonRow) []string {
	out := make([]string, len(rows))
	for i, r := range rows {
		out[i] = r.key()
	}
	return out
}

// ---- programs

var opText = map[string]string{
	"WG": `where g=="a"`, "WK": `where k>=2`,
	"CK": `cut k,u,g`, "CU": `cut u,g`, "CZ": `cut z:=k,u`,
	"PY": `put y:=u+10`, "PK": `put k:=u`, "RZ": `rename z:=k`, "DK": `drop k`, "DX": `drop x`,
	"SU": `sort u`, "SR": `sort -r u`, "SG": `sort g`, "SX": `sort x`, "SXR": `sort -r x`,
	"H1": `head 1`, "H2": `head 2`, "T1": `tail 1`, "T2": `tail 2`, "UQ": `uniq`, "YU": `yield u`,
	"AG": `a:=count() by g`, "AK": `a:=count() by k`, "AB": `a:=count() by k:=bucket(k,2)`, "XG": `a:=sum(x) by g`, "XK": `a:=sum(x) by k`,
	"VG": `a:=avg(x) by g`, "LG": `a:=collect(u) by g`, "UK": `a:=union(g) by k`,
	"A0": `count()`, "X0": `sum(x)`,
}

func progText(pool string, prog []string) string {
	parts := []string{"from " + pool}
	for _, op := range prog {
		t, ok := opText[op]
		if !ok {
			panic("unknown op token " + op)
		}
		parts = append(parts, t)
	}
	return strings.Join(parts, " | ")
}

// ---- layouts

func (v val) zson() (string, bool) {
	switch v.T {
	case "abs":
		return "", false
	case "null":
		return "null", true
	case "int":
		return strconv.Itoa(v.int()), true
	case "str":
		return strconv.Quote(strOf(v.int())), true
	}
	panic("layout value " + v.T)
}

// rowZSON renders a base row {k,g,u,x} (absent fields omitted).
func rowZSON(r mrow) string {
	var parts []string
	for _, f := range []string{"k", "g", "u", "x"} {
		if v, ok := r[f]; ok {
			if t, ok := v.zson(); ok {
				parts = append(parts, f+":"+t)
			}
		}
	}
	return "{" + strings.Join(parts, ",") + "}"
}

func layoutKey(objs [][]mrow, desc bool) string {
	var b strings.Builder
	fmt.Fprintf(&b, "%v|", desc)
	for _, o := range objs {
		for _, r := range o {
			b.WriteString(rowZSON(r))
		}
		b.WriteByte('/')
	}
	return b.String()
}
