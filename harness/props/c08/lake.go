package main

// Real pools, real queries at a chosen parallelism (free-running or with the
// leg scheduler of gate.go), and the projection of the real parallel plan
// onto the plan vocabulary of specs/ParScan.tla.

import (
	"context"
	"fmt"
	"regexp"
	"sort"
	"strings"

	zed "github.com/brimdata/super"
	"github.com/brimdata/super/compiler"
	"github.com/brimdata/super/compiler/ast/dag"
	"github.com/brimdata/super/compiler/data"
	"github.com/brimdata/super/compiler/parser"
	"github.com/brimdata/super/lakeparse"
	"github.com/brimdata/super/order"
	"github.com/brimdata/super/pkg/storage"
	"github.com/brimdata/super/runtime"
	"github.com/brimdata/super/zfmt"
	"github.com/segmentio/ksuid"

	"verif/lakeh"
)

type pool struct {
	name   string
	id     ksuid.KSUID
	desc   bool
	objIdx map[string]int // object KSUID -> load number (1-based); with thresh=1: 100*load + ordinal
	nobj   int
}

type env struct {
	ctx   context.Context
	lk    *lakeh.Lake
	src   *data.Source
	pools map[string]*pool
	seq   int
	learn map[string]string // real op text -> spec token
}

func newEnv(ctx context.Context) (*env, error) {
	lk, err := lakeh.Create(ctx, lakeh.NewMemStore(), 0, nil)
	if err != nil {
		return nil, err
	}
	return &env{ctx: ctx, lk: lk, src: data.NewSource(storage.NewRemoteEngine(), lk.Root), pools: map[string]*pool{}}, nil
}

// buildPool creates a pool with one load per element of loads (ZSON rows).
// thresh = 0: one data object per load; thresh = 1: one object per value.
func (e *env) buildPool(key string, desc bool, thresh int64, loads [][]string) (*pool, error) {
	if p, ok := e.pools[key]; ok {
		return p, nil
	}
	e.seq++
	p := &pool{name: fmt.Sprintf("p%d", e.seq), desc: desc, objIdx: map[string]int{}}
	dir := "asc"
	if desc {
		dir = "desc"
	}
	id, err := e.lk.CreatePool(e.ctx, p.name, "k", dir, 0, thresh)
	if err != nil {
		return nil, err
	}
	p.id = id
	for i, rows := range loads {
		if _, err := e.lk.LoadZSON(e.ctx, id, "main", strings.Join(rows, "\n")); err != nil {
			return nil, fmt.Errorf("load %d: %w", i+1, err)
		}
		objs, err := e.lk.Objects(e.ctx, p.name, "main")
		if err != nil {
			return nil, err
		}
		var fresh []string
		for _, o := range objs {
			if _, ok := p.objIdx[o.ID]; !ok {
				fresh = append(fresh, o.ID)
			}
		}
		if thresh == 0 && len(fresh) != 1 {
			return nil, fmt.Errorf("load %d of pool %s created %d objects, expected 1", i+1, p.name, len(fresh))
		}
		sort.Strings(fresh)
		for j, id := range fresh {
			if thresh == 0 {
				p.objIdx[id] = i + 1
			} else {
				p.objIdx[id] = 100*(i+1) + j
			}
		}
		p.nobj += len(fresh)
	}
	e.pools[key] = p
	return p, nil
}

// job compiles src the way compiler.NewLakeQuery does and returns the DAG.
func (e *env) plan(src string, par int) (dag.Seq, error) {
	seq, _, err := parser.ParseSuperPipe(nil, src)
	if err != nil {
		return nil, err
	}
	rctx := runtime.NewContext(e.ctx, zed.NewContext())
	defer rctx.Cancel()
	job, err := compiler.NewJob(rctx, seq, e.src, nil)
	if err != nil {
		return nil, err
	}
	if err := job.Optimize(); err != nil {
		return nil, err
	}
	if par > 1 {
		if err := job.Parallelize(par); err != nil {
			return nil, err
		}
	}
	return job.Entry(), nil
}

// query runs src at the given parallelism through compiler.NewLakeCompiler(root).
// NewLakeQuery -- the observation point named by the property -- and tears the
// flowgraph down afterwards.  A panic inside the query's own goroutine is
// returned as an error.
func (e *env) query(src string, par int) (rows []string, err error) {
	defer func() {
		if r := recover(); r != nil {
			err = fmt.Errorf("panic: %v", r)
		}
	}()
	seq, _, perr := parser.ParseSuperPipe(nil, src)
	if perr != nil {
		return nil, perr
	}
	rctx := runtime.NewContext(e.ctx, zed.NewContext())
	defer rctx.Cancel()
	q, qerr := compiler.NewLakeCompiler(e.lk.Root).NewLakeQuery(rctx, seq, par, (*lakeparse.Commitish)(nil))
	if qerr != nil {
		return nil, qerr
	}
	return lakeh.Drain(q)
}

// gated runs src at parallelism par with the leg scheduler following schedule.
func (e *env) gated(src string, par int, slicer bool, schedule []int, freshSel int) ([]string, []pullEvent, error) {
	site := "meta.Lister.Pull.enter"
	if slicer {
		site = "meta.Slicer.Pull.enter"
	}
	g := newGate(site, schedule, freshSel)
	g.start()
	rows, err := e.query(src, par)
	ev, gerr := g.finish()
	if err == nil {
		err = gerr
	}
	return rows, ev, err
}

// ---- projection of the real plan

var (
	reSumFlags = regexp.MustCompile(` (partials-out|partials-in|sort-dir -?\d+)`)
	reSpace    = regexp.MustCompile(`\s+`)
)

// opKey is the text of one DAG operator without the attributes the planner adds.
func opKey(op dag.Op) (text, part string) {
	t := zfmt.DAG(dag.Seq{op})
	if s, ok := op.(*dag.Summarize); ok {
		if s.PartialsOut {
			part = "out"
		}
		if s.PartialsIn {
			part = "in"
		}
		t = reSumFlags.ReplaceAllString(t, "")
	}
	return strings.TrimSpace(reSpace.ReplaceAllString(t, " ")), part
}

// learnOps compiles every operator of the alphabet alone (parallelism 1) and
// remembers how the real planner prints it.
func (e *env) learnOps(poolName string) error {
	e.learn = map[string]string{}
	for tok := range opText {
		seq, err := e.plan(progText(poolName, []string{tok}), 1)
		if err != nil {
			return fmt.Errorf("learn %s: %w", tok, err)
		}
		var texts []string
		for _, op := range seq {
			switch op := op.(type) {
			case *dag.Lister, *dag.Slicer, *dag.Output:
			case *dag.SeqScan:
				if op.Filter != nil {
					texts = append(texts, "filter "+zfmt.DAGExpr(op.Filter))
				}
			default:
				t, _ := opKey(op)
				texts = append(texts, t)
			}
		}
		switch tok {
		case "A0", "X0": // summarize | yield
			if len(texts) != 2 {
				return fmt.Errorf("learn %s: expected summarize|yield, got %q", tok, texts)
			}
			e.learn[texts[0]] = tok + "s"
			e.learn[texts[1]] = "Ya"
		default:
			if len(texts) != 1 {
				return fmt.Errorf("learn %s: expected one operator, got %q", tok, texts)
			}
			e.learn[texts[0]] = tok
			if strings.HasPrefix(texts[0], "filter ") {
				// the same predicate as a dag.Filter operator that is not pushed into the scan
				e.learn["where "+strings.TrimPrefix(texts[0], "filter ")] = tok
			}
		}
	}
	return nil
}

func (e *env) tokens(ops []dag.Op) []string {
	var out []string
	for _, op := range ops {
		switch op.(type) {
		case *dag.Output, *dag.Pass:
			continue
		}
		t, part := opKey(op)
		tok, ok := e.learn[t]
		if !ok {
			tok = "?" + t
		}
		if part != "" {
			tok += ":" + part
		}
		out = append(out, tok)
	}
	return out
}

// realPlan projects the parallelized DAG onto the spec's plan record.
func (e *env) realPlan(seq dag.Seq) (planJ, []string, error) {
	var pl planJ
	var tags []string
	i := 0
	if _, ok := seq[i].(*dag.Lister); !ok {
		return pl, nil, fmt.Errorf("plan does not start with a lister: %s", zfmt.DAG(seq))
	}
	i++
	if _, ok := seq[i].(*dag.Slicer); ok {
		pl.Slicer = true
		i++
	}
	sc, ok := seq[i].(*dag.Scatter)
	if !ok {
		return pl, nil, fmt.Errorf("no scatter after the source: %s", zfmt.DAG(seq))
	}
	i++
	leg := sc.Paths[0]
	scan, ok := leg[0].(*dag.SeqScan)
	if !ok {
		return pl, nil, fmt.Errorf("leg does not start with a seqscan: %s", zfmt.DAG(seq))
	}
	if scan.Filter != nil {
		ft := zfmt.DAGExpr(scan.Filter)
		for _, tok := range []string{"WG", "WK"} {
			for t, k := range e.learn {
				if k == tok && strings.HasPrefix(t, "filter ") {
					for n := strings.Count(ft, strings.TrimPrefix(t, "filter ")); n > 0; n-- {
						pl.Filter = append(pl.Filter, tok)
					}
				}
			}
		}
		if n := strings.Count(ft, " and ") + 1; n != len(pl.Filter) {
			pl.Filter = append(pl.Filter, "?"+ft)
		}
	}
	pl.Legs = e.tokens(leg[1:])
	switch m := seq[i].(type) {
	case *dag.Merge:
		pl.Fan = "merge"
		if this, ok := m.Expr.(*dag.This); ok {
			pl.MKey = strings.Join(this.Path, ".")
		} else {
			pl.MKey = "?" + zfmt.DAGExpr(m.Expr)
		}
		pl.MDesc = m.Order == order.Desc
		i++
		// known defect patterns, recognized on the real plan
		for _, op := range leg[1:] {
			if c, ok := op.(*dag.Cut); ok {
				has := false
				for _, a := range c.Args {
					if l, ok := a.LHS.(*dag.This); ok && strings.Join(l.Path, ".") == pl.MKey {
						has = true
					}
				}
				if !has {
					tags = append(tags, "merge-key-cut-away")
				}
			}
		}
		if s, ok := leg[len(leg)-1].(*dag.Sort); ok && len(s.Args) == 1 {
			// runtime/sam/op/sort setComparator
			desc := (s.Args[0].Order == order.Desc) != s.Reverse
			nullsMax := !s.NullsFirst
			if desc {
				nullsMax = !nullsMax
			}
			if !nullsMax { // the merge comparator is always nullsMax
				tags = append(tags, "merge-nulls-vs-sort")
			}
		}
	case *dag.Combine:
		pl.Fan = "combine"
		i++
	default:
		return pl, nil, fmt.Errorf("no merge/combine after the scatter: %s", zfmt.DAG(seq))
	}
	pl.Tail = e.tokens(seq[i:])
	// the partials-in half of `count() by k:=bucket(k,2)` groups the partials by the key the
	// legs computed and prints as `count() by k:=k`: name it after the operator it is half of
	if n := len(pl.Legs); n > 0 && pl.Legs[n-1] == "AB:out" && len(pl.Tail) > 0 && pl.Tail[0] == "AK:in" {
		pl.Tail[0] = "AB:in"
	}
	return pl, tags, nil
}

func samePlan(a, b planJ) bool {
	return a.Slicer == b.Slicer && seqEq(a.Filter, b.Filter) && seqEq(a.Legs, b.Legs) && a.Fan == b.Fan &&
		a.MKey == b.MKey && a.MDesc == b.MDesc && seqEq(a.Tail, b.Tail)
}
