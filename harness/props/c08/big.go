package main

// Trace validation by TLC (specs/ParScanTrace.tla), larger generated pools, and
// --replay.

import (
	"encoding/json"
	"fmt"
	"math/rand"
	"os"
	"runtime"
	"strings"
	"time"

	"verif/core"
)

type bigJ struct {
	ID   int      `json:"id"`
	Lay  [][]val  `json:"lay"`
	Desc bool     `json:"desc"`
	Prog []string `json:"prog"`
}

type bigVerdict struct {
	ID     int      `json:"id"`
	Objs   [][]mrow `json:"objs"`
	Plan   planJ    `json:"plan"`
	Lorder []int    `json:"lorder"`
	Seq    seqJ     `json:"seq"`
}

type traceVerdict struct {
	ID       int  `json:"id"`
	OK       bool `json:"ok"`
	Bad      int  `json:"bad"`
	Dup      bool `json:"dup"`
	Terminal bool `json:"terminal"`
	Par      struct {
		Rows  []mrow   `json:"rows"`
		Det   bool     `json:"det"`
		Taint []string `json:"taint"`
	} `json:"par"`
}

func mkVal(t string, n int) val { return val{T: t, N: json.RawMessage(fmt.Sprint(n))} }

var keyDom = []val{mkVal("int", 1), mkVal("int", 2), mkVal("int", 3), mkVal("str", 19), mkVal("null", 0), mkVal("abs", 0)}

// programs whose plans cover every fan-in kind; all are in the spec's alphabet
var bigProgs = [][]string{{}, {"WG"}, {"WK"}, {"H2"}, {"T2"}, {"CK", "T2"}, {"PY", "H2"}, {"SU"}, {"SR", "H2"}, {"SG"}, {"AG"}, {"AK"}, {"XG"},
	{"VG"}, {"LG"}, {"UK"}, {"A0"}, {"X0"}, {"WK", "AK"}, {"UQ"}, {"AG", "SG"}, {"RZ", "T1"}, {"DK", "H2"}, {"YU", "H2"}, {"AK", "T2"}, {"XK"}, {"WG", "A0"}}

func (h *harness) genBigs(rng *rand.Rand) []bigJ {
	nlay, nprog := 2, 10
	if !h.c.Quick() {
		nlay, nprog = 10, len(bigProgs)
	}
	var out []bigJ
	for l := 0; l < nlay; l++ {
		var lay [][]val
		nobj := 5 + rng.Intn(5)
		for o := 0; o < nobj; o++ {
			var keys []val
			for k := 1 + rng.Intn(2); k > 0; k-- {
				keys = append(keys, keyDom[rng.Intn(len(keyDom))])
			}
			lay = append(lay, keys)
		}
		desc := rng.Intn(2) == 1
		for _, pi := range rng.Perm(len(bigProgs))[:nprog] {
			out = append(out, bigJ{ID: len(out) + 1, Lay: lay, Desc: desc, Prog: bigProgs[pi]})
		}
	}
	return out
}

func (h *harness) validate(bigs []bigJ, rng *rand.Rand) error {
	c := h.c
	t0 := time.Now()
	res := c.MustHold(core.TLCRun{Module: "ParScanTrace", Cfg: "ParScanTrace.cfg", Workers: 1, Timeout: 15 * time.Minute,
		Files: map[string][]byte{"traces.ndjson": core.NDJSON(h.traces), "bigs.ndjson": core.NDJSON(bigs)},
		Keep:  []string{"verdicts.ndjson", "bigverdicts.ndjson"}})
	if res == nil {
		return nil
	}
	vs, err := core.ReadNDJSON[traceVerdict](res, "verdicts.ndjson")
	if err != nil {
		return err
	}
	if len(vs) != len(h.traces) {
		c.Inconclusive("TLC returned %d verdicts for %d traces", len(vs), len(h.traces))
		return nil
	}
	accepted, predicted := 0, 0
	for _, v := range vs {
		r := h.byID[v.ID]
		if r == nil {
			continue
		}
		if !v.OK {
			c.Drift("trace: `%s` desc=%v n=%d: the spec cannot take event %d (duplicate object: %v) of the recorded pulls %v", strings.Join(r.cs.Prog, "|"), r.cs.Desc, r.cs.N, v.Bad, v.Dup, h.traces[v.ID-1].Events)
			continue
		}
		accepted++
		if h.traces[v.ID-1].Want && v.Terminal && r.cs.Seq.Det && len(v.Par.Taint) == 0 && v.Par.Det {
			predicted++
			pw := specRows(v.Par.Rows)
			if d := compare(r.cs.Seq.Mode, r.cs.Seq.ByF, pw, r.rN, keys(pw), keys(r.rN)); d != "" {
				c.Drift("parallel semantics (observed schedule): `%s` desc=%v n=%d pulls %v: spec predicts %v, real %v (%s)", strings.Join(r.cs.Prog, "|"), r.cs.Desc, r.cs.N, h.traces[v.ID-1].Events, keys(pw), r.rNn, d)
			}
		}
	}
	c.Add("traces_validated_against_impl", int64(accepted))
	c.Set("traces_recorded", len(h.traces))
	c.Set("observed_schedule_predictions_compared", predicted)
	c.Logf("TLC replayed %d recorded hook traces through PullStep: %d accepted; %d results predicted for the observed schedule (%.1fs)", len(vs), accepted, predicted, time.Since(t0).Seconds())

	bv, err := core.ReadNDJSON[bigVerdict](res, "bigverdicts.ndjson")
	if err != nil {
		return err
	}
	return h.runBigs(bigs, bv, rng)
}

// runBigs: pools with more objects than TLC explores; one object per load and
// the thresh=1 variant (one object per value); free-running at 2..16 legs.
func (h *harness) runBigs(bigs []bigJ, bv []bigVerdict, rng *rand.Rand) error {
	c, e := h.c, h.e
	t0 := time.Now()
	reps := 1
	if !c.Quick() {
		reps = 3
	}
	var jobs []freeJob
	meta := map[string]*bigVerdict{}
	for i := range bv {
		v := &bv[i]
		b := bigs[i]
		loads := loadsOf(v.Objs)
		// binding of the sequential semantics on the large pool (in-process, parallelism 1)
		if v.Seq.Det {
			p, err := e.buildPool("big|"+layoutKey(v.Objs, b.Desc), b.Desc, 0, loads)
			if err != nil {
				return err
			}
			src := progText(p.name, b.Prog)
			r1, err := e.query(src, 1)
			if err != nil {
				return fmt.Errorf("%s at parallelism 1: %w", src, err)
			}
			a, _, err := realRows(r1)
			if err != nil {
				return err
			}
			want := specRows(v.Seq.Rows)
			if d := compare(v.Seq.Mode, v.Seq.ByF, want, a, keys(want), keys(a)); d != "" {
				c.Drift("semantics (large pool): `%s` over %v desc=%v: spec %v real %v (%s)", strings.Join(b.Prog, "|"), loads, b.Desc, keys(want), clip(r1), d)
			}
		}
		for _, thresh := range []int64{0, 1} {
			for rep := 0; rep < reps; rep++ {
				for _, par := range []int{2, 3, 8, 16} {
					procs := []int{1, 2, 16}[rng.Intn(3)]
					key := fmt.Sprintf("big|%d|%d|%s|%s|%d|%d", len(jobs), thresh, layoutKey(v.Objs, b.Desc), strings.Join(b.Prog, "|"), par, procs)
					// with thresh = 1 the objects differ from the layout the spec evaluated; the rows
					// and hence the sequential semantics (which comparison applies) are the same
					jobs = append(jobs, freeJob{Key: key, Pool: fmt.Sprintf("big|%d|%s", thresh, layoutKey(v.Objs, b.Desc)), Loads: loads, Desc: b.Desc, Thresh: thresh, Prog: b.Prog, Par: par, Procs: procs})
					meta[key] = v
				}
			}
		}
	}
	res, err := runFree(jobs)
	if err != nil {
		return err
	}
	sampled := false
	for _, j := range jobs {
		r, ok := res[j.Key]
		if !ok {
			continue
		}
		v := meta[j.Key]
		h.judgeFree(j, r, v.Seq.Mode, v.Seq.ByF, v.Seq.Det)
		c.Eval(j.Key, true)
		if !sampled && j.Thresh == 1 && !r.Crash {
			sampled = true
			c.Sample(map[string]any{"large_pool_objects": r.Nobj, "desc": j.Desc, "query": r.Query, "parallelism": j.Par, "gomaxprocs": j.Procs, "mode": v.Seq.Mode, "result": r.RN})
		}
	}
	c.Set("large_pool_runs", len(jobs))
	c.Logf("large pools: %d (pool, program) pairs, %d free-running runs (%.1fs)", len(bv), len(jobs), time.Since(t0).Seconds())
	return nil
}

func (h *harness) replay() error {
	c, e := h.c, h.e
	var w witness
	sig, err := c.ReplayWitness(&w)
	if err != nil {
		return err
	}
	p, err := e.buildPool("replay", w.Desc, w.Thresh, w.Loads)
	if err != nil {
		return err
	}
	src := progText(p.name, w.Prog)
	r1, err := e.query(src, 1)
	if err != nil {
		return err
	}
	seq, err := e.plan(src, w.N)
	if err != nil {
		return err
	}
	rp, tags, err := e.realPlan(seq)
	if err != nil {
		return err
	}
	if w.Procs > 0 {
		runtime.GOMAXPROCS(w.Procs)
	}
	fmt.Fprintf(os.Stderr, "replaying %s (%s) at parallelism %d, schedule %v\n", src, sig, w.N, w.Schedule)
	for i := 0; i < 20; i++ {
		var rN []string
		var errN error
		if len(w.Schedule) > 0 {
			rN, _, errN = e.gated(src, w.N, rp.Slicer, w.Schedule, w.FreshSel+i)
		} else {
			rN, errN = e.query(src, w.N)
		}
		w2 := w
		w2.Query, w2.Par1, w2.ParN = src, r1, rN
		mode := w.Mode
		if mode == "" {
			mode = "bag"
		}
		h.oracle(w2, mode, w.ByF, true, r1, rN, errN, tags)
		if c.Violations() > 0 {
			fmt.Printf("par1: %v\nparN: %v\n", r1, rN)
			break
		}
	}
	return nil
}
