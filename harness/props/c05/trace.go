package main

import (
	"bytes"
	"encoding/json"
	"fmt"
	"math/rand"
	"regexp"
	"runtime"
	"strconv"
	"sync"
	"sync/atomic"
	"time"

	zed "github.com/brimdata/super"

	"verif/core"
)

// TEvent is one line of trace.ndjson (see TypeContextTrace.tla).
type TEvent struct {
	E  string   `json:"e"`
	P  int      `json:"p"`
	M  string   `json:"m"`
	OT Term     `json:"ot"`
	NM string   `json:"nm"`
	B  int      `json:"b"`
	R  int      `json:"r"`
	RB []string `json:"rb"`
}

func (e TEvent) MarshalJSON() ([]byte, error) {
	type plain TEvent
	p := plain(e)
	if p.RB == nil {
		p.RB = []string{}
	}
	if p.OT.K == "" {
		p.OT = noT
	}
	return json.Marshal(p)
}

var noT = Term{K: "none"}

// history is one recorded execution of the real context.
type history struct {
	Kind     string   `json:"kind"` // "seq" | "stress"
	Universe int      `json:"universe"`
	Seed     int64    `json:"seed"`
	Events   []TEvent `json:"events"`
	first    int      // index of its reset event in the concatenated trace
}

// refFree reports that no type name occurs twice in t: decoding its type value
// never resolves a name reference, so concurrent decoders cannot disturb it.
func refFree(t Term) bool {
	seen := map[string]int{}
	var walk func(t Term)
	walk = func(t Term) {
		if t.K == "named" {
			seen[t.S[0]]++
		}
		for _, c := range t.C {
			walk(c)
		}
	}
	walk(t)
	for _, n := range seen {
		if n > 1 {
			return false
		}
	}
	return true
}

// seqHistory runs one seeded random sequential history on a fresh real
// context, evaluating the oracles, and records it for validation by TLC.
func seqHistory(c *core.Ctx, targets []Term, seed int64, n int, tvSeen map[string][]byte) (*history, *world) {
	rng := rand.New(rand.NewSource(seed))
	u := newUniverse(rng.Intn(numUniverses))
	h := &history{Kind: "seq", Universe: u.Idx, Seed: seed}
	w := newWorld(c, u, nil)
	w.witness = map[string]any{"kind": "history", "history": h}
	h.Events = append(h.Events, TEvent{E: "reset"})
	nbuf := 0
	live := []int{}
	methods := []string{"fields", "fields", "fields", "value", "value", "translate", "translate", "decode", "decode", "tval", "tval", "tdef", "reuse", "reuse", "reset"}
	for k := 0; k < n; k++ {
		var ev Event
		for try := 0; try < 50; try++ {
			m := methods[rng.Intn(len(methods))]
			t := targets[rng.Intn(len(targets))]
			ev = Event{E: "call", P: 1, M: m, OT: &t}
			ok := true
			switch m {
			case "fields":
				if dupInside(t) && !(t.K == "rec" && hasDup(t.S)) {
					ok = false
				}
				for _, kid := range t.C {
					if w.find(kid) == nil {
						ok = false
					}
				}
			case "tval":
				ok = w.find(t) != nil
			case "tdef":
				ev.OT = nil
				ev.NM = []string{"m", "n"}[rng.Intn(2)]
			case "reset":
				ev.OT = nil
				ok = k > 2
			case "reuse":
				ok = len(live) > 0
			case "translate":
				ok = !dupInside(t)
			}
			if ok {
				break
			}
			ev = Event{}
		}
		if ev.E == "" {
			continue
		}
		if ev.M == "reuse" {
			i := rng.Intn(len(live))
			b := live[i]
			live = append(live[:i], live[i+1:]...)
			for j := range w.bufs[b] {
				w.bufs[b][j] = 0xA5
			}
			h.Events = append(h.Events, TEvent{E: "reuse", B: b})
			w.observe()
			continue
		}
		if ev.M == "value" {
			nbuf++
			ev.B = nbuf
			live = append(live, nbuf)
		}
		run, err := w.prepare(ev)
		if err != nil {
			continue
		}
		inv := TEvent{E: "inv", P: 1, M: ev.M, NM: ev.NM, B: ev.B}
		if ev.OT != nil {
			inv.OT = *ev.OT
		}
		r := run()
		resp := TEvent{E: "resp", P: 1, R: w.sid(r.typ)}
		if r.err != nil {
			resp.R = 0
		}
		if ev.M == "tval" {
			resp.RB = u.tokens(r.bytes)
		}
		h.Events = append(h.Events, inv, resp)
		pred := ev
		pred.R = resp.R
		pred.RB = resp.RB
		w.checkResult(pred, ev, r) // oracle only: prediction = observation
		w.observe()
	}
	w.clientFuse()
	w.finalOracles(tvSeen)
	return h, w
}

// stressHistory runs G goroutines against one shared real context.  Every
// call is logged with an invocation and a response event in a global order.
//
// same = contention mode: every goroutine issues the same calls, released
// together by a barrier before each call, so that several goroutines try to
// create the same type at the same moment.
func stressHistory(c *core.Ctx, targets []Term, seed int64, G, perG int, same bool, tvSeen map[string][]byte) (*history, *world) {
	rng := rand.New(rand.NewSource(seed))
	u := newUniverse(rng.Intn(numUniverses))
	h := &history{Kind: "stress", Universe: u.Idx, Seed: seed}
	if same {
		h.Kind = "contention"
	}
	w := newWorld(c, u, nil)
	w.witness = map[string]any{"kind": "history", "history": h}
	w.overlap = true
	h.Events = append(h.Events, TEvent{E: "reset"})
	var safe []Term
	for _, t := range targets {
		if !dupInside(t) { // name references included: bindings are scoped to the decoder since e3c8e5c33
			safe = append(safe, t)
		}
	}
	// Plans are drawn up front so that the history's content depends on the
	// seed only; the interleaving is the scheduler's.
	type planned struct {
		m  string
		t  Term
		nm string
	}
	plans := make([][]planned, G)
	for g := range plans {
		for k := 0; k < perG; k++ {
			m := []string{"fields", "fields", "value", "translate", "decode", "tval", "tdef"}[rng.Intn(7)]
			plans[g] = append(plans[g], planned{m: m, t: safe[rng.Intn(len(safe))], nm: []string{"m", "n"}[rng.Intn(2)]})
		}
		if same && g > 0 {
			plans[g] = plans[0]
		}
	}
	var arrived atomic.Int64
	barrier := func(k int) {
		if !same {
			return
		}
		arrived.Add(1)
		for arrived.Load() < int64((k+1)*G) {
			runtime.Gosched()
		}
	}
	var logMu sync.Mutex
	var bufMu sync.Mutex
	nbuf := 0
	type oracleItem struct {
		ev Event
		r  callResult
	}
	results := make([][]oracleItem, G)
	var wg sync.WaitGroup
	start := make(chan struct{})
	for g := 0; g < G; g++ {
		wg.Add(1)
		go func(g int) {
			defer wg.Done()
			own := map[string]zed.Type{} // types this goroutine holds pointers to
			<-start
			for k, pl := range plans[g] {
				ev := Event{E: "call", P: g + 1, M: pl.m, OT: &pl.t}
				var run func() callResult
				switch pl.m {
				case "fields":
					var kids []zed.Type
					ok := true
					for _, kid := range pl.t.C {
						if kid.K == "prim" {
							kids = append(kids, u.prim(kid.S[0]))
						} else if k := own[normKey(u.real(kid))]; k != nil {
							kids = append(kids, k)
						} else {
							ok = false
						}
					}
					if !ok {
						// create the type by translation instead: always possible
						ev.M = "translate"
					} else {
						t := pl.t
						run = func() callResult {
							typ, err := u.lookup(w.ctx, t, kids)
							return callResult{typ: typ, err: err}
						}
					}
				case "tval":
					typ := own[normKey(u.real(pl.t))]
					if typ == nil {
						ev.M = "decode"
					} else {
						run = func() callResult {
							return callResult{typ: typ, bytes: w.ctx.LookupTypeValue(typ).Bytes()}
						}
					}
				case "tdef":
					ev.OT = nil
					ev.NM = pl.nm
				}
				if run == nil {
					if ev.M == "value" {
						bufMu.Lock()
						nbuf++
						ev.B = nbuf
						bufMu.Unlock()
					}
					// prepare touches w.src and w.bufs: serialize it
					bufMu.Lock()
					r, err := w.prepare(ev)
					bufMu.Unlock()
					if err != nil {
						barrier(k)
						continue
					}
					run = r
				}
				inv := TEvent{E: "inv", P: g + 1, M: ev.M, NM: ev.NM, B: ev.B}
				if ev.OT != nil {
					inv.OT = *ev.OT
				}
				logMu.Lock()
				h.Events = append(h.Events, inv)
				logMu.Unlock()
				barrier(k)
				r := run()
				resp := TEvent{E: "resp", P: g + 1, R: w.sid(r.typ)}
				if r.err != nil {
					resp.R = 0
				}
				if ev.M == "tval" {
					resp.RB = u.tokens(r.bytes)
				}
				logMu.Lock()
				h.Events = append(h.Events, resp)
				logMu.Unlock()
				if r.typ != nil && ev.M != "tdef" {
					own[normKey(u.describe(r.typ))] = r.typ
				}
				results[g] = append(results[g], oracleItem{ev, r})
			}
		}(g)
	}
	close(start)
	wg.Wait()
	for g := range results {
		for _, it := range results[g] {
			pred := it.ev
			pred.R = w.sid(it.r.typ)
			if it.r.err != nil {
				pred.R = 0
			}
			if it.ev.M == "tval" {
				pred.RB = u.tokens(it.r.bytes)
				// oracle for tval: the serialization of the structure
				if !bytes.Equal(it.r.bytes, zed.EncodeTypeValue(it.r.typ)) && w.aliases(it.r.bytes) == 0 {
					w.violate("typevalue-unstable:"+kindOf(it.r.typ), fmt.Sprintf("concurrent LookupTypeValue of %s returned %x", ordKey(u.describe(it.r.typ)), it.r.bytes))
				}
			}
			w.checkResult(pred, it.ev, it.r)
		}
	}
	w.observe()
	w.finalOracles(tvSeen)
	return h, w
}

var reHW = regexp.MustCompile(`<<"HW", (\d+), (\d+)>>`)

// validate hands the histories to TLC (TypeContextTrace.tla).  It returns the
// index of the first history that is not a behaviour of the spec (-1: all
// accepted).
func validate(c *core.Ctx, hs []*history, count bool) (int, *core.TLCResult, error) {
	var all []TEvent
	for _, h := range hs {
		h.first = len(all)
		all = append(all, h.Events...)
	}
	res, err := c.RunTLC(core.TLCRun{Module: "TypeContextTrace", Cfg: "TypeContextTrace.trace.cfg",
		Files: map[string][]byte{"trace.ndjson": core.NDJSON(all)}, Workers: 1, DFS: true, Timeout: 15 * time.Minute})
	if res == nil {
		return -1, nil, err
	}
	if res.Status == "invariant" && res.Violated == "NotDone" {
		// some behaviour of the spec consumed the whole trace
		if count {
			c.Add("traces_validated_against_impl", int64(len(hs)))
		}
		return -1, res, nil
	}
	if res.Status == "invariant" || res.Status == "property" {
		// an invariant of the spec is false in a state of a real execution
		return -1, res, fmt.Errorf("TLC reports %s %s while validating real histories", res.Status, res.Violated)
	}
	m := reHW.FindStringSubmatch(res.Out)
	if m == nil {
		if err == nil {
			err = fmt.Errorf("TLC printed no high-water mark (status %s)", res.Status)
		}
		return -1, res, err
	}
	hw, _ := strconv.Atoi(m[1])
	total, _ := strconv.Atoi(m[2])
	if total != len(all) {
		return -1, res, fmt.Errorf("TLC read %d trace events, %d were written", total, len(all))
	}
	if hw == total {
		return -1, res, fmt.Errorf("TLC consumed the whole trace without reporting acceptance")
	}
	bad := 0
	for i, h := range hs {
		if h.first <= hw {
			bad = i
		}
	}
	return bad, res, nil
}
