// C05 -- types are canonical within a context and portable across contexts.
//
// specs/TypeContext.tla models zed.Context (byID / toType / toValue with an
// owner tag / typedefs), zed.CompareTypes, the type-value serializer and the
// non-atomic DecodeTypeValue, one TLA+ step per mutex section.  TLC checks
// Canonical, UnionOrderInsensitive, ValuePure, KeysDenote, DecodeCorrect
// (RoundTrip) on it -- sequentially over creation histories and with two
// processes preempted between any two sections -- and exports a transition
// tour: for every edge of the state graph the history leading to it and the
// predicted context state.
//
// This harness replays every exported behaviour on real zed.Contexts: calls by
// fields / by serialized value in a caller-owned buffer / by translation from
// another real context / by bare decoding, buffer reuse, and two-process
// schedules forced with the zed.DecodeTypeValue.namedef hook as a gate.  After
// every step the property's own oracles are evaluated on the real context
// (same structure <=> same object, type values stable and equal to the
// serialization of the structure, results have the requested structure, round
// trips through other contexts) and at the end the real state is projected on
// the spec's variables and compared with the prediction.  In the other
// direction seeded random sequential histories and concurrent stress
// histories recorded from the real context are validated by TLC against
// specs/TypeContextTrace.tla (which reuses the spec's sections) as
// interleavings of the atomic sections.
package main

import (
	"encoding/json"
	"fmt"
	"hash/fnv"
	"os"
	"sort"
	"strings"
	"sync"
	"time"

	"verif/core"
)

// streamTable is the table of stream-local types exported by TypeMapper.tla.
var streamTable [][]Term

type tourCfg struct {
	module  string
	name    string
	cfg     string
	workers int
	export  bool
}

type witness struct {
	Kind     string   `json:"kind"` // "line" | "history"
	Cfg      string   `json:"cfg,omitempty"`
	Universe int      `json:"universe"`
	Line     *Line    `json:"line,omitempty"`
	Streams  [][]Term `json:"streams,omitempty"`
	History  *history `json:"history,omitempty"`
}

func parseLines(res *core.TLCResult) ([]Line, error) {
	var out []Line
	for _, p := range res.Prints {
		if !strings.HasPrefix(p, "\"") {
			continue
		}
		var s string
		if err := json.Unmarshal([]byte(p), &s); err != nil {
			return nil, fmt.Errorf("cannot unquote TLC output line: %v", err)
		}
		if strings.HasPrefix(s, "{\"streams\"") {
			var st struct {
				Streams [][]Term `json:"streams"`
			}
			if err := json.Unmarshal([]byte(s), &st); err != nil {
				return nil, err
			}
			streamTable = st.Streams
			continue
		}
		var ln Line
		if err := json.Unmarshal([]byte(s), &ln); err != nil {
			return nil, fmt.Errorf("cannot parse exported behaviour: %v", err)
		}
		out = append(out, ln)
	}
	// TLC's workers print in no particular order: fix one
	sort.SliceStable(out, func(i, j int) bool { return lineKey(&out[i]) < lineKey(&out[j]) })
	return out, nil
}

func lineKey(ln *Line) string {
	b, _ := json.Marshal(ln.H)
	return string(b)
}

func pickUniverse(seed int64, key string) int {
	h := fnv.New64a()
	fmt.Fprintf(h, "%d|%s", seed, key)
	return int(h.Sum64() % numUniverses)
}

type stats struct {
	mu      sync.Mutex
	taints  map[string]int
	methods map[string]int
	kinds   map[string]int
	racy    int
	lines   int
	drifted int
}

func collectKinds(t *Term, m map[string]int) {
	if t == nil {
		return
	}
	m[t.K]++
	for i := range t.C {
		collectKinds(&t.C[i], m)
	}
}

func run(c *core.Ctx) error {
	c.Trust("TLC 1.8; the harness's projection of real zed types onto spec nodes and its token<->byte codec; Go scheduler only through the namedef hook gate (one process runs at a time)")
	c.Assume("types of depth <= 3 over 2 primitives, 2 field names, 2 type names, 2 enum symbols (each mapped to 4 concrete variants incl. empty, non-ASCII and prefix-related names; primitives int64/string, uint8/null, time/type, bool/ip); histories of <= 2-4 calls per exhaustive configuration, <= 10 in seeded random histories; 2 processes in the schedule exploration, 4 goroutines in the stress histories")
	c.Rule("cases = behaviours exported by TLC from TypeContext.tla as a transition tour (one per edge of the reachable state graph: call by fields / by value in a caller buffer / by translation / bare decode / non-canonical encoding / LookupTypeValue / LookupTypeDef / buffer reuse; with 2 processes: every interleaving realizable at the namedef hook), each replayed on a real zed.Context under a seed-chosen concrete naming, plus seeded random sequential and concurrent histories recorded from the real context and validated by TLC; distinct = distinct event history; non-trivial = the behaviour's last event changes or reads type state (not a LookupTypeDef)")

	if c.Replay != "" {
		return replay(c)
	}

	tier := "quick"
	if !c.Quick() {
		tier = "thorough"
	}
	tours := []tourCfg{
		{"TypeContext", "seq-named", "TypeContext.seq-named." + tier + ".cfg", 4, true},
		{"TypeContext", "seq-nest", "TypeContext.seq-nest." + tier + ".cfg", 4, true},
		{"TypeContext", "seq-tie", "TypeContext.seq-tie." + tier + ".cfg", 2, true},
		{"TypeContext", "seq-cmp", "TypeContext.seq-cmp." + tier + ".cfg", 2, true},
		{"TypeContext", "conc-lock", "TypeContext.conc-lock." + tier + ".cfg", 4, false},
		{"TypeContext", "conc-hook", "TypeContext.conc-hook." + tier + ".cfg", 4, true},
		{"TypeMapper", "mapper", "TypeMapper." + tier + ".cfg", 4, true},
	}
	if !c.Quick() {
		tours = append(tours,
			tourCfg{"TypeContext", "seq-level1", "TypeContext.seq-level1.thorough.cfg", 4, true},
			tourCfg{"TypeContext", "seq-named3", "TypeContext.seq-named3.thorough.cfg", 4, true},
			tourCfg{"TypeContext", "seq-nest3", "TypeContext.seq-nest3.thorough.cfg", 4, true})
	}

	// All TLC runs of the spec -> code direction in parallel.
	type tourOut struct {
		res   *core.TLCResult
		lines []Line
		err   error
	}
	outs := make([]tourOut, len(tours))
	var wg sync.WaitGroup
	sem := make(chan struct{}, 6) // at most 6 JVMs at a time
	for i, t := range tours {
		wg.Add(1)
		go func(i int, t tourCfg) {
			defer wg.Done()
			sem <- struct{}{}
			defer func() { <-sem }()
			timeout := 12 * time.Minute
			if !c.Quick() {
				timeout = 15 * time.Minute
			}
			res := c.MustHold(core.TLCRun{Module: t.module, Cfg: t.cfg, Workers: t.workers, Timeout: timeout})
			if res == nil {
				outs[i].err = fmt.Errorf("TLC run %s did not hold", t.name)
				return
			}
			outs[i].res = res
			if t.export {
				outs[i].lines, outs[i].err = parseLines(res)
			}
		}(i, t)
	}
	wg.Wait()
	for i, t := range tours {
		if outs[i].err != nil {
			return fmt.Errorf("%s: %w", t.name, outs[i].err)
		}
		c.Logf("TLC %-10s %7d states %7d transitions %6d behaviours exported (%.1fs): invariants hold", t.name, outs[i].res.Distinct, outs[i].res.Generated, len(outs[i].lines), outs[i].res.Wall.Seconds())
		c.Set("tlc_"+t.name, map[string]any{"states": outs[i].res.Distinct, "transitions": outs[i].res.Generated, "exported": len(outs[i].lines), "wall_s": outs[i].res.Wall.Seconds()})
	}

	// spec -> code: replay every exported behaviour.
	st := &stats{taints: map[string]int{}, methods: map[string]int{}, kinds: map[string]int{}}
	tvSeen := map[string][]byte{}
	targetSet := map[string]Term{}
	var negLine *Line
	for i, t := range tours {
		for j := range outs[i].lines {
			ln := &outs[i].lines[j]
			if err := replayLine(c, t.name, ln, pickUniverse(c.Seed, lineKey(ln)), st, tvSeen); err != nil {
				return err
			}
			for _, ev := range ln.H {
				if ev.OT != nil && ev.OT.K != "none" {
					targetSet[ordKey(*ev.OT)] = *ev.OT
				}
			}
			if negLine == nil && len(ln.CX.Nodes) >= 2 && len(ln.Taint) == 0 {
				negLine = ln
			}
		}
	}
	c.Logf("replayed %d behaviours on real contexts: %d drifted, %d violations, %d schedules with a rebinding between definition and reference", st.lines, st.drifted, c.Violations(), st.racy)
	c.Set("behaviours_replayed", st.lines)
	c.Set("methods_exercised", st.methods)
	c.Set("type_kinds_exercised", st.kinds)
	c.Set("schedules_with_rebinding_between_def_and_ref", st.racy)
	c.Set("exhaustive", true)
	c.Add("traces_validated_against_impl", int64(st.lines))

	// Non-vacuity of the exploration: every modelled mechanism was reached.
	for _, need := range []string{"fields", "value", "decode", "tval", "tdef", "raw", "reset", "reuse", "menter", "mlookup", "mreset"} {
		if st.methods[need] == 0 {
			c.Inconclusive("vacuous exploration: method %q never exercised", need)
		}
	}
	for _, need := range []string{"rec", "arr", "set", "map", "union", "enum", "err", "named"} {
		if st.kinds[need] == 0 {
			c.Inconclusive("vacuous exploration: type kind %q never exercised", need)
		}
	}
	if st.racy == 0 {
		c.Inconclusive("vacuous exploration: no schedule in which a name is rebound by another call between a decoder's definition and its reference")
	}

	// Negative control of the replay comparison: a corrupted prediction must
	// be noticed.
	if negLine != nil {
		bad := *negLine
		bad.CX.Nodes = append([]Node(nil), negLine.CX.Nodes...)
		bad.CX.Nodes[0], bad.CX.Nodes[1] = bad.CX.Nodes[1], bad.CX.Nodes[0]
		w := newWorld(c, newUniverse(0), nil)
		if err := w.runLine(&bad); err != nil {
			return err
		}
		if len(w.drift) == 0 {
			c.Inconclusive("negative control failed: a corrupted predicted state was not noticed by the replay comparison")
		} else {
			c.Set("negative_control_prediction", "corrupted predicted state rejected: "+w.drift[0])
		}
	}

	// Multi-stream ZNG read end to end (one worker: one MapperLookupCache
	// across the stream boundaries) and long random Mapper histories.
	nStreams, nMapper := 60, 200
	if !c.Quick() {
		nStreams, nMapper = 600, 3000
	}
	if err := zngStreams(c, nStreams); err != nil {
		return err
	}
	mapperHistories(c, nMapper)

	// code -> spec: histories recorded from the real context, validated by TLC.
	var targets []Term
	var tkeys []string
	for k := range targetSet {
		tkeys = append(tkeys, k)
	}
	sort.Strings(tkeys)
	for _, k := range tkeys {
		targets = append(targets, targetSet[k])
	}
	nSeq, lenSeq, nStress, G, perG := 24, 8, 8, 4, 3
	nContend, nContendTLC := 1500, 4
	if !c.Quick() {
		nSeq, lenSeq, nStress, G, perG = 100, 10, 40, 4, 4
		nContend, nContendTLC = 5000, 12
	}
	var hs []*history
	for i := 0; i < nSeq; i++ {
		h, w := seqHistory(c, targets, c.Seed*1000003+int64(i), lenSeq, tvSeen)
		hs = append(hs, h)
		c.Eval(fmt.Sprintf("seq|%d|%d", c.Seed, i), true)
		_ = w
	}
	for i := 0; i < nStress; i++ {
		h, w := stressHistory(c, targets, c.Seed*7000003+int64(i), G, perG, false, tvSeen)
		hs = append(hs, h)
		c.Eval(fmt.Sprintf("stress|%d|%d", c.Seed, i), true)
		_ = w
	}
	// Contention rounds: all goroutines create the same types at the same
	// moment (barrier before every call).  The first few are also validated
	// by TLC, all of them by the property oracles.
	for i := 0; i < nContend; i++ {
		g := 8
		if i < nContendTLC {
			g = G
		}
		h, _ := stressHistory(c, targets, c.Seed*9000011+int64(i), g, perG, true, tvSeen)
		if i < nContendTLC {
			hs = append(hs, h)
		}
		c.Eval(fmt.Sprintf("contend|%d|%d", c.Seed, i), true)
	}
	c.Set("contention_rounds", nContend)
	c.Logf("recorded %d sequential, %d concurrent and %d contention histories from the real context (%d violations so far)", nSeq, nStress, nContend, c.Violations())
	// validate in chunks of 12 histories, 4 TLC runs at a time (each is single-threaded)
	chunks := (len(hs) + 11) / 12
	type vout struct {
		bad int
		res *core.TLCResult
		err error
		hs  []*history
	}
	vouts := make([]vout, chunks)
	vsem := make(chan struct{}, 4)
	for k := 0; k < chunks; k++ {
		for i, h := range hs {
			if i%chunks == k {
				vouts[k].hs = append(vouts[k].hs, h)
			}
		}
		wg.Add(1)
		go func(k int) {
			defer wg.Done()
			vsem <- struct{}{}
			defer func() { <-vsem }()
			vouts[k].bad, vouts[k].res, vouts[k].err = validate(c, vouts[k].hs, true)
		}(k)
	}
	// Negative control of the trace validation: one corrupted result must be rejected.
	var negErr error
	negRejected := false
	wg.Add(1)
	go func() {
		defer wg.Done()
		src := hs[0]
		bad := &history{Kind: src.Kind, Universe: src.Universe, Events: append([]TEvent(nil), src.Events...)}
		done := false
		for i := range bad.Events {
			if bad.Events[i].E == "resp" && bad.Events[i].R > specNP {
				bad.Events[i].R++
				done = true
				break
			}
		}
		if !done {
			negErr = fmt.Errorf("no response to corrupt in the first history")
			return
		}
		idx, _, err := validate(c, []*history{bad}, false)
		if err != nil {
			negErr = err
			return
		}
		negRejected = idx == 0
	}()
	wg.Wait()
	accepted := 0
	for k := range vouts {
		if vouts[k].err != nil {
			return fmt.Errorf("trace validation: %w", vouts[k].err)
		}
		if vouts[k].bad >= 0 {
			h := vouts[k].hs[vouts[k].bad]
			b, _ := json.Marshal(h)
			if len(b) > 1500 {
				b = b[:1500]
			}
			if d := os.Getenv("C05_DUMP"); d != "" {
				os.WriteFile(fmt.Sprintf("%s/rejected-%s-%d.ndjson", d, h.Kind, h.Seed), core.NDJSON(h.Events), 0o644)
			}
			c.Drift("TLC rejects a recorded %s history (universe %d, seed %d) as a behaviour of TypeContext.tla: %s", h.Kind, h.Universe, h.Seed, b)
			accepted += vouts[k].bad
		} else {
			accepted += len(vouts[k].hs)
		}
	}
	c.Logf("TLC validated %d of %d recorded histories as interleavings of the spec's atomic sections", accepted, len(hs))
	c.Set("histories_recorded", len(hs))
	c.Set("histories_accepted_by_tlc", accepted)
	if negErr != nil {
		return fmt.Errorf("negative control: %w", negErr)
	}
	if !negRejected {
		c.Inconclusive("negative control failed: TLC accepted a recorded history with a corrupted result id")
	} else {
		c.Set("negative_control_trace", "history with one corrupted result id rejected by TLC")
	}
	return nil
}

func replayLine(c *core.Ctx, cfg string, ln *Line, uni int, st *stats, tvSeen map[string][]byte) error {
	wit := &witness{Kind: "line", Cfg: cfg, Universe: uni, Line: ln}
	if cfg == "mapper" {
		wit.Streams = streamTable
	}
	w := newWorld(c, newUniverse(uni), wit)
	w.streams = streamTable
	if err := w.runLine(ln); err != nil {
		return fmt.Errorf("replay of %s: %w", lineKey(ln), err)
	}
	w.finalOracles(tvSeen)
	last := ln.H[len(ln.H)-1]
	c.Eval(lineKey(ln), last.M != "tdef")
	st.lines++
	for _, t := range ln.Taint {
		st.taints[t]++
	}
	for _, ev := range ln.H {
		if ev.E == "call" || ev.E == "start" {
			st.methods[ev.M]++
			collectKinds(ev.OT, st.kinds)
		}
		if ev.E == "reuse" || ev.E == "menter" || ev.E == "mlookup" || ev.E == "mreset" {
			st.methods[ev.E]++
		}
	}
	if last.Racy {
		st.racy++
	}
	if len(w.drift) > 0 {
		st.drifted++
		if w.viol == 0 {
			c.Drift("%s universe %d history %s: %s", cfg, uni, shortHistory(ln), w.drift[0])
		}
	}
	if st.lines%997 == 1 || (len(ln.Taint) > 0 && st.taints[ln.Taint[0]] == 1) {
		c.Sample(map[string]any{"cfg": cfg, "universe": uni, "history": shortHistory(ln), "predicted_types": len(ln.CX.Nodes), "taint": ln.Taint})
	}
	return nil
}

func shortHistory(ln *Line) string {
	var parts []string
	for _, ev := range ln.H {
		switch ev.E {
		case "call":
			parts = append(parts, fmt.Sprintf("%s(%s)->%d", ev.M, ser1(ev.OT, ev.NM), ev.R))
		case "start":
			parts = append(parts, fmt.Sprintf("p%d:%s(%s)", ev.P, ev.M, ser1(ev.OT, ev.NM)))
		case "step":
			s := fmt.Sprintf("p%d.", ev.P)
			if ev.Fin {
				s += fmt.Sprintf("ret %d", ev.R)
				if ev.Racy {
					s += " RACY"
				}
			} else if ev.Yield {
				s += "yield"
			} else {
				continue
			}
			parts = append(parts, s)
		case "reuse":
			parts = append(parts, fmt.Sprintf("reuse(buf%d)", ev.B))
		case "menter":
			parts = append(parts, fmt.Sprintf("s%d.Enter(local%d=%s)->%d", ev.S, ev.K, ser1(ev.OT, ""), ev.R))
		case "mlookup":
			parts = append(parts, fmt.Sprintf("s%d.cache.Lookup(local%d)->%d", ev.S, ev.K, ev.R))
		case "mreset":
			parts = append(parts, fmt.Sprintf("Reset(mapper of stream %d)", ev.S))
		}
	}
	return strings.Join(parts, " ; ")
}

func ser1(t *Term, nm string) string {
	if t == nil || t.K == "none" {
		return nm
	}
	return strings.Join(ser(*t), " ")
}

func replay(c *core.Ctx) error {
	var w witness
	sig, err := c.ReplayWitness(&w)
	if err != nil {
		return err
	}
	fmt.Printf("replaying %s witness, signature %s\n", w.Kind, sig)
	tvSeen := map[string][]byte{}
	switch w.Kind {
	case "line":
		st := &stats{taints: map[string]int{}, methods: map[string]int{}, kinds: map[string]int{}}
		fmt.Println("history:", shortHistory(w.Line))
		if w.Streams != nil {
			streamTable = w.Streams
		}
		return replayLine(c, w.Cfg, w.Line, w.Universe, st, tvSeen)
	case "history":
		// Re-run the recorded calls sequentially in the recorded order of
		// invocation (a stress schedule itself cannot be forced).
		u := newUniverse(w.History.Universe)
		wd := newWorld(c, u, &w)
		for _, ev := range w.History.Events {
			switch ev.E {
			case "inv":
				e := Event{E: "call", P: ev.P, M: ev.M, NM: ev.NM, B: ev.B}
				if ev.OT.K != "none" {
					t := ev.OT
					e.OT = &t
				}
				run, err := wd.prepare(e)
				if err != nil {
					fmt.Println("skip:", err)
					continue
				}
				r := run()
				pred := e
				pred.R = wd.sid(r.typ)
				wd.checkResult(pred, e, r)
				wd.observe()
			case "reuse":
				for j := range wd.bufs[ev.B] {
					wd.bufs[ev.B][j] = 0xA5
				}
				wd.observe()
			}
		}
		wd.finalOracles(tvSeen)
	}
	return nil
}

func main() { core.Main("C05", "model_checking", run) }
