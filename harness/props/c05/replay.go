package main

import (
	"bytes"
	"fmt"
	"time"
	"unsafe"

	zed "github.com/brimdata/super"
	"github.com/brimdata/super/pkg/verif"
	"github.com/brimdata/super/runtime/sam/expr/agg"

	"verif/core"
)

// Event is one element of the spec's history variable h.
type Event struct {
	E     string   `json:"e"` // call | start | step | reuse
	P     int      `json:"p,omitempty"`
	M     string   `json:"m,omitempty"`
	OT    *Term    `json:"ot,omitempty"`
	NM    string   `json:"nm,omitempty"`
	B     int      `json:"b,omitempty"`
	Fin   bool     `json:"fin,omitempty"`
	Yield bool     `json:"yield,omitempty"`
	R     int      `json:"r,omitempty"`
	RB    []string `json:"rb,omitempty"`
	Racy  bool     `json:"racy,omitempty"`
	K     int      `json:"k,omitempty"` // mapper events: local type id (1-based)
	S     int      `json:"s,omitempty"` // mapper events: stream
}

// Snap is the spec's context state after the last event of a line.
type Snap struct {
	Nodes []Node         `json:"nodes"`
	TV    [][]string     `json:"tv"`
	Own   []int          `json:"own"`
	Defs  map[string]int `json:"defs"`
}

// Line is one exported behaviour: the history up to an edge of the state
// graph and the predicted state after it.
type Line struct {
	H     []Event  `json:"h"`
	CX    Snap     `json:"cx"`
	Taint []string `json:"taint"`
}

// Finding signatures (see known_findings.d/c05.jsonl).  All four are fixed in
// the repository (a51bcc8de, e3c8e5c33, a432f329d) and kept as regression
// signatures: a recurrence is a VIOLATION.
const (
	sigAlias    = "typevalue-aliases-caller-bytes:LookupByValue"
	sigRace     = "decode-typedef-race:concurrent-namedef"
	sigTie      = "union-order-sensitive:comparetypes-tie:named-same-name-same-underlying"
	sigNonCanon = "typevalue-replaced-by-noncanonical-encoding:LookupByValue"
)

type callResult struct {
	typ   zed.Type
	bytes []byte
	err   error
}

type proc struct {
	id      int
	ev      Event
	run     func() callResult
	gate    chan struct{}
	parked  chan struct{}
	done    chan callResult
	running bool // between resume and park/done
	inSeg   bool // spec is inside a segment of this process
	started bool
	res     *callResult
}

// world is one real context under test plus everything the harness holds.
type world struct {
	c    *core.Ctx
	u    *universe
	ctx  *zed.Context // the context under test
	src  *zed.Context // "another context": where foreign types come from
	bufs map[int][]byte // caller buffers by the spec's buffer name (names are reused)
	held [][]byte       // every caller buffer ever passed to LookupByValue
	raw  [][]byte       // copies of the non-canonical type values passed in
	// first observed type value of every type object (stability oracle)
	firstTV map[zed.Type][]byte
	procs   map[int]*proc
	running *proc
	overlap bool // some calls overlapped in this behaviour
	mapper  *zed.Mapper
	// multi-stream reading (TypeMapper.tla)
	streams    [][]Term
	locals     map[int][]zed.Type // stream -> its local types (local context per stream)
	smapper    *zed.Mapper
	scache     zed.MapperLookupCache
	sidx       int
	firstShape map[zed.Type]string // structure of every type object when first seen
	drift      []string
	viol    int
	witness any
}

func newWorld(c *core.Ctx, u *universe, witness any) *world {
	w := &world{c: c, u: u, ctx: zed.NewContext(), src: zed.NewContext(), bufs: map[int][]byte{},
		firstTV: map[zed.Type][]byte{}, procs: map[int]*proc{}, witness: witness,
		locals: map[int][]zed.Type{}, firstShape: map[zed.Type]string{}}
	w.mapper = zed.NewMapper(w.ctx)
	return w
}

func (w *world) driftf(format string, a ...any) {
	w.drift = append(w.drift, fmt.Sprintf(format, a...))
}

func (w *world) violate(sig, what string) {
	w.viol++
	w.c.Violate(sig, what, w.witness)
}

// sid is the spec's id of a real type of the context under test.
func (w *world) sid(typ zed.Type) int {
	if typ == nil {
		return 0
	}
	if typ == w.u.prims[0] {
		return 1
	}
	if typ == w.u.prims[1] {
		return 2
	}
	return zed.TypeID(typ) - zed.IDTypeComplex + specNP + 1
}

// all returns the context's types in id order.
func (w *world) all() []zed.Type {
	var out []zed.Type
	for id := zed.IDTypeComplex; ; id++ {
		t, err := w.ctx.LookupType(id)
		if err != nil {
			return out
		}
		out = append(out, t)
	}
}

// find is the spec's FindId: the first type of the context with the
// structure of t (nil if none).
func (w *world) find(t Term) zed.Type {
	if t.K == "prim" {
		return w.u.prim(t.S[0])
	}
	want := normKey(w.u.real(t))
	for _, typ := range w.all() {
		if normKey(w.u.describe(typ)) == want {
			return typ
		}
	}
	return nil
}

// prepare turns a call into a closure that performs exactly one API call on
// the context under test.  Everything else (building the foreign type,
// resolving argument pointers) happens here, in the scheduler's goroutine.
func (w *world) prepare(ev Event) (func() callResult, error) {
	u := w.u
	switch ev.M {
	case "fields":
		var kids []zed.Type
		for _, c := range ev.OT.C {
			k := w.find(c)
			if k == nil {
				return nil, fmt.Errorf("fields: argument type %s does not exist in the context", ordKey(c))
			}
			kids = append(kids, k)
		}
		t := *ev.OT
		return func() callResult {
			typ, err := u.lookup(w.ctx, t, kids)
			return callResult{typ: typ, err: err}
		}, nil
	case "value", "raw", "translate", "decode":
		var tv []byte
		var ext zed.Type
		if ev.M == "raw" {
			// union members exactly as listed: an encoding no zed context
			// produces but every decoder accepts.
			b, err := u.encode(ser(*ev.OT))
			if err != nil {
				return nil, err
			}
			tv = b
		} else {
			t, err := u.build(w.src, *ev.OT)
			if err != nil {
				// e.g. duplicate field: the foreign context refuses too;
				// hand-encode the value.
				b, err2 := u.encode(ser(*ev.OT))
				if err2 != nil {
					return nil, err2
				}
				tv = b
			} else {
				ext = t
				tv = zed.EncodeTypeValue(t)
			}
		}
		switch ev.M {
		case "decode":
			return func() callResult {
				typ, rest := w.ctx.DecodeTypeValue(tv)
				if rest == nil || len(rest) != 0 {
					return callResult{err: fmt.Errorf("DecodeTypeValue failed")}
				}
				return callResult{typ: typ}
			}, nil
		case "translate":
			if ext == nil {
				// The foreign context cannot hold this type (duplicate field
				// names); TranslateType(ext) is LookupByValue(EncodeTypeValue(ext)).
				return func() callResult {
					typ, err := w.ctx.LookupByValue(tv)
					return callResult{typ: typ, err: err}
				}, nil
			}
			useMapper := (w.u.Idx+ev.B)%2 == 1
			return func() callResult {
				if useMapper {
					typ, err := w.mapper.Enter(ext)
					return callResult{typ: typ, err: err}
				}
				typ, err := w.ctx.TranslateType(ext)
				return callResult{typ: typ, err: err}
			}, nil
		default:
			buf := append(make([]byte, 0, len(tv)+8), tv...) // the caller's own buffer
			w.bufs[ev.B] = buf
			w.held = append(w.held, buf)
			if ev.M == "raw" {
				w.raw = append(w.raw, append([]byte(nil), tv...))
			}
			return func() callResult {
				typ, err := w.ctx.LookupByValue(buf)
				return callResult{typ: typ, err: err}
			}, nil
		}
	case "tval":
		typ := w.find(*ev.OT)
		if typ == nil {
			return nil, fmt.Errorf("tval: type %s does not exist", ordKey(*ev.OT))
		}
		return func() callResult {
			return callResult{typ: typ, bytes: w.ctx.LookupTypeValue(typ).Bytes()}
		}, nil
	case "reset":
		return func() callResult {
			w.ctx.Reset()
			// every type object handed out so far is dead now
			w.firstTV = map[zed.Type][]byte{}
			w.firstShape = map[zed.Type]string{}
			w.mapper = zed.NewMapper(w.ctx)
			return callResult{}
		}, nil
	case "tdef":
		name := u.name(ev.NM)
		return func() callResult {
			if n := w.ctx.LookupTypeDef(name); n != nil {
				return callResult{typ: n}
			}
			return callResult{}
		}, nil
	}
	return nil, fmt.Errorf("unknown method %q", ev.M)
}

// installHook makes the namedef site of the context under test a gate.
func (w *world) installHook() {
	verif.SetHook(func(site string, args ...any) {
		if site != "zed.DecodeTypeValue.namedef" || len(args) == 0 {
			return
		}
		if c, ok := args[0].(*zed.Context); !ok || c != w.ctx {
			return
		}
		p := w.running
		if p == nil {
			return
		}
		p.parked <- struct{}{}
		<-p.gate
	})
}

const stepTimeout = 20 * time.Second

// resume lets p run until it parks in the hook or completes.
func (w *world) resume(p *proc) error {
	w.running = p
	p.gate <- struct{}{}
	select {
	case <-p.parked:
	case r := <-p.done:
		p.res = &r
	case <-time.After(stepTimeout):
		return fmt.Errorf("process %d neither parked nor finished within %v (dead driver)", p.id, stepTimeout)
	}
	w.running = nil
	return nil
}

// checkResult compares a finished call with the spec's prediction (drift) and
// with what the call was asked for (property oracle).
func (w *world) checkResult(ev Event, call Event, r callResult) {
	u := w.u
	got := w.sid(r.typ)
	if r.err != nil {
		got = 0
	}
	if got != ev.R {
		w.driftf("%s(%s): spec predicts type id %d, real %d (%v)", call.M, termText(call.OT), ev.R, got, r.err)
	}
	// Oracle: whatever type object the context hands out is the registered
	// (canonical) object for its id.
	if r.typ != nil && r.err == nil && kindOf(r.typ) != "prim" {
		if reg, err := w.ctx.LookupType(zed.TypeID(r.typ)); err != nil || reg != r.typ {
			w.violate("unregistered-type-object:"+call.M, fmt.Sprintf("%s returns a type object (%s, id %d) that is not the context's type of that id (%v)", call.M, ordKey(u.describe(r.typ)), zed.TypeID(r.typ), err))
		}
	}
	switch call.M {
	case "tdef", "reset":
		return
	case "tval":
		if want, err := u.encode(ev.RB); err == nil && !bytes.Equal(want, r.bytes) && !isGarbage(ev.RB) {
			w.driftf("LookupTypeValue(%s): spec predicts %x real %x", termText(call.OT), want, r.bytes)
		}
		return
	}
	// Oracle: the returned type has the structure that was asked for.
	want := u.real(*call.OT)
	if r.err != nil || r.typ == nil {
		if call.OT.K == "rec" && hasDup(call.OT.S) {
			return // duplicate field names: an error is the specified outcome
		}
		if dupInside(*call.OT) {
			return
		}
		w.violate("lookup-fails:"+call.M+":"+call.OT.K, fmt.Sprintf("%s of %s fails: %v", call.M, termText(call.OT), r.err))
		return
	}
	have := u.describe(r.typ)
	if normKey(have) == normKey(want) {
		return
	}
	if w.overlap && normKey(eraseNamed(have)) == normKey(eraseNamed(want)) {
		w.violate(sigRace, fmt.Sprintf("%s of the type value of %s on a context shared with a concurrent decoder returns %s: a name reference was resolved through the context-global typedefs after another call rebound the name",
			call.M, ordKey(want), ordKey(have)))
		return
	}
	w.violate("wrong-type:"+call.M+":"+call.OT.K, fmt.Sprintf("%s of %s returns %s", call.M, ordKey(want), ordKey(have)))
}

func hasDup(s []string) bool {
	seen := map[string]bool{}
	for _, x := range s {
		if seen[x] {
			return true
		}
		seen[x] = true
	}
	return false
}

func dupInside(t Term) bool {
	if t.K == "rec" && hasDup(t.S) {
		return true
	}
	for _, c := range t.C {
		if dupInside(c) {
			return true
		}
	}
	return false
}

func isGarbage(tok []string) bool { return len(tok) == 1 && tok[0] == "garbage" }

func termText(t *Term) string {
	if t == nil {
		return ""
	}
	return ordKey(*t)
}

// runLine replays one behaviour.  Returns an error only for harness/tool
// problems (inconclusive); drift and violations are recorded in w.
func (w *world) runLine(ln *Line) error {
	concurrent := false
	for _, ev := range ln.H {
		if ev.E == "start" {
			concurrent = true
		}
	}
	if concurrent {
		w.installHook()
		defer verif.SetHook(nil)
		defer w.drain()
	}
	pending := 0
	for i, ev := range ln.H {
		switch ev.E {
		case "call":
			run, err := w.prepare(ev)
			if err != nil {
				w.driftf("event %d: %v", i, err)
				return nil
			}
			r := run()
			w.checkResult(ev, ev, r)
			w.observe()
		case "start":
			run, err := w.prepare(ev)
			if err != nil {
				w.driftf("event %d: %v", i, err)
				return nil
			}
			if pending > 0 {
				w.overlap = true
			}
			pending++
			p := &proc{id: ev.P, ev: ev, run: run, gate: make(chan struct{}), parked: make(chan struct{}), done: make(chan callResult, 1)}
			w.procs[ev.P] = p
			go func() {
				<-p.gate
				p.done <- p.run()
			}()
			p.started = true
		case "step":
			p := w.procs[ev.P]
			if p == nil {
				return fmt.Errorf("event %d: step of idle process %d", i, ev.P)
			}
			if !p.inSeg {
				if p.res != nil {
					w.driftf("event %d: spec has another section for process %d but the real call already returned", i, ev.P)
					return nil
				}
				if err := w.resume(p); err != nil {
					return err
				}
				p.inSeg = true
			}
			if !ev.Yield {
				continue
			}
			p.inSeg = false
			if ev.Fin {
				if p.res == nil {
					// The hook sits after the last NameDef of a bare decode:
					// what remains is the return path, no further section.
					if err := w.resume(p); err != nil {
						return err
					}
				}
				if p.res == nil {
					w.driftf("event %d: spec says the call of process %d is complete but the real call is parked in the hook", i, ev.P)
					return nil
				}
				w.checkResult(ev, p.ev, *p.res)
				delete(w.procs, ev.P)
				pending--
			} else if p.res != nil {
				w.driftf("event %d: spec says process %d yields in the hook but the real call returned", i, ev.P)
				return nil
			}
			w.observe()
		case "menter", "mlookup", "mreset":
			if err := w.mapperEvent(i, ev); err != nil {
				return err
			}
			w.observe()
		case "reuse":
			buf := w.bufs[ev.B]
			if buf == nil {
				w.driftf("event %d: reuse of unknown buffer %d", i, ev.B)
				return nil
			}
			for k := range buf {
				buf[k] = 0xA5
			}
			w.observe()
		}
	}
	w.compare(&ln.CX)
	w.clientFuse()
	return nil
}

// localType returns local type k of stream s, building the stream's local
// context on first use (local ids 30, 31, ... in the order of the table).
func (w *world) localType(s, k int) (zed.Type, error) {
	if s < 1 || s > len(w.streams) {
		return nil, fmt.Errorf("no stream %d", s)
	}
	if w.locals[s] == nil {
		lctx := zed.NewContext()
		for j, t := range w.streams[s-1] {
			typ, err := w.u.build(lctx, t)
			if err != nil {
				return nil, err
			}
			if zed.TypeID(typ) != zed.IDTypeComplex+j {
				return nil, fmt.Errorf("stream %d: local type %d got id %d (the stream table must list subtypes first)", s, j+1, zed.TypeID(typ))
			}
			w.locals[s] = append(w.locals[s], typ)
		}
	}
	if k < 1 || k > len(w.locals[s]) {
		return nil, nil
	}
	return w.locals[s][k-1], nil
}

// mapperEvent replays Mapper.Enter / MapperLookupCache.Lookup / Reset.
func (w *world) mapperEvent(i int, ev Event) error {
	if w.smapper == nil {
		w.smapper = zed.NewMapper(w.ctx)
		w.scache.Reset(w.smapper)
		w.sidx = 1
	}
	switch ev.E {
	case "mreset":
		w.sidx = ev.S
		w.smapper = zed.NewMapper(w.ctx)
		w.scache.Reset(w.smapper)
	case "menter":
		local, err := w.localType(w.sidx, ev.K)
		if err != nil || local == nil {
			return fmt.Errorf("event %d: menter %d: %v", i, ev.K, err)
		}
		typ, err := w.smapper.Enter(local)
		w.checkResult(Event{R: ev.R}, Event{M: "translate", OT: ev.OT}, callResult{typ: typ, err: err})
	case "mlookup":
		local, err := w.localType(w.sidx, ev.K)
		if err != nil {
			return fmt.Errorf("event %d: mlookup %d: %v", i, ev.K, err)
		}
		typ := w.scache.Lookup(zed.IDTypeComplex + ev.K - 1)
		if got := w.sid(typ); got != ev.R {
			w.driftf("MapperLookupCache.Lookup(local id %d) in stream %d: spec predicts shared type id %d, real %d", ev.K, w.sidx, ev.R, got)
		}
		if typ == nil {
			break
		}
		// Oracle: the shared type denotes the local type of THIS stream.
		if local == nil || normKey(w.u.describe(typ)) != normKey(w.u.describe(local)) {
			want := "no type (the id is not defined in this stream)"
			if local != nil {
				want = ordKey(w.u.describe(local))
			}
			w.violate("mapper-cache-stale:MapperLookupCache", fmt.Sprintf("after Reset with the mapper of stream %d, MapperLookupCache.Lookup(local id %d) returns %s; the local type is %s: an entry of the previous stream's mapper survived the reset",
				w.sidx, zed.IDTypeComplex+ev.K-1, ordKey(w.u.describe(typ)), want))
		}
	}
	return nil
}

// clientFuse lets an ordinary client of the context -- the fuse aggregate's
// type merger -- work on the context's types: merging a union with each of
// its members and every pair of records.  It may create new types; it must
// not change any existing one (checked by observe and the final oracles).
func (w *world) clientFuse() {
	defer func() {
		if r := recover(); r != nil {
			w.violate("client-panics:agg.Schema", fmt.Sprintf("agg.Schema.Mixin over the context's types panics: %v", r))
		}
	}()
	all := w.all()
	for _, typ := range all {
		if un, ok := typ.(*zed.TypeUnion); ok {
			members := append([]zed.Type(nil), un.Types...)
			for _, m := range members {
				s := agg.NewSchema(w.ctx)
				s.Mixin(un)
				s.Mixin(m)
				_ = s.Type()
			}
		}
	}
	var recs []zed.Type
	for _, typ := range all {
		if _, ok := typ.(*zed.TypeRecord); ok {
			recs = append(recs, typ)
		}
	}
	for i := 0; i < len(recs) && i < 4; i++ {
		for j := 0; j < len(recs) && j < 4; j++ {
			s := agg.NewSchema(w.ctx)
			s.Mixin(recs[i])
			s.Mixin(recs[j])
		}
	}
	w.observe()
}

// drain lets any still-parked goroutine finish so that nothing leaks.
func (w *world) drain() {
	verif.SetHook(nil)
	for _, p := range w.procs {
		if p.res != nil {
			continue
		}
		for k := 0; k < 64 && p.res == nil; k++ {
			select {
			case p.gate <- struct{}{}:
			case r := <-p.done:
				p.res = &r
			case <-time.After(stepTimeout):
				return
			}
		}
	}
}

// observe evaluates the state oracles that must hold after every step:
// every type value read so far is still what it was, and is the
// serialization of the type's structure.
func (w *world) observe() {
	for _, typ := range w.all() {
		// a type object never changes once the context has handed it out
		shape := ordKey(w.u.describe(typ))
		if was, ok := w.firstShape[typ]; !ok {
			w.firstShape[typ] = shape
		} else if was != shape {
			w.violate("type-object-mutated:"+kindOf(typ), fmt.Sprintf("the type object with id %d was %s and is now %s: a type of the context was modified in place", zed.TypeID(typ), was, shape))
			w.firstShape[typ] = shape
			continue
		}
		now := w.ctx.LookupTypeValue(typ).Bytes()
		first, seen := w.firstTV[typ]
		if !seen {
			w.firstTV[typ] = append([]byte(nil), now...)
			first = now
		}
		if bytes.Equal(first, now) && bytes.Equal(now, zed.EncodeTypeValue(typ)) {
			continue
		}
		desc := ordKey(w.u.describe(typ))
		switch {
		case w.isRaw(now):
			w.violate(sigNonCanon, fmt.Sprintf("LookupTypeValue of %s returns %x (first read: %x), not the serialization of its structure %x: LookupByValue was given another encoding of the same type (union members in a different order) and stored the caller's bytes as the type's value", desc, now, first, zed.EncodeTypeValue(typ)))
		case w.aliases(now) != 0:
			w.violate(sigAlias, fmt.Sprintf("the type value of %s returned by LookupTypeValue changed from %x to %x after the caller overwrote the byte slice it had passed to LookupByValue (the context kept the caller's slice)", desc, first, now))
		case hasTie(typ):
			w.violate(tieSig(typ), fmt.Sprintf("type value of %s is %x, first read as %x", desc, now, first))
		default:
			w.violate("typevalue-unstable:"+kindOf(typ), fmt.Sprintf("the type value of %s was %x and is now %x (serialization of the structure: %x)", desc, first, now, zed.EncodeTypeValue(typ)))
		}
	}
}

// aliases reports whether the slice shares memory with a caller buffer
// (0: none, else the 1-based index in w.held).
func (w *world) aliases(b []byte) int {
	if len(b) == 0 {
		return 0
	}
	p := uintptr(unsafe.Pointer(unsafe.SliceData(b)))
	for i, buf := range w.held {
		if cap(buf) == 0 {
			continue
		}
		lo := uintptr(unsafe.Pointer(unsafe.SliceData(buf[:cap(buf)])))
		if p >= lo && p < lo+uintptr(cap(buf)) {
			return i + 1
		}
	}
	return 0
}

func (w *world) isRaw(b []byte) bool {
	for _, r := range w.raw {
		if bytes.Equal(r, b) {
			return true
		}
	}
	return false
}

// compare projects the real context onto the spec's variables and compares
// with the predicted state (binding of the transcription; disagreement is
// drift, the property oracles decide violations).
func (w *world) compare(cx *Snap) {
	all := w.all()
	if len(all) != len(cx.Nodes) {
		w.driftf("context has %d complex types, spec predicts %d", len(all), len(cx.Nodes))
		return
	}
	for i, typ := range all {
		nd := cx.Nodes[i]
		d := w.u.describe(typ)
		ok := d.K == nd.K && len(d.C) == len(nd.C)
		var names []string
		for _, s := range nd.S {
			names = append(names, w.u.name(s))
		}
		if ok && fmt.Sprint(names) != fmt.Sprint(d.S) {
			ok = false
		}
		if ok {
			for j, k := range w.kids(typ) {
				if w.sid(k) != nd.C[j] {
					ok = false
				}
			}
		}
		if !ok {
			w.driftf("type id %d: spec predicts node %+v, real %s (children %v)", i+specNP+1, nd, ordKey(d), w.kidIDs(typ))
			continue
		}
		now := w.ctx.LookupTypeValue(typ).Bytes()
		if isGarbage(cx.TV[i]) {
			if bytes.Equal(now, zed.EncodeTypeValue(typ)) {
				w.driftf("type id %d: spec predicts the type value aliases an overwritten caller buffer, real value is intact", i+specNP+1)
			}
			continue
		}
		want, err := w.u.encode(cx.TV[i])
		if err != nil {
			w.driftf("type id %d: %v", i+specNP+1, err)
			continue
		}
		if !bytes.Equal(want, now) {
			w.driftf("type id %d (%s): spec predicts type value %x, real %x", i+specNP+1, ordKey(d), want, now)
		}
		if own := cx.Own[i]; (own > 0) != (w.aliases(now) != 0) {
			w.driftf("type id %d: spec owner tag %d, real value aliases caller buffer %d", i+specNP+1, own, w.aliases(now))
		}
	}
	for n, id := range cx.Defs {
		got := 0
		if d := w.ctx.LookupTypeDef(w.u.name(n)); d != nil {
			got = w.sid(d)
		}
		if got != id {
			w.driftf("typedefs[%s]: spec %d real %d", n, id, got)
		}
	}
}

func (w *world) kids(typ zed.Type) []zed.Type {
	switch t := typ.(type) {
	case *zed.TypeNamed:
		return []zed.Type{t.Type}
	case *zed.TypeRecord:
		var out []zed.Type
		for _, f := range t.Fields {
			out = append(out, f.Type)
		}
		return out
	case *zed.TypeArray:
		return []zed.Type{t.Type}
	case *zed.TypeSet:
		return []zed.Type{t.Type}
	case *zed.TypeError:
		return []zed.Type{t.Type}
	case *zed.TypeMap:
		return []zed.Type{t.KeyType, t.ValType}
	case *zed.TypeUnion:
		return t.Types
	}
	return nil
}

func (w *world) kidIDs(typ zed.Type) []int {
	var out []int
	for _, k := range w.kids(typ) {
		out = append(out, w.sid(k))
	}
	return out
}

// finalOracles evaluates the property's clauses on the final real context:
// canonicity, union order insensitivity, purity across contexts, round trips.
// tvSeen is shared by all behaviours of one universe: structure -> bytes.
func (w *world) finalOracles(tvSeen map[string][]byte) {
	u := w.u
	all := w.all()
	byNorm := map[string]zed.Type{}
	for i, typ := range all {
		if zed.TypeID(typ) != zed.IDTypeComplex+i {
			w.violate("ids-not-dense", fmt.Sprintf("type at position %d has id %d", i, zed.TypeID(typ)))
		}
		d := u.describe(typ)
		nk := normKey(d)
		if other, dup := byNorm[nk]; dup {
			if hasTie(typ) || hasTie(other) {
				w.violate(tieSig(typ, other), fmt.Sprintf("two distinct type objects (ids %d and %d) for the same union: %s and %s -- the member order given by the caller decided, because zed.CompareTypes returns 0 for two different member types",
					zed.TypeID(other), zed.TypeID(typ), ordKey(u.describe(other)), ordKey(d)))
			} else {
				w.violate("not-canonical:"+kindOf(typ), fmt.Sprintf("two distinct type objects (ids %d and %d) with the same structure %s", zed.TypeID(other), zed.TypeID(typ), ordKey(d)))
			}
			continue
		}
		byNorm[nk] = typ
		// purity: the same structure has the same type value in every context and history
		now := w.ctx.LookupTypeValue(typ).Bytes()
		if w.aliases(now) == 0 || bytes.Equal(now, zed.EncodeTypeValue(typ)) {
			if prev, ok := tvSeen[nk]; ok && !bytes.Equal(prev, now) && !w.isRaw(now) && !hasTie(typ) {
				w.violate("typevalue-not-pure:"+kindOf(typ), fmt.Sprintf("structure %s has type value %x here but %x in another context/history", ordKey(d), now, prev))
			} else if !ok && bytes.Equal(now, zed.EncodeTypeValue(typ)) {
				tvSeen[nk] = append([]byte(nil), now...)
			}
		}
		// round trip through another context and back
		other := zed.NewContext()
		tw, err := other.TranslateType(typ)
		if err != nil || normKey(u.describe(tw)) != nk {
			w.violate("roundtrip:translate:"+kindOf(typ), fmt.Sprintf("translating %s to a fresh context yields %s (%v)", ordKey(d), ordKey(u.describe(tw)), err))
			continue
		}
		back, err := w.ctx.TranslateType(tw)
		if err != nil || back != typ {
			switch {
			case hasTie(typ):
				w.violate(tieSig(typ), fmt.Sprintf("translating %s to another context and back yields a different type object %s", ordKey(d), ordKey(u.describe(back))))
			case w.overlap && back != nil && normKey(eraseNamed(u.describe(back))) == normKey(eraseNamed(d)):
				w.violate(sigRace, fmt.Sprintf("after a lost typedef race the context's type table maps the type value of %s to the type %s: translating the type to another context and back does not return it", ordKey(u.describe(tw)), ordKey(u.describe(back))))
			default:
				w.violate("roundtrip:back:"+kindOf(typ), fmt.Sprintf("translating %s to another context and back yields %s (%v)", ordKey(d), ordKey(u.describe(back)), err))
			}
			continue
		}
		// decoding the serialized structure anywhere denotes the same structure
		third := zed.NewContext()
		dt, rest := third.DecodeTypeValue(zed.EncodeTypeValue(typ))
		if rest == nil || normKey(u.describe(dt)) != nk {
			w.violate("roundtrip:decode:"+kindOf(typ), fmt.Sprintf("decoding the type value of %s in a fresh context yields %s", ordKey(d), ordKey(u.describe(dt))))
		}
	}
	// the last binding of every type name is a type of this context
	for _, spec := range []string{"m", "n"} {
		if d := w.ctx.LookupTypeDef(u.name(spec)); d != nil {
			if reg, err := w.ctx.LookupType(zed.TypeID(d)); err != nil || reg != zed.Type(d) {
				w.violate("unregistered-type-object:typedef", fmt.Sprintf("LookupTypeDef(%q) returns a type object (%s, id %d) that is not the context's type of that id (%v)", u.name(spec), ordKey(u.describe(d)), zed.TypeID(d), err))
			}
		}
	}
	// union order insensitivity, directly: listing the members of every
	// union of the context in reverse order yields the same object.
	for _, typ := range all {
		un, ok := typ.(*zed.TypeUnion)
		if !ok || len(un.Types) < 2 {
			continue
		}
		rev := make([]zed.Type, len(un.Types))
		for i, m := range un.Types {
			rev[len(rev)-1-i] = m
		}
		if got := w.ctx.LookupTypeUnion(rev); got != un {
			if hasTie(un) {
				w.violate(tieSig(un), fmt.Sprintf("LookupTypeUnion with the members of %s listed in reverse order returns a different type object (zed.CompareTypes returns 0 for two different member types)", ordKey(u.describe(un))))
			} else {
				w.violate("union-order-sensitive:"+fmt.Sprint(len(un.Types)), fmt.Sprintf("LookupTypeUnion with the members of %s listed in reverse order returns a different type object %s", ordKey(u.describe(un)), ordKey(u.describe(got))))
			}
		}
	}
}
