package main

import (
	"bytes"
	"fmt"
	"math/rand"
	"strings"

	zed "github.com/brimdata/super"
	"github.com/brimdata/super/zio"
	"github.com/brimdata/super/zio/zngio"
	"github.com/brimdata/super/zson"

	"verif/core"
)

// Portability across contexts at the place where it is used most: a ZNG input
// of several streams.  Every stream has its own local type context; one
// scanner worker maps local ids to the shared context through one
// MapperLookupCache that is reset at each stream boundary.  The values read
// back must be the values written, whatever the local ids meant in the
// previous stream and in whatever order they are first used.
var streamShapes = []string{
	`{a:1}`, `{c:10.0.0.1}`, `{a:{c:10.0.0.2}}`, `{b:{a:2}}`, `[1,2]`, `{x:"s"}`,
	`{a:{c:10.0.0.3},x:"t"}`, `{c:10.0.0.4}`, `{a:3}`, `|[1]|`, `{b:{b:{a:4}}}`, `"str"`, `{a:5}(=n)`,
}

func zngStreams(c *core.Ctx, n int) error {
	rng := rand.New(rand.NewSource(c.Seed*31337 + 5))
	for i := 0; i < n; i++ {
		nstreams := 2 + rng.Intn(2)
		var streams [][]string
		if i == 0 {
			// the shape of the seeded scenario: the later stream uses a higher
			// local id before a lower one
			streams = [][]string{{`{a:1}`}, {`{a:{c:10.0.0.2}}`, `{c:10.0.0.1}`}}
		} else {
			for s := 0; s < nstreams; s++ {
				var vals []string
				for k := 1 + rng.Intn(3); k > 0; k-- {
					vals = append(vals, streamShapes[rng.Intn(len(streamShapes))])
				}
				streams = append(streams, vals)
			}
		}
		src := zed.NewContext()
		var buf bytes.Buffer
		w := zngio.NewWriter(zio.NopCloser(&buf))
		var want []string
		for _, st := range streams {
			for _, lit := range st {
				v, err := zson.ParseValue(src, lit)
				if err != nil {
					return fmt.Errorf("parse %s: %w", lit, err)
				}
				want = append(want, zson.FormatValue(v))
				if err := w.Write(v); err != nil {
					return err
				}
			}
			if err := w.EndStream(); err != nil {
				return err
			}
		}
		if err := w.Close(); err != nil {
			return err
		}
		for _, threads := range []int{1, 0} {
			got, err := readZNG(buf.Bytes(), threads)
			c.Eval(fmt.Sprintf("zngstreams|%d|%d|%d", c.Seed, i, threads), true)
			if err != nil || strings.Join(got, "\n") != strings.Join(want, "\n") {
				c.Violate("zng-multistream-types:"+fmt.Sprint(threads == 1), fmt.Sprintf("reading a ZNG input of %d streams (Threads:%d) yields %v (%v); written: %v", len(streams), threads, got, err, want),
					map[string]any{"kind": "zngstreams", "streams": streams, "threads": threads})
			}
		}
	}
	return nil
}

func readZNG(data []byte, threads int) (out []string, err error) {
	defer func() {
		if r := recover(); r != nil {
			err = fmt.Errorf("panic: %v", r)
		}
	}()
	r := zngio.NewReaderWithOpts(zed.NewContext(), bytes.NewReader(data), zngio.ReaderOpts{Threads: threads})
	defer r.Close()
	for {
		v, err := r.Read()
		if err != nil {
			return out, err
		}
		if v == nil {
			return out, nil
		}
		out = append(out, zson.FormatValue(*v))
	}
}

// mapperHistories drives one shared context, one MapperLookupCache and a
// fresh Mapper per stream through long random histories of Enter / Lookup /
// Reset over random local contexts; every lookup must denote the local type
// of the current stream (or be nil for an id the stream has not entered).
func mapperHistories(c *core.Ctx, n int) {
	rng := rand.New(rand.NewSource(c.Seed*7919 + 11))
	pool := []string{`{a:int64}`, `{c:ip}`, `{a:{c:ip}}`, `{b:{a:int64}}`, `[int64]`, `{x:string}`, `(int64,string)`, `n={a:int64}`, `|{string:int64}|`, `error({a:int64})`}
	for i := 0; i < n; i++ {
		shared := zed.NewContext()
		var cache zed.MapperLookupCache
		var trail []string
		for s := 0; s < 2+rng.Intn(3); s++ {
			local := zed.NewContext()
			var ltypes []zed.Type
			for k := 1 + rng.Intn(4); k > 0; k-- {
				t, err := zson.ParseType(local, pool[rng.Intn(len(pool))])
				if err != nil {
					c.Inconclusive("mapper history: %v", err)
					return
				}
				ltypes = append(ltypes, t)
			}
			mapper := zed.NewMapper(shared)
			cache.Reset(mapper)
			trail = append(trail, "reset")
			entered := map[int]zed.Type{}
			for op := 0; op < 2+rng.Intn(8); op++ {
				t := ltypes[rng.Intn(len(ltypes))]
				id := zed.TypeID(t)
				if rng.Intn(2) == 0 {
					if _, err := mapper.Enter(t); err != nil {
						c.Inconclusive("mapper history: Enter: %v", err)
						return
					}
					entered[id] = t
					trail = append(trail, fmt.Sprintf("enter %d=%s", id, zson.FormatType(t)))
					continue
				}
				// look up this id or any lower local id
				id = zed.IDTypeComplex + rng.Intn(id-zed.IDTypeComplex+1)
				got := cache.Lookup(id)
				trail = append(trail, fmt.Sprintf("lookup %d", id))
				want, ok := entered[id]
				bad := (got == nil) != !ok
				if !bad && got != nil {
					bad = zson.FormatType(got) != zson.FormatType(want)
					if back, err := shared.LookupType(zed.TypeID(got)); err != nil || back != got {
						bad = true
					}
				}
				if bad {
					c.Violate("mapper-cache-stale:MapperLookupCache", fmt.Sprintf("MapperLookupCache.Lookup(%d) returns %v after %v; the current stream entered %v for that id", id, fmtType(got), trail, fmtType(want)),
						map[string]any{"kind": "mapper", "seed": c.Seed, "index": i, "trail": trail})
					return
				}
			}
		}
		c.Eval(fmt.Sprintf("mapper|%d|%d", c.Seed, i), true)
	}
}

func fmtType(t zed.Type) string {
	if t == nil {
		return "nil"
	}
	return zson.FormatType(t)
}
