package main

import (
	"encoding/binary"
	"fmt"
	"sort"
	"strconv"
	"strings"

	zed "github.com/brimdata/super"
)

// Term is an ordered type term of TypeContext.tla: k kind, s strings (field
// names / enum symbols / <<type name>> / <<primitive token>>), c children.
type Term struct {
	K string   `json:"k"`
	S []string `json:"s"`
	C []Term   `json:"c"`
}

// Node is one entry of the spec's byID: children are type ids.
type Node struct {
	K string   `json:"k"`
	S []string `json:"s"`
	C []int    `json:"c"`
}

const specNP = 2 // spec ids 1,2 are the primitives; complex ids start at 3

// universe maps the spec's small alphabets to concrete names and primitive
// types.  Every variant preserves the byte order the spec's Rank assumes
// (a<b, m<n, s<t, id(p1)<id(p2)).
type universe struct {
	Idx    int
	names  map[string]string
	inv    map[string]string
	prims  [2]zed.Type
	primID [2]byte
}

var fieldVariants = [][2]string{{"a", "b"}, {"A", "a"}, {"", "é"}, {"a b", "a.b"}}
var tnameVariants = [][2]string{{"m", "n"}, {"M", "m"}, {"foo", "foo.bar"}, {"ℤ", "ℤℤ"}}
var symVariants = [][2]string{{"s", "t"}, {"", "x"}, {"a", "a a"}, {"S", "s"}}
var primVariants = [][2]zed.Type{{zed.TypeInt64, zed.TypeString}, {zed.TypeUint8, zed.TypeNull}, {zed.TypeTime, zed.TypeType}, {zed.TypeBool, zed.TypeIP}}

func newUniverse(idx int) *universe {
	u := &universe{Idx: idx, names: map[string]string{}, inv: map[string]string{}}
	f := fieldVariants[idx%4]
	t := tnameVariants[(idx/4)%4]
	s := symVariants[(idx/16)%4]
	p := primVariants[(idx/64)%4]
	for spec, real := range map[string]string{"a": f[0], "b": f[1], "m": t[0], "n": t[1], "s": s[0], "t": s[1]} {
		u.names[spec] = real
	}
	u.prims = p
	u.primID = [2]byte{byte(p[0].ID()), byte(p[1].ID())}
	return u
}

const numUniverses = 256

func (u *universe) name(spec string) string {
	if r, ok := u.names[spec]; ok {
		return r
	}
	return spec
}

func (u *universe) prim(tok string) zed.Type {
	if tok == "p1" {
		return u.prims[0]
	}
	return u.prims[1]
}

// encode maps a token sequence of the spec to the real type value bytes.
func (u *universe) encode(tok []string) ([]byte, error) {
	var b []byte
	pos := 0
	next := func() (string, error) {
		if pos >= len(tok) {
			return "", fmt.Errorf("token sequence too short: %v", tok)
		}
		pos++
		return tok[pos-1], nil
	}
	count := func() (int, error) {
		s, err := next()
		if err != nil {
			return 0, err
		}
		n, err := strconv.Atoi(s)
		if err != nil {
			return 0, fmt.Errorf("bad count token %q in %v", s, tok)
		}
		b = binary.AppendUvarint(b, uint64(n))
		return n, nil
	}
	str := func() error {
		s, err := next()
		if err != nil {
			return err
		}
		r := u.name(s)
		b = binary.AppendUvarint(b, uint64(len(r)))
		b = append(b, r...)
		return nil
	}
	var typ func() error
	typ = func() error {
		t, err := next()
		if err != nil {
			return err
		}
		switch t {
		case "p1":
			b = append(b, u.primID[0])
		case "p2":
			b = append(b, u.primID[1])
		case "rec":
			b = append(b, zed.TypeValueRecord)
			n, err := count()
			if err != nil {
				return err
			}
			for i := 0; i < n; i++ {
				if err := str(); err != nil {
					return err
				}
				if err := typ(); err != nil {
					return err
				}
			}
		case "union":
			b = append(b, zed.TypeValueUnion)
			n, err := count()
			if err != nil {
				return err
			}
			for i := 0; i < n; i++ {
				if err := typ(); err != nil {
					return err
				}
			}
		case "arr", "set", "err":
			b = append(b, map[string]byte{"arr": zed.TypeValueArray, "set": zed.TypeValueSet, "err": zed.TypeValueError}[t])
			return typ()
		case "map":
			b = append(b, zed.TypeValueMap)
			if err := typ(); err != nil {
				return err
			}
			return typ()
		case "enum":
			b = append(b, zed.TypeValueEnum)
			n, err := count()
			if err != nil {
				return err
			}
			for i := 0; i < n; i++ {
				if err := str(); err != nil {
					return err
				}
			}
		case "def":
			b = append(b, zed.TypeValueNameDef)
			if err := str(); err != nil {
				return err
			}
			return typ()
		case "ref":
			b = append(b, zed.TypeValueNameRef)
			return str()
		default:
			return fmt.Errorf("unknown token %q in %v", t, tok)
		}
		return nil
	}
	if err := typ(); err != nil {
		return nil, err
	}
	if pos != len(tok) {
		return nil, fmt.Errorf("trailing tokens in %v", tok)
	}
	return b, nil
}

// ser is the harness's own transcription of the type value format
// (docs/formats/zng.md section 4) for an ordered term: union members as
// listed, name definition on first occurrence of a (name, inner type) binding,
// reference while that binding is the last one for the name.
func ser(t Term) []string {
	defs := map[string]string{}
	var out []string
	var walk func(t Term)
	walk = func(t Term) {
		switch t.K {
		case "prim":
			out = append(out, t.S[0])
		case "named":
			inner := ordKey(t.C[0])
			if prev, ok := defs[t.S[0]]; ok && prev == inner {
				out = append(out, "ref", t.S[0])
				return
			}
			out = append(out, "def", t.S[0])
			walk(t.C[0])
			defs[t.S[0]] = inner
		case "rec":
			out = append(out, "rec", strconv.Itoa(len(t.C)))
			for i, c := range t.C {
				out = append(out, t.S[i])
				walk(c)
			}
		case "union":
			out = append(out, "union", strconv.Itoa(len(t.C)))
			for _, c := range t.C {
				walk(c)
			}
		case "enum":
			out = append(out, "enum", strconv.Itoa(len(t.S)))
			out = append(out, t.S...)
		default: // arr set err map
			out = append(out, t.K)
			for _, c := range t.C {
				walk(c)
			}
		}
	}
	walk(t)
	return out
}

// ordKey renders the ordered term; normKey renders the structure proper
// (union members as a set).
func ordKey(t Term) string  { return key(t, false) }
func normKey(t Term) string { return key(t, true) }

func key(t Term, norm bool) string {
	var kids []string
	for _, c := range t.C {
		kids = append(kids, key(c, norm))
	}
	if norm && t.K == "union" {
		sort.Strings(kids)
	}
	return t.K + "<" + strings.Join(quoteAll(t.S), ",") + ">(" + strings.Join(kids, ",") + ")"
}

func quoteAll(s []string) []string {
	out := make([]string, len(s))
	for i, x := range s {
		out[i] = strconv.Quote(x)
	}
	return out
}

// eraseNamed forgets what names are bound to: Named(n, X) becomes Named(n).
// Two types that differ only after this erasure differ only in typedef
// bindings -- the fingerprint of the decoder's def/ref race.
func eraseNamed(t Term) Term {
	if t.K == "named" {
		return Term{K: "named", S: t.S}
	}
	out := Term{K: t.K, S: t.S}
	for _, c := range t.C {
		out.C = append(out.C, eraseNamed(c))
	}
	return out
}

// build creates the term in ctx bottom-up through the Lookup* methods (union
// members are passed in the listed order).
func (u *universe) build(ctx *zed.Context, t Term) (zed.Type, error) {
	var kids []zed.Type
	if t.K != "prim" {
		for _, c := range t.C {
			k, err := u.build(ctx, c)
			if err != nil {
				return nil, err
			}
			kids = append(kids, k)
		}
	}
	return u.lookup(ctx, t, kids)
}

// lookup is one direct Lookup* call for the top node of t with the given
// (already existing) children.
func (u *universe) lookup(ctx *zed.Context, t Term, kids []zed.Type) (zed.Type, error) {
	switch t.K {
	case "prim":
		return u.prim(t.S[0]), nil
	case "rec":
		fields := make([]zed.Field, len(kids))
		for i := range kids {
			fields[i] = zed.NewField(u.name(t.S[i]), kids[i])
		}
		r, err := ctx.LookupTypeRecord(fields)
		if err != nil {
			return nil, err
		}
		return r, nil
	case "arr":
		return ctx.LookupTypeArray(kids[0]), nil
	case "set":
		return ctx.LookupTypeSet(kids[0]), nil
	case "err":
		return ctx.LookupTypeError(kids[0]), nil
	case "map":
		return ctx.LookupTypeMap(kids[0], kids[1]), nil
	case "union":
		return ctx.LookupTypeUnion(append([]zed.Type(nil), kids...)), nil
	case "enum":
		syms := make([]string, len(t.S))
		for i, s := range t.S {
			syms[i] = u.name(s)
		}
		return ctx.LookupTypeEnum(syms), nil
	case "named":
		n, err := ctx.LookupTypeNamed(u.name(t.S[0]), kids[0])
		if err != nil {
			return nil, err
		}
		return n, nil
	}
	return nil, fmt.Errorf("build: unknown kind %q", t.K)
}

// describe renders a real type as an ordered term in the spec's vocabulary
// (names are left as the real names).
func (u *universe) describe(typ zed.Type) Term {
	switch t := typ.(type) {
	case *zed.TypeNamed:
		return Term{K: "named", S: []string{t.Name}, C: []Term{u.describe(t.Type)}}
	case *zed.TypeRecord:
		out := Term{K: "rec"}
		for _, f := range t.Fields {
			out.S = append(out.S, f.Name)
			out.C = append(out.C, u.describe(f.Type))
		}
		return out
	case *zed.TypeArray:
		return Term{K: "arr", C: []Term{u.describe(t.Type)}}
	case *zed.TypeSet:
		return Term{K: "set", C: []Term{u.describe(t.Type)}}
	case *zed.TypeError:
		return Term{K: "err", C: []Term{u.describe(t.Type)}}
	case *zed.TypeMap:
		return Term{K: "map", C: []Term{u.describe(t.KeyType), u.describe(t.ValType)}}
	case *zed.TypeUnion:
		out := Term{K: "union"}
		for _, m := range t.Types {
			out.C = append(out.C, u.describe(m))
		}
		return out
	case *zed.TypeEnum:
		return Term{K: "enum", S: append([]string(nil), t.Symbols...)}
	case nil:
		return Term{K: "nil"}
	}
	return Term{K: "prim", S: []string{zed.PrimitiveName(typ)}}
}

// real maps a spec term to the term describe() would produce for it.
func (u *universe) real(t Term) Term {
	out := Term{K: t.K}
	if t.K == "prim" {
		out.S = []string{zed.PrimitiveName(u.prim(t.S[0]))}
		return out
	}
	for _, s := range t.S {
		out.S = append(out.S, u.name(s))
	}
	for _, c := range t.C {
		out.C = append(out.C, u.real(c))
	}
	return out
}

func kindOf(typ zed.Type) string {
	switch typ.(type) {
	case *zed.TypeNamed:
		return "named"
	case *zed.TypeRecord:
		return "rec"
	case *zed.TypeArray:
		return "arr"
	case *zed.TypeSet:
		return "set"
	case *zed.TypeError:
		return "err"
	case *zed.TypeMap:
		return "map"
	case *zed.TypeUnion:
		return "union"
	case *zed.TypeEnum:
		return "enum"
	case nil:
		return "nil"
	}
	return "prim"
}

// tieOf looks for a union inside typ with two distinct member types that
// zed.CompareTypes cannot order.  It returns "" (none), "known" (the members
// are named types with the same name and the same underlying type: finding
// F-C05-3) or "other:<kind>" for any other pair.
func tieOf(typ zed.Type) string {
	best := ""
	merge := func(s string) {
		if s != "" && (best == "" || best == "known") {
			best = s
		}
	}
	switch t := typ.(type) {
	case *zed.TypeNamed:
		merge(tieOf(t.Type))
	case *zed.TypeRecord:
		for _, f := range t.Fields {
			merge(tieOf(f.Type))
		}
	case *zed.TypeArray:
		merge(tieOf(t.Type))
	case *zed.TypeSet:
		merge(tieOf(t.Type))
	case *zed.TypeError:
		merge(tieOf(t.Type))
	case *zed.TypeMap:
		merge(tieOf(t.KeyType))
		merge(tieOf(t.ValType))
	case *zed.TypeUnion:
		for i, a := range t.Types {
			for _, b := range t.Types[i+1:] {
				if a != b && zed.CompareTypes(a, b) == 0 {
					na, oka := a.(*zed.TypeNamed)
					nb, okb := b.(*zed.TypeNamed)
					if oka && okb && na.Name == nb.Name && na.ID() == nb.ID() {
						merge("known")
					} else {
						merge("other:" + kindOf(a))
					}
				}
			}
			merge(tieOf(a))
		}
	}
	return best
}

func hasTie(typ zed.Type) bool { return tieOf(typ) != "" }

// tieSig is the violation signature for an order-sensitive union.
func tieSig(typs ...zed.Type) string {
	for _, t := range typs {
		if k := tieOf(t); k != "" && k != "known" {
			return "union-order-sensitive:comparetypes-tie:" + k
		}
	}
	return sigTie
}

// MarshalJSON renders empty slices as [] (TLC must see tuples, not null).
func (t Term) MarshalJSON() ([]byte, error) {
	var b strings.Builder
	b.WriteString(`{"k":` + strconv.Quote(t.K) + `,"s":[`)
	for i, s := range t.S {
		if i > 0 {
			b.WriteByte(',')
		}
		b.WriteString(strconv.Quote(s))
	}
	b.WriteString(`],"c":[`)
	for i, c := range t.C {
		if i > 0 {
			b.WriteByte(',')
		}
		cb, _ := c.MarshalJSON()
		b.Write(cb)
	}
	b.WriteString(`]}`)
	return []byte(b.String()), nil
}

// tokens is the inverse of encode: real type value bytes -> spec tokens.
// Bytes that are not a type value over this universe yield <<"garbage">>.
func (u *universe) tokens(b []byte) []string {
	garbage := []string{"garbage"}
	inv := map[string]string{}
	for spec, real := range u.names {
		inv[real] = spec
	}
	var out []string
	ok := true
	var str func(alpha string) bool
	str = func(alpha string) bool {
		n, k := binary.Uvarint(b)
		if k <= 0 || int(n) > len(b)-k {
			return false
		}
		name := string(b[k : k+int(n)])
		b = b[k+int(n):]
		for _, spec := range strings.Split(alpha, "") {
			if u.names[spec] == name {
				out = append(out, spec)
				return true
			}
		}
		return false
	}
	count := func() (int, bool) {
		n, k := binary.Uvarint(b)
		if k <= 0 || n > 16 {
			return 0, false
		}
		b = b[k:]
		out = append(out, strconv.Itoa(int(n)))
		return int(n), true
	}
	var typ func() bool
	typ = func() bool {
		if len(b) == 0 {
			return false
		}
		id := b[0]
		b = b[1:]
		switch {
		case id == u.primID[0]:
			out = append(out, "p1")
		case id == u.primID[1]:
			out = append(out, "p2")
		case id == zed.TypeValueRecord:
			out = append(out, "rec")
			n, ok := count()
			if !ok {
				return false
			}
			for i := 0; i < n; i++ {
				if !str("ab") || !typ() {
					return false
				}
			}
		case id == zed.TypeValueUnion:
			out = append(out, "union")
			n, ok := count()
			if !ok {
				return false
			}
			for i := 0; i < n; i++ {
				if !typ() {
					return false
				}
			}
		case id == zed.TypeValueArray:
			out = append(out, "arr")
			return typ()
		case id == zed.TypeValueSet:
			out = append(out, "set")
			return typ()
		case id == zed.TypeValueError:
			out = append(out, "err")
			return typ()
		case id == zed.TypeValueMap:
			out = append(out, "map")
			return typ() && typ()
		case id == zed.TypeValueEnum:
			out = append(out, "enum")
			n, ok := count()
			if !ok {
				return false
			}
			for i := 0; i < n; i++ {
				if !str("st") {
					return false
				}
			}
		case id == zed.TypeValueNameDef:
			out = append(out, "def")
			return str("mn") && typ()
		case id == zed.TypeValueNameRef:
			out = append(out, "ref")
			return str("mn")
		default:
			return false
		}
		return true
	}
	_ = inv
	if ok = typ(); !ok || len(b) != 0 {
		return garbage
	}
	return out
}
