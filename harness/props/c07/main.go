// C07 -- the optimizer preserves program meaning.
//
// specs/Dataflow.tla is a reference semantics Sem(program, input) of a bounded
// operator algebra; specs/Rewrite.tla transcribes the optimizer's rules as term
// rewrites.  TLC explores programs x inputs x declared sort keys, checks
// Sem(Optimize(p), in) ~ Sem(p, in) in every state and prints every state as a
// case.  This harness replays every case on the real code three ways: the plan
// exactly as analyzed (U), the optimized plan (O), and the spec's predictions:
//
//	U vs O                      the property (sequence where the spec says the
//	                            order is defined, multiset elsewhere)
//	U vs Sem(p)                 binds the reference semantics (drift, no alarm)
//	O vs Sem(Optimize(p)),      binds the rule transcription (drift, no alarm)
//	real plan vs PlanCanon
//
// plus the repository's own program corpus (compiler/parser/valid.zed and the
// ztests that compile) over generated inputs, as analyzed vs optimized.
package main

import (
	"context"
	"encoding/json"
	"errors"
	"fmt"
	"io"
	"os"
	"runtime/debug"
	"sort"
	"strconv"
	"strings"
	"sync"
	"time"

	"github.com/brimdata/super/zbuf"

	"verif/core"
)

type resJ struct {
	S      []string `json:"s"`
	Cls    []int    `json:"cls"` // ordered partition: admissible orders permute only inside a class
	Ord    bool     `json:"ord"`
	By     string   `json:"by"`
	Det    bool     `json:"det"`
	Poison bool     `json:"poison"`
}

type caseJ struct {
	Ops   []string `json:"ops"`
	Input []string `json:"input"`
	Sk    string   `json:"sk"`
	Ref   resJ     `json:"ref"`
	Plan  string   `json:"plan"`
	Opt   resJ     `json:"opt"`
	Taint []string `json:"taint"`
	Rules []string `json:"rules"`
	Eq    bool     `json:"eq"`
	Dem   string   `json:"demand"`
}

func (cs *caseJ) program() string {
	if len(cs.Ops) == 0 {
		return "pass"
	}
	return strings.Join(cs.Ops, " | ")
}

func (cs *caseJ) inputZSON() string {
	var b strings.Builder
	for _, v := range cs.Input {
		b.WriteString(zsonOfCompact(v))
		b.WriteByte('\n')
	}
	return b.String()
}

func (cs *caseJ) key() string {
	return cs.program() + "\x00" + strings.Join(cs.Input, ";") + "\x00" + cs.Sk
}

// The taint tags of Rewrite.tla, each a known (unrepaired) defect of the optimizer.
var taintTags = []string{"lift-stateful-expr", "join-dir-nulls", "fork-sortkey", "stale-sortkey", "join-lockstep", "pushdown-error", "merge-filters-error", "sortdir-null-missing", "where-error-sortkey"}

// The rules of Rewrite.tla (non-vacuity: each must fire in some exported case).
var ruleNames = []string{"merge-filters", "remove-pass", "lift-summarize", "lift-sort-new-merge", "lift-sort-under-merge",
	"lift-head-tail", "lift-stateless", "summarize-sort-dir", "join-dir", "filter-into-source"}

type witness struct {
	Kind    string   `json:"kind"` // "spec" | "corpus" | "pool"
	Program string   `json:"program"`
	Input   string   `json:"input"`
	Sk      string   `json:"sk"`
	Batch   int      `json:"batch"`
	Mode    string   `json:"mode"` // "seq" | "bag" | "sorted:<by>" | "classes"
	Cls     []int    `json:"cls,omitempty"`
	U       []string `json:"as_analyzed"`
	O       []string `json:"optimized"`
	UErr    string   `json:"as_analyzed_err,omitempty"`
	OErr    string   `json:"optimized_err,omitempty"`
	PlanU   string   `json:"plan_as_analyzed,omitempty"`
	PlanO   string   `json:"plan_optimized,omitempty"`
	Taint   []string `json:"spec_taint,omitempty"`
}

type harness struct {
	c   *core.Ctx
	ctx context.Context
	mu  sync.Mutex

	ruleSeen       map[string]int
	taintPredicted map[string]int // cases where the spec predicts non-equivalence under that tag
	taintObserved  map[string]int // cases where the real code shows it
	undetermined   int
	checked        int
	planChecked    int
	lockstepSkips  int
	demandPruned   int // cases whose inferred demand is a proper field list (and equals the spec's)
	nviol          int
	lockstepRun    map[string]bool // the join-lockstep instances that are run in the current pass

	corpusChecked, corpusSkipErr, corpusSkipOrder, corpusSkipNondet int
}

// drift reports a spec/code disagreement that is not a property violation.
func (h *harness) drift(format string, a ...any) {
	h.c.Drift(format, a...)
	if f := os.Getenv("C07_DRIFT_FILE"); f != "" {
		h.mu.Lock()
		if fd, err := os.OpenFile(f, os.O_APPEND|os.O_CREATE|os.O_WRONLY, 0o644); err == nil {
			fmt.Fprintf(fd, format+"\n", a...)
			fd.Close()
		}
		h.mu.Unlock()
	}
}

func hasTaint(cs *caseJ, t string) bool {
	for _, x := range cs.Taint {
		if x == t {
			return true
		}
	}
	return false
}

func isTimeout(err error) bool {
	return err != nil && (errors.Is(err, context.DeadlineExceeded) || strings.Contains(err.Error(), "deadline exceeded"))
}

const (
	caseTimeout    = 15 * time.Second // tiny inputs: milliseconds when live
	confirmTimeout = 60 * time.Second
)

func errStr(err error) string {
	if err == nil {
		return ""
	}
	return err.Error()
}

// compare is the property's oracle on two real results.  mode: "seq" (same
// sequence), "bag" (same multiset), "sorted:<by>" (same multiset, and O sorted
// by the comparator whenever U is).
func compare(mode string, U, O []string) (bool, string) { return compareCls(mode, nil, U, O) }

// blocks returns the maximal runs of equal class ids.
func blocks(cls []int) [][2]int {
	var out [][2]int
	for i := 0; i < len(cls); {
		j := i
		for j < len(cls) && cls[j] == cls[i] {
			j++
		}
		out = append(out, [2]int{i, j})
		i = j
	}
	return out
}

// sameUpToClasses: b is a permutation of a that only moves values inside a class.
func sameUpToClasses(cls []int, a, b []string) bool {
	if len(a) != len(b) || len(cls) != len(a) {
		return false
	}
	for _, r := range blocks(cls) {
		if !sameBag(a[r[0]:r[1]], b[r[0]:r[1]]) {
			return false
		}
	}
	return true
}

func compareCls(mode string, cls []int, U, O []string) (bool, string) {
	switch {
	case mode == "classes":
		if !sameBag(U, O) {
			return false, "different values"
		}
		if !sameUpToClasses(cls, U, O) {
			return false, "same values, but in an order the program does not allow (values moved across the groups whose relative order the program defines)"
		}
		return true, ""
	case mode == "seq":
		if !sameSeq(U, O) {
			if sameBag(U, O) {
				return false, "same values in a different order although the program defines the order"
			}
			return false, "different values"
		}
	case strings.HasPrefix(mode, "sorted:"):
		if !sameBag(U, O) {
			return false, "different values"
		}
		by := strings.TrimPrefix(mode, "sorted:")
		if sortedBy(by, eraseAll(U)) && !sortedBy(by, eraseAll(O)) {
			return false, "the optimized output is not sorted by " + by + " although the program sorts by it"
		}
	default:
		if !sameBag(U, O) {
			return false, "different values"
		}
	}
	return true, ""
}

func kindsOf(ops []string) string {
	seen := map[string]bool{}
	var ks []string
	for _, o := range ops {
		f := strings.Fields(o)
		k := f[0]
		if (k == "left" || k == "anti" || k == "right") && len(f) > 1 {
			k = f[1]
		}
		if strings.HasPrefix(o, "count()") || strings.HasPrefix(o, "sum(") {
			k = "summarize"
		}
		if !seen[k] {
			seen[k] = true
			ks = append(ks, k)
		}
	}
	return strings.Join(ks, ",")
}

// runner executes a case's program as analyzed or optimized.
type runner struct {
	kind string // "spec" (reader input, declared sort key) | "pool" (lake pool scan)
	run  func(cs *caseJ, noOpt bool, timeout time.Duration) runResult
	text func(cs *caseJ) string
}

func (h *harness) readerRunner() *runner {
	return &runner{
		kind: "spec",
		run: func(cs *caseJ, noOpt bool, timeout time.Duration) runResult {
			return runProgram(h.ctx, cs.program(), runOpts{NoOptimize: noOpt, SortKey: cs.Sk, Timeout: timeout}, cs.inputZSON())
		},
		text: func(cs *caseJ) string { return cs.program() },
	}
}

// evalCase runs one TLC-exported case on the real code.
func (h *harness) evalCase(r *runner, cs *caseJ, batch int) {
	c := h.c
	prog, in := r.text(cs), cs.inputZSON()
	oTimeout := caseTimeout
	if hasTaint(cs, "join-lockstep") {
		// Known defect: the optimized plan can hang (the join reads a side whose sort
		// was skipped while the fork feeding both sides waits for the other one).
		// Reproduce it on a fixed handful of instances per pass; do not pay a
		// timeout for every instance.
		if !h.lockstepRun[cs.key()] {
			h.mu.Lock()
			h.lockstepSkips++
			h.mu.Unlock()
			return
		}
		oTimeout = 3 * time.Second
	}
	U := r.run(cs, true, caseTimeout)
	O := r.run(cs, false, oTimeout)
	nontrivial := U.Canon != O.Canon
	c.Eval(fmt.Sprintf("%s|%d|%s", r.kind, batch, cs.key()), nontrivial)
	h.mu.Lock()
	for _, r := range cs.Rules {
		h.ruleSeen[r]++
	}
	if !cs.Eq && cs.Ref.Det {
		for _, t := range cs.Taint {
			h.taintPredicted[t]++
		}
	}
	h.mu.Unlock()
	w := witness{Kind: r.kind, Program: prog, Input: in, Sk: cs.Sk, Batch: batch, U: U.Rows, O: O.Rows,
		UErr: errStr(U.Err), OErr: errStr(O.Err), PlanU: U.Canon, PlanO: O.Canon, Taint: cs.Taint}
	if isTimeout(U.Err) {
		c.Inconclusive("`%s` did not finish as analyzed within %s", prog, caseTimeout)
		return
	}
	if U.Err != nil {
		// every program of the algebra compiles and runs; otherwise the spec's rendering is off
		h.drift("spec program does not run as analyzed: %q: %v", prog, U.Err)
		return
	}
	if isTimeout(O.Err) {
		if hasTaint(cs, "join-lockstep") {
			h.mu.Lock()
			h.taintObserved["join-lockstep"]++
			h.mu.Unlock()
			c.Violate("taint:join-lockstep", fmt.Sprintf("`%s` (declared sort key %q, %d-value batches) terminates as analyzed but the optimized plan (join sorts skipped: %s) does not finish", prog, cs.Sk, batch, O.Canon), w)
			return
		}
		// not a known hang: make sure it is not just a slow machine
		O = r.run(cs, false, confirmTimeout)
		if isTimeout(O.Err) {
			c.Violate("optimized-plan-hangs:"+kindsOf(cs.Ops), fmt.Sprintf("`%s` (declared sort key %q, %d-value batches) terminates as analyzed but the optimized plan does not finish within %s: %s", prog, cs.Sk, batch, confirmTimeout, O.Canon), w)
			return
		}
		w.O, w.OErr = O.Rows, errStr(O.Err)
	}
	if O.Err != nil {
		c.Violate("optimized-plan-fails:"+kindsOf(cs.Ops), fmt.Sprintf("`%s` runs as analyzed but the optimized plan fails: %v", prog, O.Err), w)
		return
	}
	// (1) bind the rule transcription: the real optimized plan vs the spec's rewritten plan
	if batch == 100 && r.kind == "spec" {
		h.mu.Lock()
		h.planChecked++
		h.mu.Unlock()
		if O.Canon != cs.Plan {
			h.drift("plan: `%s` sk=%q: optimizer produced [%s], Rewrite.tla [%s]", prog, cs.Sk, O.Canon, cs.Plan)
		}
		if O.Dem != cs.Dem {
			h.drift("demand: `%s`: InferDemandSeqOut gives %q for the source of [%s], Rewrite.tla %q", prog, O.Dem, O.Canon, cs.Dem)
		} else if O.Dem != "*" {
			h.mu.Lock()
			h.demandPruned++
			h.mu.Unlock()
		}
	}
	// (2) bind the reference semantics: U vs Sem(p)
	eU, eO := eraseAll(U.Rows), eraseAll(O.Rows)
	if !cs.Ref.Det {
		h.mu.Lock()
		h.undetermined++
		h.mu.Unlock()
		return // the program's result is not defined on this input (head/tail/uniq of an unordered stream)
	}
	semOK := true
	switch {
	case cs.Ref.Ord:
		semOK = sameSeq(eU, cs.Ref.S)
	default:
		semOK = sameUpToClasses(cs.Ref.Cls, cs.Ref.S, eU) && (cs.Ref.By == "" || sortedBy(cs.Ref.By, eU))
	}
	if !semOK {
		h.drift("semantics: `%s` on %v sk=%q batch=%d: as analyzed %v, Sem %v (ord=%v by=%q)", prog, cs.Input, cs.Sk, batch, short(eU), short(cs.Ref.S), cs.Ref.Ord, cs.Ref.By)
		return // the reference semantics does not describe this case; no verdict from it
	}
	// (3) the property: optimized vs as analyzed
	mode := "bag"
	if cs.Ref.Ord {
		mode = "seq"
	} else if cs.Ref.By != "" {
		mode = "sorted:" + cs.Ref.By
	} else if len(blocks(cs.Ref.Cls)) > 1 {
		mode = "classes" // neither a sequence nor a bag: the order is defined between classes
		w.Cls = cs.Ref.Cls
	}
	w.Mode = mode
	h.mu.Lock()
	h.checked++
	h.mu.Unlock()
	ok, why := compareCls(mode, cs.Ref.Cls, U.Rows, O.Rows)
	if ok {
		// (4) bind Sem(Optimize(p)): only informative when the spec expects equivalence
		if !cs.Opt.Poison && len(cs.Taint) == 0 {
			if !(sameBag(eO, cs.Opt.S) && (!cs.Opt.Ord || sameSeq(eO, cs.Opt.S))) {
				h.drift("rewritten semantics: `%s` on %v sk=%q: optimized %v, Sem(Optimize) %v", prog, cs.Input, cs.Sk, short(eO), short(cs.Opt.S))
			}
		}
		return
	}
	// The real code violates the property on this case.  If the spec marks the
	// rewrite as tainted by a known defect and the observed behaviour is the one
	// that defect produces, it is that known finding; otherwise a new violation.
	sig := ""
	for _, t := range cs.Taint {
		match := false
		switch t {
		case "lift-stateful-expr", "join-dir-nulls", "pushdown-error", "merge-filters-error":
			// exactly the result the transcribed (wrong) rule predicts -- unless that result
			// is itself not determined (e.g. a tail behind the per-leg counters)
			match = sameBag(eO, cs.Opt.S) || !cs.Opt.Det || cs.Opt.Poison
		case "fork-sortkey", "stale-sortkey", "sortdir-null-missing", "where-error-sortkey":
			match = true // streaming release on keys that are not contiguous: groups are split, schedule dependent
		}
		if match {
			sig = "taint:" + t
			h.mu.Lock()
			h.taintObserved[t]++
			h.mu.Unlock()
			break
		}
	}
	if sig == "" {
		sig = "opt-differs:" + kindsOf(cs.Ops) + ":" + strings.SplitN(mode, ":", 2)[0]
		// one replay file per distinct signature; keep the report readable
		h.mu.Lock()
		h.nviol++
		over := c.Violations() >= 12
		h.mu.Unlock()
		if over {
			c.Add("violating_cases_not_listed", 1)
			return
		}
	}
	c.Violate(sig, fmt.Sprintf("`%s` (declared sort key %q) over %v: as analyzed %v, optimized %v: %s; optimized plan: %s",
		prog, cs.Sk, cs.Input, short(U.Rows), short(O.Rows), why, O.Canon), w)
}

func (h *harness) evalAll(r *runner, cases []caseJ, batch int) {
	zbuf.PullerBatchValues = batch
	h.lockstepRun = map[string]bool{}
	for i := range cases { // cases are sorted by key: a deterministic choice
		if hasTaint(&cases[i], "join-lockstep") && len(cases[i].Input) >= 3 && len(h.lockstepRun) < 6 {
			h.lockstepRun[cases[i].key()] = true
		}
	}
	var wg sync.WaitGroup
	ch := make(chan *caseJ, 256)
	for i := 0; i < 12; i++ {
		wg.Add(1)
		go func() {
			defer wg.Done()
			for cs := range ch {
				h.evalCase(r, cs, batch)
			}
		}()
	}
	for i := range cases {
		ch <- &cases[i]
	}
	close(ch)
	wg.Wait()
}

func parseCases(res *core.TLCResult) ([]caseJ, error) {
	var out []caseJ
	for _, line := range res.Prints {
		if !strings.HasPrefix(line, `"{`) {
			continue
		}
		s, err := strconv.Unquote(line)
		if err != nil {
			return nil, fmt.Errorf("cannot unquote TLC case line: %v", err)
		}
		var cs caseJ
		if err := json.Unmarshal([]byte(s), &cs); err != nil {
			return nil, fmt.Errorf("cannot decode TLC case: %v: %s", err, s)
		}
		out = append(out, cs)
	}
	return out, nil
}

func dedupe(cases []caseJ) []caseJ {
	seen := map[string]bool{}
	var out []caseJ
	for _, cs := range cases {
		k := cs.key()
		if !seen[k] {
			seen[k] = true
			out = append(out, cs)
		}
	}
	sort.Slice(out, func(i, j int) bool { return out[i].key() < out[j].key() })
	return out
}

func run(c *core.Ctx) error {
	h := &harness{c: c, ctx: context.Background(), ruleSeen: map[string]int{}, taintPredicted: map[string]int{}, taintObserved: map[string]int{}}
	c.Trust("TLC 1.8; the harness's type erasure of real values (ints of any width -> number, null of any type -> null) when comparing with Sem; zson parser/formatter; compiler.Parse + semantic analysis (the plan as analyzed is the reference)")
	c.Assume("operator algebra of Rewrite.tla (where, cut, drop, put, rename, yield, sort [-r, desc, -nulls first], head, tail, uniq, summarize count/sum by key incl. partials, fork, merge, switch, inner/left/anti/right join, pass, cut c:=count()); values {0,1,2,null,missing} in fields a,b; declared sort keys a:asc / a:desc only on inputs sorted that way with contiguous equal keys; zbuf.PullerBatchValues in {1,100}")
	c.Rule("cases = states of Rewrite.tla (program built one operator at a time x input x truthful declared sort key), each run on the real code as analyzed and optimized; plus corpus programs x generated inputs; a case is non-trivial iff the real optimizer changed the plan (canonical optimized plan != canonical plan as analyzed); distinct = distinct (program, input, sort key, batch size)")
	if c.Replay != "" {
		return h.replay()
	}

	if os.Getenv("C07_ONLY") == "corpus" { // development aid
		return h.corpus()
	}
	// ---- TLC: exhaustive over short programs
	cfg := "Rewrite.quick.cfg"
	if !c.Quick() {
		cfg = "Rewrite.thorough.cfg"
	}
	// The exhaustive run and the seeded simulation (longer programs over the
	// extended alphabet) are independent; run the two TLC processes side by side.
	simCfg, simNum, simDepth := "Rewrite.sim.cfg", 15, 5
	if !c.Quick() {
		simCfg, simNum = "Rewrite.simthorough.cfg", 500
	}
	t0 := time.Now()
	var cases []caseJ
	cache := os.Getenv("C07_CASE_CACHE") // development aid: reuse the TLC export of a previous run
	if b, err := os.ReadFile(cache); cache != "" && err == nil && json.Unmarshal(b, &cases) == nil && len(cases) > 0 {
		c.Logf("DEVELOPMENT: %d cases loaded from %s, TLC not run", len(cases), cache)
		c.Note("cases loaded from a cache file; TLC was not run in this invocation")
	} else {
		var res, sim *core.TLCResult
		var wg sync.WaitGroup
		wg.Add(2)
		go func() {
			defer wg.Done()
			res = c.MustHold(core.TLCRun{Module: "Rewrite", Cfg: cfg, Workers: 12, Timeout: 18 * time.Minute})
		}()
		go func() {
			defer wg.Done()
			sim = c.MustHold(core.TLCRun{Module: "Rewrite", Cfg: simCfg, Simulate: fmt.Sprintf("num=%d", simNum), Depth: simDepth, Seed: c.Seed, Workers: 1, Timeout: 18 * time.Minute})
		}()
		wg.Wait()
		if res == nil || sim == nil {
			return nil
		}
		var err error
		cases, err = parseCases(res)
		if err != nil {
			return err
		}
		nEx := len(cases)
		sc, err := parseCases(sim)
		if err != nil {
			return err
		}
		c.Logf("TLC: exhaustive %d states (Check holds), %d cases exported; simulation %d states visited (%.1fs)", res.Distinct, nEx, len(sc), time.Since(t0).Seconds())
		if nEx == 0 || len(sc) == 0 {
			c.Inconclusive("TLC exported no case (exhaustive %d, simulation %d)", nEx, len(sc))
		}
		res.Out, res.Prints, sim.Out, sim.Prints = "", nil, "", nil
		cases = dedupe(append(cases, sc...))
		c.Set("exhaustive_cases", nEx)
		c.Set("simulated_states", len(sc))
		if cache != "" {
			if b, err := json.Marshal(cases); err == nil {
				os.WriteFile(cache, b, 0o644)
			}
		}
	}
	c.Set("cases", len(cases))

	// ---- replay on the real code
	// Every case with the default batch size.  Then, with one value per batch (the
	// source delivers every record separately, so streaming operators -- group-by
	// release on sorted input, merge, join -- see every interleaving point): all
	// cases in which the spec says a sort key reached a summarize or a join or that
	// are tainted, and a seeded sample of the rest (1-value batches cost a 512 KB
	// buffer per record in zbuf.NewPuller).
	debug.SetGCPercent(400)
	t0 = time.Now()
	h.evalAll(h.readerRunner(), cases, 100)
	c.Logf("replayed %d cases with 100-value batches (%.1fs): %d verdicts, %d undetermined, %d violations", len(cases), time.Since(t0).Seconds(), h.checked, h.undetermined, c.Violations())
	t0 = time.Now()
	var second []caseJ
	every := 8
	if !c.Quick() {
		every = 2
	}
	for i := range cases {
		cs := &cases[i]
		streaming := len(cs.Taint) > 0
		for _, r := range cs.Rules {
			if r == "summarize-sort-dir" || r == "join-dir" {
				streaming = true
			}
		}
		if streaming || i%every == int(c.Seed%int64(every)) {
			second = append(second, *cs)
		}
	}
	h.evalAll(h.readerRunner(), second, 1)
	c.Logf("replayed %d cases with 1-value batches (%.1fs)", len(second), time.Since(t0).Seconds())
	c.Add("traces_validated_against_impl", int64(h.planChecked))
	c.Set("verdicts", h.checked)
	c.Set("undetermined_cases_skipped", h.undetermined)
	c.Set("plans_compared_with_rewrite_spec", h.planChecked)
	c.Set("demands_pruning_fields_compared", h.demandPruned)
	c.Set("rules_fired", h.ruleSeen)
	c.Set("taint_predicted_nonequivalent", h.taintPredicted)
	c.Set("taint_observed_on_real_code", h.taintObserved)
	for i := 0; i < len(cases) && i < 6000; i += 997 {
		cs := cases[i]
		c.Sample(map[string]any{"program": cs.program(), "input": cs.Input, "sk": cs.Sk, "sem": cs.Ref.S, "ord": cs.Ref.Ord, "plan": cs.Plan, "taint": cs.Taint})
	}
	// non-vacuity
	for _, r := range ruleNames {
		if h.ruleSeen[r] == 0 {
			c.Inconclusive("vacuous: rule %q of Rewrite.tla never fired in any exported case", r)
		}
	}
	c.Set("known_hang_instances_skipped", h.lockstepSkips)
	for _, t := range taintTags {
		if t == "join-lockstep" {
			continue // a hang is not expressible in Sem; witnessed on the real code instead
		}
		if t == "stale-sortkey" {
			// the cut/rename chain that witnessed it was repaired (3427a6655); what is left of the
			// ghost (a rename onto the key field) has no witness within the bounded inputs
			continue
		}
		if h.taintPredicted[t] == 0 {
			c.Inconclusive("vacuous: taint %q is never needed (no exported case where the spec predicts non-equivalence under it)", t)
		}
	}
	if h.checked == 0 {
		c.Inconclusive("no case reached a verdict")
	}

	// ---- lake pool scans
	if err := h.pools(cases); err != nil {
		return err
	}
	// ---- the repository's own programs
	if err := h.corpus(); err != nil {
		return err
	}
	return nil
}

func main() {
	if p := os.Getenv("C07_ADHOC"); p != "" {
		in, _ := io.ReadAll(os.Stdin)
		if n, _ := strconv.Atoi(os.Getenv("C07_BATCH")); n > 0 {
			zbuf.PullerBatchValues = n
		}
		for _, no := range []bool{true, false} {
			r := runProgram(context.Background(), p, runOpts{NoOptimize: no, SortKey: os.Getenv("C07_SORTKEY")}, string(in))
			fmt.Printf("--- NoOptimize=%v err=%v\n%s\n[%s]\n", no, r.Err, r.DAG, r.Canon)
			for _, row := range r.Rows {
				fmt.Println(row)
			}
		}
		return
	}
	core.Main("C07", "model_checking", run)
}
