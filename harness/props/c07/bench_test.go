package main

import (
	"context"
	"runtime/debug"
	"sync"
	"testing"
	"time"

	"github.com/brimdata/super/zbuf"
)

func benchPar(t *testing.T, label string, workers int) {
	in := "{a:1,b:0}\n{a:0,b:1}\n{a:2,b:2}\n{a:0,b:2}\n"
	progs := []string{"where a>0", "sort a | head 1", "fork (=> pass => pass) | sort a", "count() by a", "fork (=> sort a => sort a) | join on a=a c:=b"}
	t0 := time.Now()
	var wg sync.WaitGroup
	n := 2000
	ch := make(chan int, n)
	for i := 0; i < n; i++ {
		ch <- i
	}
	close(ch)
	for w := 0; w < workers; w++ {
		wg.Add(1)
		go func() {
			defer wg.Done()
			for i := range ch {
				runProgram(context.Background(), progs[i%len(progs)], runOpts{NoOptimize: i%2 == 0}, in)
			}
		}()
	}
	wg.Wait()
	t.Logf("%s workers=%d: %v per run (wall/n)", label, workers, time.Since(t0)/time.Duration(n))
}

func TestBench(t *testing.T) {
	zbuf.PullerBatchValues = 1
	debug.SetGCPercent(400)
	benchPar(t, "gc400", 1)
	benchPar(t, "gc400", 16)
	benchPar(t, "gc400", 64)
}
