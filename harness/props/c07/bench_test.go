package main

import (
	"context"
	"testing"
	"time"
)

func TestBench(t *testing.T) {
	in := "{a:1,b:0}\n{a:0,b:1}\n{a:2,b:2}\n"
	for _, p := range []string{"where a>0", "sort a | head 1", "fork (=> pass => pass) | sort a", "count() by a"} {
		t0 := time.Now()
		for i := 0; i < 200; i++ {
			runProgram(context.Background(), p, runOpts{NoOptimize: i%2 == 0}, in)
		}
		t.Logf("%-40s %v per run", p, time.Since(t0)/200)
	}
}
