package main

import (
	"fmt"
	"strings"

	"github.com/brimdata/super/compiler/ast/dag"
	"github.com/brimdata/super/order"
	"github.com/brimdata/super/zfmt"
)

// canonSeq renders a real plan (dag.Seq) in the canonical form that
// Rewrite.tla's PlanCanon produces for the rewritten term, so that the
// optimizer's real output can be compared with the spec's rule set.
func canonSeq(seq dag.Seq) string {
	var parts []string
	for _, op := range seq {
		if s := canonOp(op); s != "" {
			parts = append(parts, s)
		}
	}
	return strings.Join(parts, " | ")
}

func conj(e dag.Expr) []string {
	if b, ok := e.(*dag.BinaryExpr); ok && b.Op == "and" {
		return append(conj(b.LHS), conj(b.RHS)...)
	}
	return []string{zfmt.DAGExpr(e)}
}

func assigns(as []dag.Assignment) string {
	var out []string
	for _, a := range as {
		out = append(out, zfmt.DAGExpr(a.LHS)+":="+zfmt.DAGExpr(a.RHS))
	}
	return strings.Join(out, ",")
}

func b01(b bool) string {
	if b {
		return "1"
	}
	return "0"
}

func ascDesc(o order.Which) string {
	if o == order.Desc {
		return "desc"
	}
	return "asc"
}

func canonOp(op dag.Op) string {
	switch op := op.(type) {
	case *dag.DefaultScan:
		if op.Filter != nil {
			return "reader filter(" + strings.Join(conj(op.Filter), " and ") + ")"
		}
		return "reader"
	case *dag.Output:
		return ""
	case *dag.Filter:
		return "where " + strings.Join(conj(op.Expr), " and ")
	case *dag.Cut:
		return "cut " + assigns(op.Args)
	case *dag.Put:
		return "put " + assigns(op.Args)
	case *dag.Rename:
		return "rename " + assigns(op.Args)
	case *dag.Drop:
		var fs []string
		for _, e := range op.Args {
			fs = append(fs, zfmt.DAGExpr(e))
		}
		return "drop " + strings.Join(fs, ",")
	case *dag.Yield:
		var fs []string
		for _, e := range op.Exprs {
			fs = append(fs, zfmt.DAGExpr(e))
		}
		return "yield " + strings.Join(fs, ",")
	case *dag.Sort:
		var ks []string
		for _, a := range op.Args {
			ks = append(ks, zfmt.DAGExpr(a.Key)+" "+ascDesc(a.Order))
		}
		return "sort " + strings.Join(ks, ",") + " r=" + b01(op.Reverse) + " nf=" + b01(op.NullsFirst)
	case *dag.Head:
		return fmt.Sprintf("head %d", op.Count)
	case *dag.Tail:
		return fmt.Sprintf("tail %d", op.Count)
	case *dag.Uniq:
		if op.Cflag {
			return "uniq -c"
		}
		return "uniq"
	case *dag.Pass:
		return "pass"
	case *dag.Summarize:
		s := "summ " + assigns(op.Aggs)
		if len(op.Keys) > 0 {
			s += " by " + assigns(op.Keys)
		}
		s += fmt.Sprintf(" dir=%d pin=%s pout=%s", op.InputSortDir, b01(op.PartialsIn), b01(op.PartialsOut))
		if op.Limit != 0 {
			s += fmt.Sprintf(" limit=%d", op.Limit)
		}
		return s
	case *dag.Fork:
		var legs []string
		for _, p := range op.Paths {
			l := canonSeq(p)
			if l == "" {
				l = "pass" // a leg that only carries the output operator
			}
			legs = append(legs, l)
		}
		return "fork(" + strings.Join(legs, " => ") + ")"
	case *dag.Switch:
		var cs []string
		for _, c := range op.Cases {
			e := "true"
			if c.Expr != nil {
				e = zfmt.DAGExpr(c.Expr)
			}
			l := canonSeq(c.Path)
			if l == "" {
				l = "pass"
			}
			cs = append(cs, e+" -> "+l)
		}
		s := "switch("
		if op.Expr != nil {
			s = "switch " + zfmt.DAGExpr(op.Expr) + " ("
		}
		return s + strings.Join(cs, " => ") + ")"
	case *dag.Merge:
		return "merge " + zfmt.DAGExpr(op.Expr) + " " + ascDesc(op.Order)
	case *dag.Combine:
		return "combine"
	case *dag.Join:
		return fmt.Sprintf("join %s %s=%s %s ldir=%d rdir=%d", op.Style, zfmt.DAGExpr(op.LeftKey), zfmt.DAGExpr(op.RightKey), assigns(op.Args), op.LeftDir, op.RightDir)
	case *dag.Scope:
		return "scope(" + canonSeq(op.Body) + ")"
	default:
		return fmt.Sprintf("%T", op)
	}
}

// opKinds returns the operator kinds of a plan (for shape classes / signatures).
func opKinds(seq dag.Seq, out map[string]bool) {
	for _, op := range seq {
		out[strings.TrimPrefix(fmt.Sprintf("%T", op), "*dag.")] = true
		switch op := op.(type) {
		case *dag.Fork:
			for _, p := range op.Paths {
				opKinds(p, out)
			}
		case *dag.Switch:
			for _, c := range op.Cases {
				opKinds(c.Path, out)
			}
		case *dag.Scope:
			opKinds(op.Body, out)
		case *dag.Over:
			opKinds(op.Body, out)
		}
	}
}
