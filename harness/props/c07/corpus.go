package main

func (h *harness) corpus() error { return nil }

func (h *harness) replay() error { return nil }
