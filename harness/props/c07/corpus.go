package main

import (
	"bufio"
	"encoding/json"
	"fmt"
	"math/rand"
	"os"
	"path/filepath"
	"regexp"
	"sort"
	"strings"
	"sync"

	"github.com/brimdata/super/compiler/ast/dag"
	"github.com/brimdata/super/compiler/data"
	"github.com/brimdata/super/pkg/storage"
	"github.com/brimdata/super/zbuf"
	"github.com/brimdata/super/ztest"

	"verif/core"
	"verif/lakeh"
)

// The repository's own programs: compiler/parser/valid.zed and every ztest with
// a `zed:` program.  There is no reference semantics for them; the oracle is
// optimized vs as analyzed only, as a sequence when the plan as analyzed is a
// single ordered path and as a multiset otherwise.  Programs whose result is not
// determined by the language (an order-sensitive operator or a stateful
// expression downstream of fork/switch/summarize/join, sort without keys ...)
// are skipped by a conservative static analysis of the plan as analyzed, and a
// program whose plan as analyzed gives two different results on the same input
// is skipped as well.

type corpusProg struct {
	Name  string
	Zed   string
	Input string // the test's own input (ZSON only), may be empty
}

func collectCorpus() ([]corpusProg, error) {
	repo := core.RepoDir()
	var out []corpusProg
	f, err := os.Open(filepath.Join(repo, "compiler/parser/valid.zed"))
	if err != nil {
		return nil, err
	}
	sc := bufio.NewScanner(f)
	n := 0
	for sc.Scan() {
		n++
		if line := strings.TrimSpace(sc.Text()); line != "" {
			out = append(out, corpusProg{Name: fmt.Sprintf("valid.zed:%d", n), Zed: line})
		}
	}
	f.Close()
	var files []string
	filepath.WalkDir(repo, func(path string, d os.DirEntry, err error) error {
		if err != nil {
			return nil
		}
		if d.IsDir() && (d.Name() == ".git" || d.Name() == "node_modules") {
			return filepath.SkipDir
		}
		if !d.IsDir() && strings.HasSuffix(path, ".yaml") && strings.Contains(path, "ztests") {
			files = append(files, path)
		}
		return nil
	})
	sort.Strings(files)
	for _, path := range files {
		zt, err := ztest.FromYAMLFile(path)
		if err != nil || zt.Zed == "" || zt.Skip != "" {
			continue
		}
		rel, _ := filepath.Rel(repo, path)
		p := corpusProg{Name: rel, Zed: zt.Zed}
		if zt.InputFlags == "" && !zt.Vector {
			p.Input = zt.Input
		}
		out = append(out, p)
	}
	return out, nil
}

var identRE = regexp.MustCompile(`[A-Za-z_][A-Za-z0-9_]*(\.[A-Za-z_][A-Za-z0-9_]*)*`)

var zedKeywords = map[string]bool{}

func init() {
	for _, k := range strings.Fields(`this and or not in by with as on from file pool get over yield where sort head tail uniq fuse cut drop put rename
		summarize count sum avg min max any collect union dcount fork switch case default pass join left right anti inner merge search
		true false null limit every nulls first last desc asc const func op type is has len grep split lower upper typeof kind error
		top sample shape cast crop fill order explode load output debug assert regexp regexp_replace string int64 uint64 float64 bool ip net time duration bytes
		unflatten flatten nest_dotted quiet missing coalesce now bucket floor ceil round abs sqrt pow log trim join levenshtein replace hex base64 network_of cidr_match
		map values keys compare under nameof typename fields parse_zson parse_uri strftime else`) {
		zedKeywords[k] = true
	}
}

var corpusVals = []string{"0", "1", "2", "-1", `"a"`, `"conn"`, "null", "1.5", "true", `"foo"`, "80", "1(uint64)"}

// genInput builds records over the field names the program mentions.
func genInput(zed string, rng *rand.Rand, n int) string {
	seen := map[string]bool{}
	var fields []string
	for _, id := range identRE.FindAllString(zed, -1) {
		top := strings.SplitN(id, ".", 2)[0]
		if zedKeywords[top] || seen[top] || strings.Contains(id, ".") && seen[id] {
			continue
		}
		seen[top] = true
		fields = append(fields, id)
		if len(fields) == 5 {
			break
		}
	}
	if len(fields) == 0 {
		fields = []string{"a", "b"}
	}
	var b strings.Builder
	for i := 0; i < n; i++ {
		var fs []string
		for _, f := range fields {
			if rng.Intn(6) == 0 {
				continue // missing
			}
			v := corpusVals[rng.Intn(len(corpusVals))]
			if parts := strings.Split(f, "."); len(parts) > 1 {
				s := v
				for j := len(parts) - 1; j >= 1; j-- {
					s = "{" + parts[j] + ":" + s + "}"
				}
				fs = append(fs, parts[0]+":"+s)
			} else {
				fs = append(fs, f+":"+v)
			}
		}
		if len(fs) == 0 {
			fs = []string{"zz:1"}
		}
		b.WriteString("{" + strings.Join(fs, ",") + "}\n")
	}
	return b.String()
}

// orderSafety classifies a plan as analyzed: mode "seq" (one ordered path), "bag"
// (order undefined somewhere but nothing order-sensitive consumes it) or ""
// (the language does not determine the result; skip).
var safeAggs = map[string]bool{"count": true, "sum": true, "min": true, "max": true, "avg": true, "dcount": true, "and": true, "or": true}

func hasStatefulExpr(op dag.Op) bool {
	b, err := json.Marshal(op)
	return err != nil || strings.Contains(string(b), `"kind":"Agg"`)
}

func classifySeq(seq dag.Seq, ordered bool) (bool, bool) {
	safe := true
	for _, op := range seq {
		switch op := op.(type) {
		case *dag.DefaultScan:
			ordered = true
		case *dag.Output, *dag.Pass, *dag.Drop:
		case *dag.Filter, *dag.Cut, *dag.Put, *dag.Rename, *dag.Yield, *dag.Explode:
			if hasStatefulExpr(op) && !ordered {
				safe = false
			}
		case *dag.Head, *dag.Tail, *dag.Uniq, *dag.Top, *dag.Fuse, *dag.Shape:
			if !ordered {
				safe = false
			}
		case *dag.Sort:
			if len(op.Args) == 0 || hasStatefulExpr(op) {
				if !ordered {
					safe = false
				}
			}
			// stable on an ordered input; ties keep an undefined order undefined
		case *dag.Summarize:
			for _, a := range op.Aggs {
				agg, ok := a.RHS.(*dag.Agg)
				if !ok || !safeAggs[agg.Name] {
					if !ordered {
						safe = false
					}
				}
			}
			for _, k := range op.Keys {
				if hasStatefulExprE(k.RHS) && !ordered {
					safe = false
				}
			}
			ordered = false
		case *dag.Fork:
			all := true
			for _, p := range op.Paths {
				o, s := classifySeq(p, ordered)
				all = all && o
				safe = safe && s
			}
			ordered = len(op.Paths) == 1 && all
		case *dag.Switch:
			if op.Expr != nil && hasStatefulExprE(op.Expr) && !ordered {
				safe = false
			}
			all := true
			for _, c := range op.Cases {
				if c.Expr != nil && hasStatefulExprE(c.Expr) && !ordered {
					safe = false
				}
				o, s := classifySeq(c.Path, ordered)
				all = all && o
				safe = safe && s
			}
			ordered = len(op.Cases) == 1 && all
		case *dag.Scope:
			o, s := classifySeq(op.Body, ordered)
			ordered, safe = o, safe && s
		case *dag.Over:
			if hasStatefulExpr(&dag.Yield{Kind: "Yield", Exprs: op.Exprs}) && !ordered {
				safe = false
			}
			if op.Body != nil {
				o, s := classifySeq(op.Body, true)
				ordered, safe = ordered && o, safe && s
			}
		case *dag.Join, *dag.Combine, *dag.Merge:
			ordered = false
		default:
			return false, false
		}
	}
	return ordered, safe
}

func hasStatefulExprE(e dag.Expr) bool {
	b, err := json.Marshal(e)
	return err != nil || strings.Contains(string(b), `"kind":"Agg"`)
}

func planMode(entry dag.Seq) string {
	if len(entry) == 0 {
		return ""
	}
	if _, ok := entry[0].(*dag.DefaultScan); !ok {
		return "" // the program brings its own sources
	}
	ordered, safe := classifySeq(entry, true)
	switch {
	case !safe:
		return ""
	case ordered:
		return "seq"
	}
	return "bag"
}

func (h *harness) evalCorpus(p corpusProg, in string, batch int) {
	c := h.c
	U := runProgram(h.ctx, p.Zed, runOpts{NoOptimize: true, Timeout: caseTimeout}, in)
	if U.Err != nil || U.Mode == "" {
		h.mu.Lock()
		if U.Err != nil {
			h.corpusSkipErr++
		} else {
			h.corpusSkipOrder++
		}
		h.mu.Unlock()
		return
	}
	U2 := runProgram(h.ctx, p.Zed, runOpts{NoOptimize: true, Timeout: caseTimeout}, in)
	if ok, _ := compare(U.Mode, U.Rows, U2.Rows); !ok || U2.Err != nil {
		h.mu.Lock()
		h.corpusSkipNondet++
		h.mu.Unlock()
		return
	}
	O := runProgram(h.ctx, p.Zed, runOpts{Timeout: caseTimeout}, in)
	if isTimeout(O.Err) {
		O = runProgram(h.ctx, p.Zed, runOpts{Timeout: confirmTimeout}, in)
	}
	c.Eval(fmt.Sprintf("corpus|%d|%s|%s", batch, p.Zed, in), U.Canon != O.Canon)
	h.mu.Lock()
	h.corpusChecked++
	h.mu.Unlock()
	w := witness{Kind: "corpus", Program: p.Zed, Input: in, Batch: batch, Mode: U.Mode, U: U.Rows, O: O.Rows, UErr: errStr(U.Err), OErr: errStr(O.Err), PlanU: U.Canon, PlanO: O.Canon}
	if O.Err != nil {
		c.Violate("corpus:"+p.Name+":error", fmt.Sprintf("%s: `%s` runs as analyzed but the optimized plan fails: %v", p.Name, p.Zed, O.Err), w)
		return
	}
	if ok, why := compare(U.Mode, U.Rows, O.Rows); !ok {
		if sig := classifyCorpus(U, O); sig != "" {
			h.mu.Lock()
			h.taintObserved[strings.TrimPrefix(sig, "taint:")]++
			h.mu.Unlock()
			c.Violate(sig, fmt.Sprintf("%s: `%s`: as analyzed %v, optimized %v: %s; optimized plan: %s", p.Name, p.Zed, short(U.Rows), short(O.Rows), why, O.Canon), w)
			return
		}
		c.Violate("corpus:"+p.Name, fmt.Sprintf("%s: `%s`: as analyzed %v, optimized %v: %s; optimized plan: %s", p.Name, p.Zed, short(U.Rows), short(O.Rows), why, O.Canon), w)
	}
}

// classifyCorpus recognizes the two known filter defects on a corpus program
// (there is no spec taint for those): the only difference between the two results
// is error values that the where operator passes on and the scanner filter drops
// (pushdown-error), or that `where A | where B` drops and the merged filter passes
// on (merge-filters-error).
func classifyCorpus(U, O runResult) string {
	diff := func(a, b []string) []string { // multiset a - b
		m := map[string]int{}
		for _, x := range b {
			m[x]++
		}
		var out []string
		for _, x := range a {
			if m[x] > 0 {
				m[x]--
			} else {
				out = append(out, x)
			}
		}
		return out
	}
	allErr := func(rows []string) bool {
		for _, r := range rows {
			if !strings.HasPrefix(r, "error(") {
				return false
			}
		}
		return len(rows) > 0
	}
	onlyU, onlyO := diff(U.Rows, O.Rows), diff(O.Rows, U.Rows)
	switch {
	case len(onlyO) == 0 && allErr(onlyU) && strings.HasPrefix(O.Canon, "reader filter(") && !strings.HasPrefix(U.Canon, "reader filter("):
		return "taint:pushdown-error"
	case len(onlyU) == 0 && allErr(onlyO) && strings.Count(O.Canon, " and ") > strings.Count(U.Canon, " and "):
		return "taint:merge-filters-error"
	}
	return ""
}

func (h *harness) corpus() error {
	c := h.c
	progs, err := collectCorpus()
	if err != nil {
		return err
	}
	c.Set("corpus_programs_total", len(progs))
	rng := rand.New(rand.NewSource(c.Seed + 7))
	if c.Quick() {
		rng.Shuffle(len(progs), func(i, j int) { progs[i], progs[j] = progs[j], progs[i] })
		if len(progs) > 260 {
			progs = progs[:260]
		}
	}
	type job struct {
		p  corpusProg
		in string
	}
	var jobs []job
	for _, p := range progs {
		if p.Input != "" {
			jobs = append(jobs, job{p, p.Input})
		}
		jobs = append(jobs, job{p, genInput(p.Zed, rng, 7)})
		if !c.Quick() {
			jobs = append(jobs, job{p, genInput(p.Zed, rng, 12)})
		}
	}
	for _, batch := range []int{100, 2} {
		zbuf.PullerBatchValues = batch
		var wg sync.WaitGroup
		ch := make(chan job, 64)
		for i := 0; i < 12; i++ {
			wg.Add(1)
			go func() {
				defer wg.Done()
				for j := range ch {
					h.evalCorpus(j.p, j.in, batch)
				}
			}()
		}
		for i, j := range jobs {
			if batch == 2 && c.Quick() && i%4 != int(c.Seed%4) {
				continue
			}
			ch <- j
		}
		close(ch)
		wg.Wait()
	}
	zbuf.PullerBatchValues = 100
	c.Set("corpus_programs_used", len(progs))
	c.Set("corpus_runs_compared", h.corpusChecked)
	c.Set("corpus_skipped_error_or_no_reader", h.corpusSkipErr)
	c.Set("corpus_skipped_order_undetermined", h.corpusSkipOrder)
	c.Set("corpus_skipped_nondeterministic", h.corpusSkipNondet)
	c.Logf("corpus: %d programs, %d runs compared (%d skipped: error/no reader, %d: result not determined, %d: nondeterministic)",
		len(progs), h.corpusChecked, h.corpusSkipErr, h.corpusSkipOrder, h.corpusSkipNondet)
	if h.corpusChecked == 0 {
		c.Inconclusive("no corpus program could be compared")
	}
	return nil
}

// replay re-runs one witness.
func (h *harness) replay() error {
	var w witness
	sig, err := h.c.ReplayWitness(&w)
	if err != nil {
		return err
	}
	if w.Batch > 0 {
		zbuf.PullerBatchValues = w.Batch
	}
	var src *data.Source
	inputs := []string{w.Input}
	if w.Kind == "pool" {
		// rebuild the pool: the program is `from <name> | ...`
		name := strings.Fields(w.Program)[1]
		lk, err := lakeh.Create(h.ctx, lakeh.NewMemStore(), 0, nil)
		if err != nil {
			return err
		}
		id, err := lk.CreatePool(h.ctx, name, "a", strings.TrimPrefix(w.Sk, "a:"), 0, 0)
		if err != nil {
			return err
		}
		if _, err := lk.LoadZSON(h.ctx, id, "main", w.Input); err != nil {
			return err
		}
		src = data.NewSource(storage.NewRemoteEngine(), lk.Root)
		inputs = nil
	}
	sk := w.Sk
	if src != nil {
		sk = ""
	}
	U := runProgram(h.ctx, w.Program, runOpts{NoOptimize: true, SortKey: sk, Source: src}, inputs...)
	O := runProgram(h.ctx, w.Program, runOpts{SortKey: sk, Timeout: confirmTimeout, Source: src}, inputs...)
	fmt.Printf("program: %s\nsort key: %q  batch: %d  mode: %s\ninput:\n%s", w.Program, w.Sk, w.Batch, w.Mode, w.Input)
	fmt.Printf("as analyzed  [%s] err=%v\n  %v\noptimized    [%s] err=%v\n  %v\n", U.Canon, U.Err, U.Rows, O.Canon, O.Err, O.Rows)
	mode := w.Mode
	if mode == "" {
		mode = "bag"
	}
	if U.Err == nil && O.Err != nil {
		h.c.Violate(sig, fmt.Sprintf("replayed: the optimized plan fails: %v", O.Err), w)
		return nil
	}
	if ok, why := compareCls(mode, w.Cls, U.Rows, O.Rows); !ok {
		h.c.Violate(sig, "replayed: "+why, w)
	} else {
		fmt.Println("the optimized plan and the plan as analyzed agree on this witness now")
	}
	return nil
}
