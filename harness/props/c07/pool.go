package main

import (
	"fmt"
	"strconv"
	"strings"
	"time"

	"github.com/brimdata/super/compiler/data"
	"github.com/brimdata/super/pkg/storage"

	"verif/lakeh"
)

// Lake pool scans: the cases with a declared sort key whose input has pairwise
// distinct keys (so that the pool's scan order is exactly the input order) are
// loaded into a pool sorted that way and run as `from <pool> | program`, as
// analyzed (kernel.compilePoolScan) and optimized (Lister/Slicer/SeqScan with
// the pushed-down filter, pruner and demand) -- NewLakeQuery at parallelism 1.
func distinctKeys(in []string) bool {
	seen := map[string]bool{}
	nullish := 0
	for _, v := range in {
		k := fieldOf(v, "a")
		if _, err := strconv.Atoi(k); err != nil {
			nullish++
			continue
		}
		if seen[k] {
			return false
		}
		seen[k] = true
	}
	return nullish <= 1
}

func (h *harness) pools(cases []caseJ) error {
	c := h.c
	store := lakeh.NewMemStore()
	lk, err := lakeh.Create(h.ctx, store, 0, nil)
	if err != nil {
		return err
	}
	src := data.NewSource(storage.NewRemoteEngine(), lk.Root)
	names := map[string]string{}
	var sel []caseJ
	limit := 1200
	if !c.Quick() {
		limit = 20000
	}
	for i := range cases {
		cs := &cases[i]
		if cs.Sk == "" || len(cs.Input) < 2 || !distinctKeys(cs.Input) || hasTaint(cs, "join-lockstep") {
			continue
		}
		key := cs.Sk + "|" + strings.Join(cs.Input, ";")
		if _, ok := names[key]; !ok {
			name := fmt.Sprintf("p%d", len(names))
			id, err := lk.CreatePool(h.ctx, name, "a", strings.TrimPrefix(cs.Sk, "a:"), 0, 0)
			if err != nil {
				return err
			}
			if _, err := lk.LoadZSON(h.ctx, id, "main", cs.inputZSON()); err != nil {
				return err
			}
			// the scan order must be the input order, else the spec's prediction does not apply
			rows, err := lk.Query(h.ctx, "from "+name)
			if err != nil {
				return err
			}
			if !sameSeq(eraseAll(rows), cs.Input) {
				h.drift("pool %s (%s) scans %v, loaded %v", name, cs.Sk, eraseAll(rows), cs.Input)
				name = ""
			}
			names[key] = name
		}
		if names[key] != "" && len(sel) < limit {
			sel = append(sel, *cs)
		}
	}
	r := &runner{
		kind: "pool",
		text: func(cs *caseJ) string {
			return "from " + names[cs.Sk+"|"+strings.Join(cs.Input, ";")] + " | " + cs.program()
		},
	}
	r.run = func(cs *caseJ, noOpt bool, timeout time.Duration) runResult {
		return runProgram(h.ctx, r.text(cs), runOpts{NoOptimize: noOpt, Timeout: timeout, Source: src})
	}
	t0 := time.Now()
	n0 := h.checked
	h.evalAll(r, sel, 100)
	c.Set("pool_cases", len(sel))
	c.Set("pools", len(names))
	c.Logf("lake: %d pools, %d cases run as `from pool | program` as analyzed vs optimized (%.1fs), %d verdicts", len(names), len(sel), time.Since(t0).Seconds(), h.checked-n0)
	return nil
}
