package main

import (
	"fmt"
	"sort"
	"strconv"
	"strings"
)

// The spec works on type-erased values written in a compact form:
//   3   null   err (= error("missing"))   errv (any other error)   {a:1,b:null}
// eraseZSON maps a ZSON value as formatted by zson.FormatValue to that form
// (integers of any width -> decimal, null of any type -> null).  A value outside
// the spec's universe is returned as "?<zson>" and never equals a spec value.

type zp struct {
	s string
	i int
}

func eraseZSON(z string) string {
	p := &zp{s: z}
	out, ok := p.value()
	if !ok || p.i != len(p.s) {
		return "?" + z
	}
	return out
}

func (p *zp) peek() byte {
	if p.i < len(p.s) {
		return p.s[p.i]
	}
	return 0
}

func (p *zp) decorator() {
	// optional (type) decorator with balanced parentheses
	if p.peek() != '(' {
		return
	}
	depth := 0
	for p.i < len(p.s) {
		switch p.s[p.i] {
		case '(':
			depth++
		case ')':
			depth--
			if depth == 0 {
				p.i++
				return
			}
		}
		p.i++
	}
}

func (p *zp) skipBalanced(open, close byte) bool {
	depth := 0
	inStr := false
	for p.i < len(p.s) {
		c := p.s[p.i]
		if inStr {
			if c == '\\' {
				p.i++
			} else if c == '"' {
				inStr = false
			}
		} else if c == '"' {
			inStr = true
		} else if c == open {
			depth++
		} else if c == close {
			depth--
			if depth == 0 {
				p.i++
				return true
			}
		}
		p.i++
	}
	return false
}

func (p *zp) value() (string, bool) {
	switch c := p.peek(); {
	case c == '{':
		p.i++
		var fs []string
		for p.peek() != '}' {
			if len(fs) > 0 {
				if p.peek() != ',' {
					return "", false
				}
				p.i++
			}
			j := p.i
			for p.i < len(p.s) && (isIdent(p.s[p.i])) {
				p.i++
			}
			if p.i == j || p.peek() != ':' {
				return "", false
			}
			name := p.s[j:p.i]
			p.i++
			v, ok := p.value()
			if !ok {
				return "", false
			}
			fs = append(fs, name+":"+v)
		}
		p.i++
		p.decorator()
		return "{" + strings.Join(fs, ",") + "}", true
	case strings.HasPrefix(p.s[p.i:], `error("missing")`):
		p.i += len(`error("missing")`)
		return "err", true
	case strings.HasPrefix(p.s[p.i:], "error("):
		p.i += len("error")
		if !p.skipBalanced('(', ')') {
			return "", false
		}
		return "errv", true
	case strings.HasPrefix(p.s[p.i:], "null"):
		p.i += 4
		p.decorator()
		return "null", true
	case c == '-' || (c >= '0' && c <= '9'):
		j := p.i
		p.i++
		for p.i < len(p.s) && p.s[p.i] >= '0' && p.s[p.i] <= '9' {
			p.i++
		}
		n := p.s[j:p.i]
		if c := p.peek(); c == '.' || c == 'e' || c == 'E' {
			return "", false
		}
		p.decorator()
		return n, true
	}
	return "", false
}

func isIdent(c byte) bool {
	return c == '_' || (c >= 'a' && c <= 'z') || (c >= 'A' && c <= 'Z') || (c >= '0' && c <= '9')
}

func eraseAll(rows []string) []string {
	out := make([]string, len(rows))
	for i, r := range rows {
		out[i] = eraseZSON(r)
	}
	return out
}

// zsonOfCompact renders a spec input value (a record of ints/nulls) as ZSON.
func zsonOfCompact(v string) string {
	// {a:1,b:null} -> {a:1,b:null(int64)}
	return strings.ReplaceAll(v, "null", "null(int64)")
}

// fieldOf extracts the (erased) value of a top-level field of a compact record;
// "err" if absent or not a record (the spec's Get).
func fieldOf(v, f string) string {
	if !strings.HasPrefix(v, "{") {
		return "err"
	}
	body := v[1 : len(v)-1]
	depth := 0
	start := 0
	for i := 0; i <= len(body); i++ {
		if i == len(body) || (body[i] == ',' && depth == 0) {
			kv := body[start:i]
			if k := strings.IndexByte(kv, ':'); k >= 0 && kv[:k] == f {
				return kv[k+1:]
			}
			start = i + 1
			continue
		}
		switch body[i] {
		case '{', '(':
			depth++
		case '}', ')':
			depth--
		}
	}
	return "err"
}

// cmpBy compares two compact values under a spec comparator "f:asc|desc:nf|nl".
func cmpBy(by string, x, y string) int {
	parts := strings.Split(by, ":")
	f, desc, nf := parts[0], parts[1] == "desc", parts[2] == "nf"
	kx, ky := fieldOf(x, f), fieldOf(y, f)
	nx, ex := strconv.Atoi(kx)
	ny, ey := strconv.Atoi(ky)
	switch {
	case ex != nil && ey != nil:
		return 0
	case ex != nil:
		if nf {
			return -1
		}
		return 1
	case ey != nil:
		if nf {
			return 1
		}
		return -1
	}
	d := nx - ny
	if desc {
		d = -d
	}
	switch {
	case d < 0:
		return -1
	case d > 0:
		return 1
	}
	return 0
}

func sortedBy(by string, rows []string) bool {
	for i := 1; i < len(rows); i++ {
		if cmpBy(by, rows[i-1], rows[i]) > 0 {
			return false
		}
	}
	return true
}

func multiset(rows []string) []string {
	out := append([]string(nil), rows...)
	sort.Strings(out)
	return out
}

func sameSeq(a, b []string) bool {
	if len(a) != len(b) {
		return false
	}
	for i := range a {
		if a[i] != b[i] {
			return false
		}
	}
	return true
}

func sameBag(a, b []string) bool { return sameSeq(multiset(a), multiset(b)) }

func short(rows []string) string {
	if len(rows) > 12 {
		return fmt.Sprintf("%v ... (%d rows)", rows[:12], len(rows))
	}
	return fmt.Sprint(rows)
}
