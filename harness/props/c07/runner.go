package main

import (
	"context"
	"fmt"
	"sort"
	"strings"
	"sync"
	"time"

	zed "github.com/brimdata/super"
	"github.com/brimdata/super/compiler"
	"github.com/brimdata/super/compiler/ast"
	"github.com/brimdata/super/compiler/ast/dag"
	"github.com/brimdata/super/compiler/data"
	"github.com/brimdata/super/compiler/optimizer"
	"github.com/brimdata/super/compiler/optimizer/demand"
	"github.com/brimdata/super/order"
	"github.com/brimdata/super/pkg/field"
	"github.com/brimdata/super/pkg/storage"
	"github.com/brimdata/super/runtime"
	"github.com/brimdata/super/zfmt"
	"github.com/brimdata/super/zio"

	"verif/flowh"
)

// runOpts selects how a program is compiled.  It extends flowh.Opts with a
// declared sort key of the default input (compiler.CompileWithSortKey does the
// same thing: it sets DefaultScan.SortKeys before Optimize).
type runOpts struct {
	NoOptimize bool
	SortKey    string // "" | "a:asc" | "a:desc"
	Timeout    time.Duration
	Source     *data.Source // nil: reader inputs; otherwise a lake (program starts with `from <pool>`)
}

type runResult struct {
	Rows  []string // ZSON, as flowh formats them
	DAG   string   // zfmt.DAG of the executed plan
	Canon string   // canonical form of the executed plan (see canon.go)
	Mode  string   // for a plan as analyzed: "seq" | "bag" | "" (see planMode in corpus.go)
	Dem   string   // optimized plans: the demand on the source's output, "*" or sorted field paths
	Err   error
}

// One file-system source for all runs: storage.NewLocalEngine builds an S3
// client (loads the CA bundle, ~5 ms) and is stateless for reader inputs.
var fileSource = data.NewSource(storage.NewLocalEngine(), nil)

func parseSortKey(s string) order.SortKeys {
	if s == "" {
		return nil
	}
	parts := strings.SplitN(s, ":", 2)
	which := order.Asc
	if len(parts) == 2 && parts[1] == "desc" {
		which = order.Desc
	}
	return order.SortKeys{order.NewSortKey(which, field.Dotted(parts[0]))}
}

// runProgram compiles program and runs it over ZSON inputs on the real runtime:
// compiler.NewJob -> (Optimize) -> Build -> Puller, i.e. flowh.Run plus the
// declared sort key and access to the plan.
func runProgram(ctx context.Context, program string, o runOpts, inputs ...string) (res runResult) {
	if o.Timeout == 0 {
		o.Timeout = 60 * time.Second
	}
	ctx, cancel := context.WithTimeout(ctx, o.Timeout)
	defer cancel()
	defer func() {
		if r := recover(); r != nil {
			res.Err = fmt.Errorf("panic: %v", r)
		}
	}()
	zctx := zed.NewContext()
	seq, err := parseCached(program)
	if err != nil {
		return runResult{Err: fmt.Errorf("parse: %w", err)}
	}
	rctx := runtime.NewContext(ctx, zctx)
	defer rctx.Cancel()
	src := fileSource
	if o.Source != nil {
		src = o.Source
	}
	job, err := compiler.NewJob(rctx, seq, src, nil)
	if err != nil {
		return runResult{Err: fmt.Errorf("analyze: %w", err)}
	}
	if o.SortKey != "" {
		scan, ok := job.DefaultScan()
		if !ok {
			return runResult{Err: fmt.Errorf("program has its own source; cannot declare a sort key")}
		}
		scan.SortKeys = parseSortKey(o.SortKey)
	}
	if o.NoOptimize {
		res.Mode = planMode(job.Entry())
	}
	if !o.NoOptimize {
		if err := job.Optimize(); err != nil {
			return runResult{Err: fmt.Errorf("optimize: %w", err)}
		}
	}
	res.DAG = zfmt.DAG(job.Entry())
	res.Canon = canonSeq(job.Entry())
	if !o.NoOptimize {
		res.Dem = demandOf(job.Entry())
	}
	var readers []zio.Reader
	for _, in := range inputs {
		readers = append(readers, flowh.ZSONReader(zctx, in))
	}
	if _, ok := job.Entry()[0].(*dag.DefaultScan); !ok && !hasDefaultScan(job.Entry()) {
		readers = nil
	}
	if err := job.Build(readers...); err != nil {
		res.Err = fmt.Errorf("build: %w", err)
		return res
	}
	p := job.Puller()
	if p == nil {
		res.Err = fmt.Errorf("no output")
		return res
	}
	res.Rows, res.Err = flowh.Drain(p)
	return res
}

// The PEG parser is the most expensive step for these tiny inputs; NewJob works
// on a copy of the AST (ast.CopySeq), so a parsed program can be shared.
var (
	parseMu    sync.Mutex
	parseCache = map[string]ast.Seq{}
)

func parseCached(program string) (ast.Seq, error) {
	parseMu.Lock()
	seq, ok := parseCache[program]
	parseMu.Unlock()
	if ok {
		return seq, nil
	}
	seq, _, err := compiler.Parse(program)
	if err != nil {
		return nil, err
	}
	parseMu.Lock()
	if len(parseCache) > 20000 {
		parseCache = map[string]ast.Seq{}
	}
	parseCache[program] = seq
	parseMu.Unlock()
	return seq, nil
}

// demandOf is what insertDemand computes for the source of an optimized plan
// (it stores it only in dag.SeqScan.Fields): demand.Fields of the demand on the
// first operator's output.
func demandOf(entry dag.Seq) (out string) {
	defer func() {
		if recover() != nil {
			out = "panic"
		}
	}()
	if len(entry) == 0 {
		return "*"
	}
	var fs []string
	for _, p := range demand.Fields(optimizer.InferDemandSeqOut(entry)[entry[0]]) {
		fs = append(fs, strings.Join(p, "."))
	}
	if len(fs) == 0 {
		return "*"
	}
	sort.Strings(fs)
	return strings.Join(fs, ",")
}

func hasDefaultScan(seq dag.Seq) bool {
	for _, op := range seq {
		switch op := op.(type) {
		case *dag.DefaultScan:
			return true
		case *dag.Fork:
			for _, p := range op.Paths {
				if hasDefaultScan(p) {
					return true
				}
			}
		case *dag.Scope:
			if hasDefaultScan(op.Body) {
				return true
			}
		}
	}
	return false
}
