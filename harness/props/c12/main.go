// C12 -- branch and metadata updates are linearizable; accepted commits stay replayable.
//
// specs/Journal.tla is the implementation-shaped model of the journal
// protocol (journal.Queue / journal.Store / Branch.commit / pools.Store /
// branches.Store): one action per storage operation on the shared metadata
// paths.  TLC explores every interleaving of 2-3 clients (bounded by a
// preemption budget), checks that every journal entry was legal with respect
// to the table just before it (linearizability of the updates), that acked
// operations contributed exactly one entry and failed ones none, the single
// parent chain, HEAD as a bounded hint, and exports every complete behaviour
// as a schedule.  Each schedule is replayed on the real lake: real clients
// (separate lake.Root handles over one storage) are stepped through a
// deterministic gate on exactly those storage operations, each granted step is
// compared with the spec's step label (binding), and at the end the property's
// own oracles are evaluated on the real storage with a cold handle.
package main

import (
	"context"
	"fmt"
	"math/rand"
	"sort"

	"github.com/brimdata/super/api"
	"github.com/segmentio/ksuid"
	"strings"

	"verif/core"
	"verif/jrun"
	"verif/lakeh"
)

var allInv = []string{"TypeOK", "HeadHint", "NotStuck", "ChainOK", "InsertOK", "DeleteOK", "MoveOK", "JournalReplayable",
	"ValuesUnique", "AckedOnce", "NoOrphanOnFail", "AckedCommitStored", "SingleChain"}

func tip(b string) lakeh.JOp         { return lakeh.JOp{K: "load", Key: b} } // a commit realized as a load
func ins(n string) lakeh.JOp         { return lakeh.JOp{K: "insert", Key: n} }
func rmkey(n string) lakeh.JOp       { return lakeh.JOp{K: "rmkey", Key: n} }
func ren(id int, n string) lakeh.JOp { return lakeh.JOp{K: "rename", ID: id, New: n} }
func rmid(id int) lakeh.JOp          { return lakeh.JOp{K: "rmid", ID: id} }

func scenarios(c *core.Ctx) []*lakeh.JScenario {
	mk := func(name, journal string, pb int, init map[string]int, script ...[]lakeh.JOp) *lakeh.JScenario {
		inv := allInv
		if journal == "branches" {
			inv = nil // two branches may point at the same commit
			for _, x := range allInv {
				if x != "ValuesUnique" {
					inv = append(inv, x)
				}
			}
		}
		return &lakeh.JScenario{Name: name, Journal: journal, Script: script, Init: init, MaxRetries: 10, MaxCommitRetries: 10,
			PreemptBound: pb, MoveChecksID: true, Invariants: inv}
	}
	main0 := map[string]int{"main": 0}
	mainb1 := map[string]int{"main": 0, "b1": 0}
	pools := map[string]int{"p": 1, "q": 2}
	if c.Quick() {
		return []*lakeh.JScenario{
			mk("two_commits", "branches", 2, main0, []lakeh.JOp{tip("main")}, []lakeh.JOp{tip("main")}),
			mk("branch_names", "branches", 2, main0, []lakeh.JOp{ins("b1")}, []lakeh.JOp{ins("b1"), tip("b1")}),
			mk("drop_vs_commit", "branches", 2, mainb1, []lakeh.JOp{rmkey("b1")}, []lakeh.JOp{tip("b1")}),
			mk("rename_race", "pools", 2, pools, []lakeh.JOp{ren(2, "r")}, []lakeh.JOp{rmid(2), ins("q")}),
			mk("pool_names", "pools", 2, pools, []lakeh.JOp{ins("x")}, []lakeh.JOp{ins("x")}, []lakeh.JOp{ren(2, "x")}),
			// a pool is dropped while it is renamed away and its old name is taken by a new pool
			mk("drop_vs_rename_create", "pools", 2, pools, []lakeh.JOp{rmid(2)}, []lakeh.JOp{ren(2, "r"), ins("q")}),
		}
	}
	return []*lakeh.JScenario{
		mk("two_commits", "branches", 99, main0, []lakeh.JOp{tip("main")}, []lakeh.JOp{tip("main")}),
		mk("three_commits", "branches", 2, main0, []lakeh.JOp{tip("main")}, []lakeh.JOp{tip("main")}, []lakeh.JOp{tip("main")}),
		mk("two_by_two", "branches", 3, main0, []lakeh.JOp{tip("main"), tip("main")}, []lakeh.JOp{tip("main"), tip("main")}),
		mk("branch_names", "branches", 4, main0, []lakeh.JOp{ins("b1"), tip("b1")}, []lakeh.JOp{ins("b1"), tip("b1")}),
		mk("drop_vs_commit", "branches", 99, mainb1, []lakeh.JOp{rmkey("b1")}, []lakeh.JOp{tip("b1")}),
		mk("drop_create_commit", "branches", 3, mainb1, []lakeh.JOp{rmkey("b1"), ins("b1")}, []lakeh.JOp{tip("b1")}, []lakeh.JOp{tip("main")}),
		mk("rename_race", "pools", 99, pools, []lakeh.JOp{ren(2, "r")}, []lakeh.JOp{rmid(2), ins("q")}),
		mk("pool_names", "pools", 3, pools, []lakeh.JOp{ins("x")}, []lakeh.JOp{ins("x")}, []lakeh.JOp{ren(2, "x")}),
		mk("drop_vs_rename_create", "pools", 99, pools, []lakeh.JOp{rmid(2)}, []lakeh.JOp{ren(2, "r"), ins("q")}),
		mk("pool_churn", "pools", 3, pools, []lakeh.JOp{ren(1, "q2"), ren(1, "p")}, []lakeh.JOp{rmid(2), ins("q2")}, []lakeh.JOp{ren(2, "z")}),
	}
}

func sigOf(fail string) string {
	kind, _, _ := strings.Cut(fail, ":")
	return kind
}

func run(c *core.Ctx) error {
	ctx := context.Background()
	r := &jrun.Runner{C: c, Ctx: ctx}
	c.Rule("cases = complete behaviours (schedules over the gated storage operations of 2-3 clients) exported by TLC from Journal.tla, each replayed on real lake.Root handles through a deterministic storage gate; non-trivial = the schedule contains at least one preemption (a client is switched out in the middle of an operation)")
	c.Trust("TLC 1.8.0; the harness' in-memory storage engine with atomic put-if-absent; the gate (a scheduling decision is only taken when every client is blocked or finished)")
	c.Assume("storage with atomic PutIfNotExists (the S3 fallback in Queue.CommitAt is documented as incorrect in the code, issue #2686, and out of scope); schedules bounded by the preemption budget stated per scenario")
	if c.Replay != "" {
		var w struct {
			jrun.Witness
			Model   *lakeh.AbsModel `json:"model"`
			History lakeh.History   `json:"history"`
		}
		if _, err := c.ReplayWitness(&w); err != nil {
			return err
		}
		if w.Model != nil {
			rp := &lakeh.Replayer{C: c, M: w.Model, Ctx: ctx, Warm: true, OnIssue: warmReport(c, w.Model)}
			return rp.ReplayAll([]lakeh.History{w.History})
		}
		_, fails, drift, err := r.Execute(w.Scenario, w.Sched, nil)
		if err != nil {
			return err
		}
		fmt.Printf("replay: drift=%q fails=%v\n", drift, fails)
		for _, f := range fails {
			c.Violate(sigOf(f)+":"+w.Scenario.Name, f, w.Witness)
		}
		return nil
	}
	for _, sc := range scenarios(c) {
		if err := r.Calibrate(sc); err != nil {
			return err
		}
		bhs, res := sc.Run(c, true, false, 8)
		if res == nil {
			return nil
		}
		limit := 200
		if !c.Quick() {
			limit = 3000
		}
		if len(bhs) > limit {
			step := len(bhs) / limit
			var sub []lakeh.JBehaviour
			for i := int(c.Seed) % step; i < len(bhs) && len(sub) < limit; i += step {
				sub = append(sub, bhs[i])
			}
			bhs = sub
		}
		c.Logf("%s: TLC %d distinct states, all invariants hold; replaying %d schedules", sc.Name, res.Distinct, len(bhs))
		drifts := 0
		for i := range bhs {
			bh := &bhs[i]
			results, fails, drift, err := r.Execute(sc, bh.Sched, bh)
			if err != nil {
				return fmt.Errorf("%s schedule %s: %w", sc.Name, lakeh.SchedKey(bh.Sched), err)
			}
			preempt := false
			for j := 1; j < len(bh.Sched); j++ {
				if bh.Sched[j].C != bh.Sched[j-1].C {
					preempt = true
				}
			}
			c.Eval(sc.Name+"|"+lakeh.SchedKey(bh.Sched), preempt)
			if drift != "" {
				drifts++
				c.Drift("%s schedule %s: %s", sc.Name, lakeh.SchedKey(bh.Sched), drift)
			} else {
				c.Add("traces_validated_against_impl", 1)
			}
			for _, f := range fails {
				c.Violate(sigOf(f)+":"+sc.Name, fmt.Sprintf("%s [scenario %s, schedule %s]", f, sc.Name, lakeh.SchedKey(bh.Sched)),
					jrun.Witness{Scenario: sc, Sched: bh.Sched, Results: results, Detail: f})
			}
			if i == len(bhs)/2 {
				c.Sample(map[string]any{"scenario": sc.Name, "schedule": lakeh.SchedKey(bh.Sched), "steps": bh.Sched, "spec_responses": bh.Resp})
			}
		}
		c.Logf("%s: %d schedules replayed, %d drifted", sc.Name, len(bhs), drifts)
	}
	if err := rewriteRaces(c); err != nil {
		return err
	}
	if err := warmHistories(c); err != nil {
		return err
	}
	return randomTraces(c, r)
}

type warmWitness struct {
	Model   *lakeh.AbsModel `json:"model"`
	History lakeh.History   `json:"history"`
	Issue   lakeh.Issue     `json:"issue"`
}

func warmReport(c *core.Ctx, m *lakeh.AbsModel) func(h lakeh.History, upto int, is lakeh.Issue) {
	return func(h lakeh.History, upto int, is lakeh.Issue) {
		hh := append(lakeh.History(nil), h[:upto]...)
		switch is.Kind {
		case lakeh.KUnreadable, lakeh.KContents, lakeh.KFailTrace:
			c.Violate("replayable:"+is.Kind+":"+hh[len(hh)-1].Op, fmt.Sprintf("%s [one long-lived handle; history: %s]", is.Detail, hh),
				warmWitness{Model: m, History: hh, Issue: is})
		default:
			c.Drift("%s: %s", is.Detail, hh)
		}
	}
}

// warmHistories: "accepted commits stay replayable" for a client that keeps its
// handle (warm journal and snapshot caches, as the service does).  All histories
// of LakeAbs.tla over two branches forking at a cached commit, with data and
// vector operations on both sides (invariant Replayable), are replayed through
// ONE handle; after every acknowledged or refused operation a fresh process must
// be able to replay every branch from storage and see the model's contents.
func warmHistories(c *core.Ctx) error {
	if err := warmModel(c, lakeh.WarmModel(c.Quick())); err != nil {
		return err
	}
	// both sides of a fork remove the same object, then merge: an acknowledged merge commit must replay
	m := lakeh.WarmModel(true)
	m.Name = "lake_warm_merge"
	m.MaxOps = 5
	m.OpKinds = []string{"load", "branch", "delete", "deletewhere", "compact", "merge"}
	m.Shape = [][]string{{"load"}, {"branch"}, {"delete", "deletewhere", "compact"}, {"delete", "deletewhere", "compact", "load"}, {"merge"}}
	return warmModel(c, m)
}

func warmModel(c *core.Ctx, m *lakeh.AbsModel) error {
	ctx := context.Background()
	hs, res := lakeh.GenHistories(c, m, "", 8)
	if res == nil {
		return nil
	}
	if c.Quick() {
		hs = lakeh.Sub(hs, 700, c.Seed)
	} else {
		hs = lakeh.Sub(hs, 1200, c.Seed)
	}
	rp := &lakeh.Replayer{C: c, M: m, Ctx: ctx, Warm: true, OnIssue: warmReport(c, m)}
	if err := rp.ReplayAll(hs); err != nil {
		return err
	}
	c.Add("traces_validated_against_impl", int64(len(hs)))
	c.Add("replayed_steps", rp.Steps)
	c.Logf("%s: TLC %d states (Replayable holds), %d histories replayed through one long-lived handle, %d steps", m.Name, res.Distinct, len(hs), rp.Steps)
	if len(hs) > 0 {
		c.Sample(map[string]any{"model": m.Name, "history": hs[len(hs)/2].String()})
	}
	return nil
}

// rewriteRaces: commits whose content depends on the tip they are built on
// (compaction, delete) racing on the same objects.  Whatever the interleaving,
// every acknowledged commit must be replayable: the branch stays readable and
// shows exactly the acknowledged effects.
func rewriteRaces(c *core.Ctx) error {
	ctx := context.Background()
	inv := []string{"TypeOK", "HeadHint", "NotStuck", "ChainOK", "AckedOnce", "NoOrphanOnFail", "AckedCommitStored", "SingleChain"}
	mkRunner := func() (*jrun.Runner, *[]ksuid.KSUID) {
		var objs []ksuid.KSUID
		r := &jrun.Runner{C: c, Ctx: ctx, Thresh: 1, SkipTipData: true}
		r.Setup = func(ctx context.Context, lk *lakeh.Lake, pool ksuid.KSUID) error {
			if _, err := lk.LoadZSON(ctx, pool, "main", "{k:1,u:1}\n{k:2,u:2}\n{k:3,u:3}"); err != nil {
				return err
			}
			infos, err := lk.Objects(ctx, "p", "main")
			if err != nil || len(infos) != 3 {
				return fmt.Errorf("fixture: %d objects %v", len(infos), err)
			}
			sort.Slice(infos, func(i, j int) bool { return infos[i].Min < infos[j].Min })
			objs = objs[:0]
			for _, o := range infos {
				id, _ := ksuid.Parse(o.ID)
				objs = append(objs, id)
			}
			return nil
		}
		r.Tip = func(ctx context.Context, lk *lakeh.Lake, pool ksuid.KSUID, cl, k int, op lakeh.JOp) (ksuid.KSUID, error) {
			m := api.CommitMessage{Author: "verif"}
			switch op.Arg {
			case "compact01":
				return lk.API.Compact(ctx, pool, op.Key, []ksuid.KSUID{objs[0], objs[1]}, false, m)
			case "delete0":
				return lk.API.Delete(ctx, pool, op.Key, []ksuid.KSUID{objs[0]}, m)
			case "deletewhere1":
				return lk.API.DeleteWhere(ctx, pool, op.Key, "k==1", m)
			}
			return ksuid.Nil, fmt.Errorf("unknown tip realization %q", op.Arg)
		}
		return r, &objs
	}
	rw := func(arg string) lakeh.JOp { return lakeh.JOp{K: "tip", Key: "main", Arg: arg} }
	scs := []*lakeh.JScenario{
		{Name: "compact_vs_delete", Script: [][]lakeh.JOp{{rw("compact01")}, {rw("delete0")}}},
		{Name: "compact_vs_deletewhere", Script: [][]lakeh.JOp{{rw("compact01")}, {rw("deletewhere1")}}},
		{Name: "delete_vs_deletewhere", Script: [][]lakeh.JOp{{rw("delete0")}, {rw("deletewhere1")}}},
	}
	for _, sc := range scs {
		sc.Journal, sc.Init, sc.MaxRetries, sc.MaxCommitRetries, sc.PreemptBound, sc.MoveChecksID, sc.Invariants = "branches", map[string]int{"main": 0}, 10, 10, 2, true, inv
		if !c.Quick() {
			sc.PreemptBound = 99
		}
		r0, _ := mkRunner()
		if err := r0.Calibrate(sc); err != nil {
			return err
		}
		bhs, res := sc.Run(c, true, false, 8)
		if res == nil {
			return nil
		}
		limit := 60
		if !c.Quick() {
			limit = 800
		}
		if len(bhs) > limit {
			step := len(bhs) / limit
			var sub []lakeh.JBehaviour
			for i := int(c.Seed) % step; i < len(bhs) && len(sub) < limit; i += step {
				sub = append(sub, bhs[i])
			}
			bhs = sub
		}
		c.Logf("%s: TLC %d distinct states; replaying %d schedules of conflicting rewrites", sc.Name, res.Distinct, len(bhs))
		for i := range bhs {
			bh := &bhs[i]
			r, _ := mkRunner()
			results, _, _, err := r.Execute(sc, bh.Sched, nil)
			if err != nil {
				return fmt.Errorf("%s schedule %s: %w", sc.Name, lakeh.SchedKey(bh.Sched), err)
			}
			c.Eval(sc.Name+"|"+lakeh.SchedKey(bh.Sched), true)
			w := jrun.Witness{Scenario: sc, Sched: bh.Sched, Results: results}
			sk := lakeh.SchedKey(bh.Sched)
			if r.Final == nil {
				c.Violate("unreadable:"+sc.Name, fmt.Sprintf("branch main cannot be read after conflicting rewrites were acknowledged/refused [schedule %s; results %+v]", sk, results), w)
				continue
			}
			has := map[int]int{}
			for _, u := range r.Final {
				has[u]++
			}
			removed1 := false
			for _, g := range results {
				if g.Res == "ok" && (g.Op.Arg == "delete0" || g.Op.Arg == "deletewhere1") {
					removed1 = true
				}
			}
			want1 := 1
			if removed1 {
				want1 = 0
			}
			if has[1] != want1 || has[2] != 1 || has[3] != 1 {
				c.Violate("contents:"+sc.Name, fmt.Sprintf("after conflicting rewrites main holds %v; value 1 must appear %d time(s), values 2 and 3 once [schedule %s; results %+v]", r.Final, want1, sk, results), w)
			}
		}
	}
	return nil
}

// randomTraces: larger configurations than can be exported exhaustively are run
// under a seeded random scheduler; the recorded storage-level traces are validated
// by TLC against Journal.tla (JournalTrace.tla) and the oracles are evaluated.
func randomTraces(c *core.Ctx, r *jrun.Runner) error {
	mk := func(name, journal string, init map[string]int, script ...[]lakeh.JOp) *lakeh.JScenario {
		inv := []string{"TypeOK", "HeadHint", "NotStuck", "ChainOK", "InsertOK", "DeleteOK", "MoveOK", "JournalReplayable", "AckedOnce", "NoOrphanOnFail", "AckedCommitStored", "SingleChain"}
		return &lakeh.JScenario{Name: name, Journal: journal, Script: script, Init: init, MaxRetries: 10, MaxCommitRetries: 10,
			PreemptBound: 99, MoveChecksID: true, Invariants: inv}
	}
	scs := []*lakeh.JScenario{
		mk("rnd_commits", "branches", map[string]int{"main": 0, "b1": 0},
			[]lakeh.JOp{tip("main"), tip("b1"), tip("main")}, []lakeh.JOp{tip("main"), tip("main")},
			[]lakeh.JOp{ins("b2"), tip("b2"), rmkey("b1")}, []lakeh.JOp{tip("b1"), tip("main")}),
		mk("rnd_pools", "pools", map[string]int{"p": 1, "q": 2},
			[]lakeh.JOp{ins("x"), ren(2, "y")}, []lakeh.JOp{rmid(2), ins("q"), ins("x")}, []lakeh.JOp{ren(1, "x"), ren(1, "p2")}),
	}
	n := 12
	if !c.Quick() {
		n = 300
	}
	for _, sc := range scs {
		if err := r.Calibrate(sc); err != nil {
			return err
		}
		rng := rand.New(rand.NewSource(c.Seed*7919 + 12))
		r.Rand = rng
		var traces [][]lakeh.GateStep
		for i := 0; i < n; i++ {
			results, fails, _, err := r.Execute(sc, nil, nil)
			if err != nil {
				return fmt.Errorf("%s random run %d: %w", sc.Name, i, err)
			}
			tr := append([]lakeh.GateStep(nil), r.LastTrace...)
			traces = append(traces, tr)
			c.Eval(sc.Name+"|rnd|"+lakeh.SchedKey(tr), true)
			for _, f := range fails {
				c.Violate(sigOf(f)+":"+sc.Name, fmt.Sprintf("%s [scenario %s, random schedule %s]", f, sc.Name, lakeh.SchedKey(tr)),
					jrun.Witness{Scenario: sc, Sched: tr, Results: results, Detail: f})
			}
		}
		// validate in batches so that a rejection can be attributed
		batch := 12
		for i := 0; i < len(traces); i += batch {
			j := i + batch
			if j > len(traces) {
				j = len(traces)
			}
			ok, matched, res, err := sc.TraceCheck(c, traces[i:j])
			switch {
			case err != nil:
				c.Inconclusive("trace validation of %s: %v", sc.Name, err)
			case ok:
				c.Add("traces_validated_against_impl", int64(j-i))
				c.Add("trace_events_validated", int64(matched))
			default:
				c.Drift("%s: TLC does not accept recorded traces %d..%d as behaviours of Journal.tla (%s %s, %d events matched)", sc.Name, i, j-1, res.Status, res.Violated, matched)
			}
		}
		// binding self-test: a corrupted trace (one put-if-absent outcome flipped) must be rejected
		if len(traces) > 0 {
			bad := append([]lakeh.GateStep(nil), traces[0]...)
			for i := range bad {
				if bad[i].Lbl == "cas" {
					if bad[i].R == "ok" {
						bad[i].R = "exists"
					} else {
						bad[i].R = "ok"
					}
					break
				}
			}
			if ok, _, _, err := sc.TraceCheck(c, [][]lakeh.GateStep{bad}); err == nil {
				if ok {
					c.Inconclusive("%s: a corrupted trace was accepted by JournalTrace.tla: the trace spec does not bind", sc.Name)
				} else {
					c.Add("corrupted_traces_rejected", 1)
				}
			}
		}
		c.Logf("%s: %d random schedules executed and validated against Journal.tla", sc.Name, len(traces))
		if len(traces) > 0 {
			c.Sample(map[string]any{"scenario": sc.Name, "random_trace": traces[0]})
		}
	}
	r.Rand = nil
	return nil
}

func main() { core.Main("C12", "model_checking", run) }
