// C12 -- branch and metadata updates are linearizable; accepted commits stay replayable.
//
// specs/Journal.tla is the implementation-shaped model of the journal
// protocol (journal.Queue / journal.Store / Branch.commit / pools.Store /
// branches.Store): one action per storage operation on the shared metadata
// paths.  TLC explores every interleaving of 2-3 clients (bounded by a
// preemption budget), checks that every journal entry was legal with respect
// to the table just before it (linearizability of the updates), that acked
// operations contributed exactly one entry and failed ones none, the single
// parent chain, HEAD as a bounded hint, and exports every complete behaviour
// as a schedule.  Each schedule is replayed on the real lake: real clients
// (separate lake.Root handles over one storage) are stepped through a
// deterministic gate on exactly those storage operations, each granted step is
// compared with the spec's step label (binding), and at the end the property's
// own oracles are evaluated on the real storage with a cold handle.
package main

import (
	"context"
	"fmt"
	"sort"
	"strings"
	"sync"

	"github.com/brimdata/super/api"
	"github.com/segmentio/ksuid"

	"verif/core"
	"verif/lakeh"
)

var allInv = []string{"TypeOK", "HeadHint", "NotStuck", "ChainOK", "InsertOK", "DeleteOK", "MoveOK", "JournalReplayable",
	"ValuesUnique", "AckedOnce", "NoOrphanOnFail", "AckedCommitStored", "SingleChain"}

func tip(b string) lakeh.JOp         { return lakeh.JOp{K: "tip", Key: b} }
func ins(n string) lakeh.JOp         { return lakeh.JOp{K: "insert", Key: n} }
func rmkey(n string) lakeh.JOp       { return lakeh.JOp{K: "rmkey", Key: n} }
func ren(id int, n string) lakeh.JOp { return lakeh.JOp{K: "rename", ID: id, New: n} }
func rmid(id int) lakeh.JOp          { return lakeh.JOp{K: "rmid", ID: id} }

func scenarios(c *core.Ctx) []*lakeh.JScenario {
	mk := func(name, journal string, pb int, init map[string]int, script ...[]lakeh.JOp) *lakeh.JScenario {
		inv := allInv
		if journal == "branches" {
			inv = nil // two branches may point at the same commit
			for _, x := range allInv {
				if x != "ValuesUnique" {
					inv = append(inv, x)
				}
			}
		}
		return &lakeh.JScenario{Name: name, Journal: journal, Script: script, Init: init, MaxRetries: 10, MaxCommitRetries: 10,
			PreemptBound: pb, MoveChecksID: true, Invariants: inv}
	}
	main0 := map[string]int{"main": 0}
	mainb1 := map[string]int{"main": 0, "b1": 0}
	pools := map[string]int{"p": 1, "q": 2}
	if c.Quick() {
		return []*lakeh.JScenario{
			mk("two_commits", "branches", 2, main0, []lakeh.JOp{tip("main")}, []lakeh.JOp{tip("main")}),
			mk("branch_names", "branches", 2, main0, []lakeh.JOp{ins("b1")}, []lakeh.JOp{ins("b1"), tip("b1")}),
			mk("drop_vs_commit", "branches", 2, mainb1, []lakeh.JOp{rmkey("b1")}, []lakeh.JOp{tip("b1")}),
			mk("rename_race", "pools", 2, pools, []lakeh.JOp{ren(2, "r")}, []lakeh.JOp{rmid(2), ins("q")}),
			mk("pool_names", "pools", 2, pools, []lakeh.JOp{ins("x")}, []lakeh.JOp{ins("x")}, []lakeh.JOp{ren(2, "x")}),
		}
	}
	return []*lakeh.JScenario{
		mk("two_commits", "branches", 99, main0, []lakeh.JOp{tip("main")}, []lakeh.JOp{tip("main")}),
		mk("three_commits", "branches", 2, main0, []lakeh.JOp{tip("main")}, []lakeh.JOp{tip("main")}, []lakeh.JOp{tip("main")}),
		mk("two_by_two", "branches", 3, main0, []lakeh.JOp{tip("main"), tip("main")}, []lakeh.JOp{tip("main"), tip("main")}),
		mk("branch_names", "branches", 4, main0, []lakeh.JOp{ins("b1"), tip("b1")}, []lakeh.JOp{ins("b1"), tip("b1")}),
		mk("drop_vs_commit", "branches", 99, mainb1, []lakeh.JOp{rmkey("b1")}, []lakeh.JOp{tip("b1")}),
		mk("drop_create_commit", "branches", 3, mainb1, []lakeh.JOp{rmkey("b1"), ins("b1")}, []lakeh.JOp{tip("b1")}, []lakeh.JOp{tip("main")}),
		mk("rename_race", "pools", 99, pools, []lakeh.JOp{ren(2, "r")}, []lakeh.JOp{rmid(2), ins("q")}),
		mk("pool_names", "pools", 3, pools, []lakeh.JOp{ins("x")}, []lakeh.JOp{ins("x")}, []lakeh.JOp{ren(2, "x")}),
		mk("pool_churn", "pools", 3, pools, []lakeh.JOp{ren(1, "q2"), ren(1, "p")}, []lakeh.JOp{rmid(2), ins("q2")}, []lakeh.JOp{ren(2, "z")}),
	}
}

type opResult struct {
	C   int       `json:"c"`
	I   int       `json:"i"`
	Op  lakeh.JOp `json:"op"`
	Res string    `json:"res"`
	Err string    `json:"err,omitempty"`
	ID  string    `json:"id,omitempty"` // commit / pool id returned
	UID int       `json:"uid,omitempty"`
}

type witness struct {
	Scenario *lakeh.JScenario `json:"scenario"`
	Sched    []lakeh.GateStep `json:"sched"`
	Results  []opResult       `json:"results"`
	Detail   string           `json:"detail"`
}

type runner struct {
	c   *core.Ctx
	ctx context.Context
}

// run one schedule on the real lake; returns the real results and the list of oracle failures.
func (r *runner) execute(sc *lakeh.JScenario, sched []lakeh.GateStep, want *lakeh.JBehaviour) (results []opResult, fails []string, drift string, err error) {
	ctx := r.ctx
	store := lakeh.NewMemStore()
	lk0, err := lakeh.Create(ctx, store, 0, nil)
	if err != nil {
		return nil, nil, "", err
	}
	poolP, err := lk0.CreatePool(ctx, "p", "k", "asc", 0, 0)
	if err != nil {
		return nil, nil, "", err
	}
	if _, err := lk0.LoadZSON(ctx, poolP, "main", "{k:0,u:0}"); err != nil {
		return nil, nil, "", err
	}
	ids := map[int]ksuid.KSUID{1: poolP} // spec id -> real pool id
	if sc.Journal == "pools" {
		q, err := lk0.CreatePool(ctx, "q", "k", "asc", 0, 0)
		if err != nil {
			return nil, nil, "", err
		}
		ids[2] = q
	}
	mainTip, err := lk0.API.CommitObject(ctx, poolP, "main")
	if err != nil {
		return nil, nil, "", err
	}
	if _, ok := sc.Init["b1"]; ok && sc.Journal == "branches" {
		if err := lk0.API.CreateBranch(ctx, poolP, "b1", mainTip); err != nil {
			return nil, nil, "", err
		}
	}
	var gate *lakeh.Gate
	headPath := "pools/HEAD"
	if sc.Journal == "branches" {
		gate = lakeh.NewGate(store, poolP.String()+"/branches", poolP.String()+"/commits")
		headPath = poolP.String() + "/branches/HEAD"
	} else {
		gate = lakeh.NewGate(store, "pools", "")
	}
	hb, _ := store.GetRaw(headPath)
	var head0 int
	fmt.Sscanf(strings.TrimSpace(string(hb)), "%d", &head0)

	n := len(sc.Script)
	clients := make([]*lakeh.Lake, n+1)
	for i := 1; i <= n; i++ {
		lk, err := lakeh.Open(ctx, store, i, gate.Hook(i))
		if err != nil {
			return nil, nil, "", err
		}
		// warm the handle's caches (ungated: Begin has not been called)
		lk.API.CommitObject(ctx, poolP, "main")
		clients[i] = lk
	}
	var mu sync.Mutex
	var wg sync.WaitGroup
	for i := 1; i <= n; i++ {
		gate.Begin(i)
		wg.Add(1)
		go func(i int) {
			defer wg.Done()
			defer gate.End(i)
			lk := clients[i]
			for k, op := range sc.Script[i-1] {
				res := opResult{C: i, I: k + 1, Op: op, UID: 100*i + k + 1}
				gate.OpBoundary(i)
				var e error
				switch op.K {
				case "tip":
					var cm ksuid.KSUID
					cm, e = lk.LoadZSON(ctx, poolP, op.Key, fmt.Sprintf("{k:%d,u:%d}", res.UID, res.UID))
					res.ID = cm.String()
				case "insert":
					if sc.Journal == "branches" {
						e = lk.API.CreateBranch(ctx, poolP, op.Key, mainTip)
					} else {
						var id ksuid.KSUID
						id, e = lk.API.CreatePool(ctx, op.Key, lakeh.SortKeys("k", "asc"), 0, 0)
						res.ID = id.String()
					}
				case "rmkey":
					e = lk.API.RemoveBranch(ctx, poolP, op.Key)
				case "rename":
					e = lk.API.RenamePool(ctx, ids[op.ID], op.New)
				case "rmid":
					e = lk.API.RemovePool(ctx, ids[op.ID])
				}
				res.Res = "ok"
				if e != nil {
					res.Res, res.Err = "err", e.Error()
				}
				mu.Lock()
				results = append(results, res)
				mu.Unlock()
			}
		}(i)
	}
	if !gate.WaitQuiescent() {
		gate.Drain()
		wg.Wait()
		return results, nil, "", fmt.Errorf("clients did not reach the gate")
	}
	for si, st := range sched {
		lbl, rn, _ := gate.Pending(st.C)
		if gate.State(st.C) != "blocked" || lbl != st.Lbl {
			drift = fmt.Sprintf("step %d: spec expects client %d to do %s, real client is %s with pending %q", si+1, st.C, st.Lbl, gate.State(st.C), lbl)
			break
		}
		if (lbl == "cas") && rn != st.N+head0 {
			drift = fmt.Sprintf("step %d: spec expects cas of entry %d, real client writes entry %d (offset %d)", si+1, st.N, rn, head0)
			break
		}
		if err := gate.Grant(st.C); err != nil {
			gate.Drain()
			wg.Wait()
			return results, nil, "", err
		}
		tr := gate.Trace[len(gate.Trace)-1]
		if drift == "" && lbl == "rh" && tr.N != st.N+head0 {
			drift = fmt.Sprintf("step %d: spec predicts HEAD=%d, real HEAD=%d (offset %d)", si+1, st.N, tr.N, head0)
		}
		if drift == "" && lbl == "cas" && tr.R != st.R {
			drift = fmt.Sprintf("step %d: spec predicts cas %s, real %s", si+1, st.R, tr.R)
		}
		if drift != "" {
			break
		}
	}
	if drift == "" {
		for i := 1; i <= n; i++ {
			if gate.State(i) != "done" {
				l, _, _ := gate.Pending(i)
				drift = fmt.Sprintf("after the schedule client %d is not finished (pending %q)", i, l)
			}
		}
	}
	gate.Drain()
	wg.Wait()
	sort.Slice(results, func(a, b int) bool {
		if results[a].C != results[b].C {
			return results[a].C < results[b].C
		}
		return results[a].I < results[b].I
	})
	// compare responses with the spec's (binding; a mismatch is drift, the oracles below decide)
	if drift == "" && want != nil {
		for _, w := range want.Resp {
			for _, g := range results {
				if g.C == w.C && g.I == w.I && (g.Res == "ok") != (w.Res == "ok") {
					drift = fmt.Sprintf("client %d op %d (%s): spec result %s, real %s %s", w.C, w.I, w.Op.K, w.Res, g.Res, g.Err)
				}
			}
		}
	}
	fails = r.oracles(sc, store, poolP, ids, results)
	return results, fails, drift, nil
}

// oracles evaluates the property on the real storage with a cold handle.
func (r *runner) oracles(sc *lakeh.JScenario, store *lakeh.MemStore, poolP ksuid.KSUID, ids map[int]ksuid.KSUID, results []opResult) (fails []string) {
	ctx := r.ctx
	obs, err := lakeh.Open(ctx, store, 99, nil)
	if err != nil {
		return []string{"unreadable: lake cannot be reopened: " + err.Error()}
	}
	if sc.Journal == "branches" {
		rows, err := obs.Query(ctx, "from :branches | pool.name=='p' | yield branch.name")
		if err != nil {
			return []string{"unreadable: branch table of pool p cannot be read: " + err.Error()}
		}
		names := map[string]int{}
		for _, n := range rows {
			names[strings.Trim(n, `"`)]++
		}
		for n, k := range names {
			if k > 1 {
				fails = append(fails, fmt.Sprintf("names: branch name %q appears %d times", n, k))
			}
		}
		removed := map[string]bool{}
		for _, g := range results {
			if g.Op.K == "rmkey" && g.Res == "ok" {
				removed[g.Op.Key] = true
			}
		}
		// acked creates are present unless an acked remove exists
		for _, g := range results {
			if g.Op.K == "insert" && g.Res == "ok" && !removed[g.Op.Key] && names[g.Op.Key] == 0 {
				fails = append(fails, fmt.Sprintf("lost-update: acknowledged create of branch %q is not in the branch table", g.Op.Key))
			}
		}
		for b := range names {
			got, err := obs.Query(ctx, "from p@"+b)
			if err != nil {
				fails = append(fails, fmt.Sprintf("unreadable: branch %q cannot be read: %v", b, err))
				continue
			}
			have := map[int]int{}
			for _, row := range got {
				var k, u int
				fmt.Sscanf(row, "{k:%d,u:%d}", &k, &u)
				have[u]++
			}
			for _, g := range results {
				if g.Op.K != "tip" || g.Op.Key != b {
					continue
				}
				switch {
				case g.Res == "ok" && have[g.UID] != 1 && !removed[b]:
					fails = append(fails, fmt.Sprintf("lost-update: acknowledged commit of value u=%d on branch %q appears %d times in the branch", g.UID, b, have[g.UID]))
				case g.Res != "ok" && have[g.UID] != 0:
					fails = append(fails, fmt.Sprintf("fail-trace: commit of u=%d on %q reported failure (%s) but the value is visible", g.UID, b, g.Err))
				}
			}
		}
		return fails
	}
	// pools journal
	rows, err := obs.Query(ctx, "from :pools | yield {name:name,id:ksuid(id)}")
	if err != nil {
		return []string{"unreadable: pool table cannot be read: " + err.Error()}
	}
	byName, byID := map[string]int{}, map[string]string{}
	for _, row := range rows {
		var name, id string
		row = strings.NewReplacer("{name:", "", "id:", "", "}", "", `"`, "").Replace(row)
		parts := strings.Split(row, ",")
		if len(parts) == 2 {
			name, id = parts[0], parts[1]
		}
		byName[name]++
		if prev, ok := byID[id]; ok {
			fails = append(fails, fmt.Sprintf("names: pool id %s is registered under two names %q and %q", id, prev, name))
		}
		byID[id] = name
	}
	for n, k := range byName {
		if k > 1 {
			fails = append(fails, fmt.Sprintf("names: pool name %q appears %d times", n, k))
		}
	}
	removedID, renamedID := map[string]bool{}, map[string]string{}
	for _, g := range results {
		if g.Res != "ok" {
			continue
		}
		switch g.Op.K {
		case "rmid":
			removedID[ids[g.Op.ID].String()] = true
		case "rename":
			renamedID[ids[g.Op.ID].String()] = g.Op.New
		}
	}
	// an acknowledged create is present unless that pool id was removed by an acknowledged operation
	for _, g := range results {
		if g.Op.K == "insert" && g.Res == "ok" && !removedID[g.ID] {
			if _, ok := byID[g.ID]; !ok {
				fails = append(fails, fmt.Sprintf("lost-update: pool %q (id %s) was created and acknowledged, never removed, but is not in the pool table", g.Op.Key, g.ID))
			}
		}
	}
	// initial pools that nobody removed must still be registered
	for sid, id := range ids {
		if !removedID[id.String()] {
			if _, ok := byID[id.String()]; !ok {
				fails = append(fails, fmt.Sprintf("lost-update: initial pool #%d (id %s) was never removed but is not in the pool table", sid, id))
			}
		}
	}
	// every registered pool is usable; a pool removed by an acknowledged operation is not registered
	for id, name := range byID {
		if removedID[id] {
			fails = append(fails, fmt.Sprintf("fail-trace: pool id %s was removed (acknowledged) but is still registered as %q", id, name))
			continue
		}
		if _, err := obs.Query(ctx, "from "+name); err != nil {
			fails = append(fails, fmt.Sprintf("unreadable: registered pool %q (id %s) cannot be read: %v", name, id, err))
		}
	}
	return fails
}

func sigOf(fail string) string {
	kind, _, _ := strings.Cut(fail, ":")
	return kind
}

func run(c *core.Ctx) error {
	ctx := context.Background()
	r := &runner{c: c, ctx: ctx}
	c.Rule("cases = complete behaviours (schedules over the gated storage operations of 2-3 clients) exported by TLC from Journal.tla, each replayed on real lake.Root handles through a deterministic storage gate; non-trivial = the schedule contains at least one preemption (a client is switched out in the middle of an operation)")
	c.Trust("TLC 1.8.0; the harness' in-memory storage engine with atomic put-if-absent; the gate (a scheduling decision is only taken when every client is blocked or finished)")
	c.Assume("storage with atomic PutIfNotExists (the S3 fallback in Queue.CommitAt is documented as incorrect in the code, issue #2686, and out of scope); schedules bounded by the preemption budget stated per scenario")
	if c.Replay != "" {
		var w witness
		if _, err := c.ReplayWitness(&w); err != nil {
			return err
		}
		_, fails, drift, err := r.execute(w.Scenario, w.Sched, nil)
		if err != nil {
			return err
		}
		fmt.Printf("replay: drift=%q fails=%v\n", drift, fails)
		for _, f := range fails {
			c.Violate(sigOf(f)+":"+w.Scenario.Name, f, w)
		}
		return nil
	}
	for _, sc := range scenarios(c) {
		bhs, res := sc.Run(c, true, false, 8)
		if res == nil {
			return nil
		}
		limit := 400
		if !c.Quick() {
			limit = 6000
		}
		if len(bhs) > limit {
			step := len(bhs) / limit
			var sub []lakeh.JBehaviour
			for i := int(c.Seed) % step; i < len(bhs) && len(sub) < limit; i += step {
				sub = append(sub, bhs[i])
			}
			bhs = sub
		}
		c.Logf("%s: TLC %d distinct states, all invariants hold; replaying %d schedules", sc.Name, res.Distinct, len(bhs))
		drifts := 0
		for i := range bhs {
			bh := &bhs[i]
			results, fails, drift, err := r.execute(sc, bh.Sched, bh)
			if err != nil {
				return fmt.Errorf("%s schedule %s: %w", sc.Name, lakeh.SchedKey(bh.Sched), err)
			}
			preempt := false
			for j := 1; j < len(bh.Sched); j++ {
				if bh.Sched[j].C != bh.Sched[j-1].C {
					preempt = true
				}
			}
			c.Eval(sc.Name+"|"+lakeh.SchedKey(bh.Sched), preempt)
			if drift != "" {
				drifts++
				c.Drift("%s schedule %s: %s", sc.Name, lakeh.SchedKey(bh.Sched), drift)
			} else {
				c.Add("traces_validated_against_impl", 1)
			}
			for _, f := range fails {
				c.Violate(sigOf(f)+":"+sc.Name, fmt.Sprintf("%s [scenario %s, schedule %s]", f, sc.Name, lakeh.SchedKey(bh.Sched)),
					witness{Scenario: sc, Sched: bh.Sched, Results: results, Detail: f})
			}
			if i == len(bhs)/2 {
				c.Sample(map[string]any{"scenario": sc.Name, "schedule": lakeh.SchedKey(bh.Sched), "steps": bh.Sched, "spec_responses": bh.Resp})
			}
		}
		c.Logf("%s: %d schedules replayed, %d drifted", sc.Name, len(bhs), drifts)
	}
	return nil
}

var _ = api.CommitMessage{}

func main() { core.Main("C12", "model_checking", run) }
