// C17 -- a crash at any point leaves the lake consistent, atomic and usable.
//
// (A) specs/Journal.tla with Crash(c): TLC explores every crash point of the
// journal / branch-commit protocol together with another client's follow-up
// operation, checks the safety invariants, and exports the behaviours; each is
// replayed on real lake handles through the storage gate (the crashed client's
// pending and later storage calls fail-stop) and the real storage is then
// examined with a cold handle: readable, nothing acknowledged lost, usable.
//
// (B) fault enumeration on the real code: for every mutating lake operation,
// the process is fail-stopped at EVERY storage call k (the number of calls is
// measured by a dry run, so points the spec does not model -- data objects,
// seek indexes, commit objects, snapshots, pool directories -- are covered
// too); the lake is reopened with cold caches and must be readable, show the
// complete effect of the interrupted operation or none of it, keep everything
// acknowledged before, and accept follow-up operations.
package main

import (
	"context"
	"errors"
	"fmt"
	"os"
	"path/filepath"
	"regexp"
	"sort"
	"strings"
	"sync"

	"github.com/brimdata/super/api"
	"github.com/segmentio/ksuid"

	"verif/core"
	"verif/jrun"
	"verif/lakeh"
)

var crashInv = []string{"TypeOK", "HeadHint", "ChainOK", "InsertOK", "DeleteOK", "MoveOK", "JournalReplayable",
	"AckedOnce", "NoOrphanOnFail", "AckedCommitStored", "SingleChain"}

func tip(b string) lakeh.JOp         { return lakeh.JOp{K: "load", Key: b} } // a commit realized as a load
func ins(n string) lakeh.JOp         { return lakeh.JOp{K: "insert", Key: n} }
func rmkey(n string) lakeh.JOp       { return lakeh.JOp{K: "rmkey", Key: n} }
func ren(id int, n string) lakeh.JOp { return lakeh.JOp{K: "rename", ID: id, New: n} }
func rmid(id int) lakeh.JOp          { return lakeh.JOp{K: "rmid", ID: id} }

func scenarios(c *core.Ctx) []*lakeh.JScenario {
	mk := func(name, journal string, pb int, init map[string]int, script ...[]lakeh.JOp) *lakeh.JScenario {
		return &lakeh.JScenario{Name: name, Journal: journal, Script: script, Init: init, MaxRetries: 10, MaxCommitRetries: 10,
			PreemptBound: pb, CrashBound: 1, MoveChecksID: true, Invariants: crashInv}
	}
	main0 := map[string]int{"main": 0}
	mainb1 := map[string]int{"main": 0, "b1": 0}
	pools := map[string]int{"p": 1, "q": 2}
	pb := 1
	if !c.Quick() {
		pb = 3
	}
	return []*lakeh.JScenario{
		mk("crash_commit", "branches", pb, main0, []lakeh.JOp{tip("main")}, []lakeh.JOp{tip("main")}),
		mk("crash_branch_ops", "branches", pb, mainb1, []lakeh.JOp{rmkey("b1"), ins("b2")}, []lakeh.JOp{tip("main")}),
		mk("crash_pool_ops", "pools", pb, pools, []lakeh.JOp{ren(2, "r"), rmid(2)}, []lakeh.JOp{ins("x")}),
	}
}

// ---------------------------------------------------------------- part B

type crashStore struct {
	mu     sync.Mutex
	calls  int
	at     int // fail-stop at this call number (0 = never)
	dead   bool
	atCall lakeh.Op
	log    []lakeh.Op
}

func (cs *crashStore) hook(o lakeh.Op) error {
	cs.mu.Lock()
	defer cs.mu.Unlock()
	if cs.dead {
		return lakeh.ErrCrashed
	}
	cs.calls++
	cs.log = append(cs.log, o)
	if cs.at != 0 && cs.calls == cs.at {
		cs.dead = true
		cs.atCall = o
		return lakeh.ErrCrashed
	}
	return nil
}

var reKsuid = regexp.MustCompile(`[0-9A-Za-z]{27}`)
var reNum = regexp.MustCompile(`/\d+\.zng$`)

// pathClass abstracts a storage path (ids removed).
func pathClass(p string) string {
	p = reKsuid.ReplaceAllString(p, "ID")
	p = reNum.ReplaceAllString(p, "/N.zng")
	return p
}

// backend is the storage a fixture lives on: the in-memory engine (atomic
// puts) or a directory accessed through the repository's own file engine.
type backend interface {
	Open(ctx context.Context, client int, hook lakeh.Interposer) (*lakeh.Lake, error)
	Clone() (backend, error)
	Kind() string
	Drop()
}

type memB struct{ st *lakeh.MemStore }

func (m memB) Open(ctx context.Context, client int, hook lakeh.Interposer) (*lakeh.Lake, error) {
	return lakeh.Open(ctx, m.st, client, hook)
}
func (m memB) Clone() (backend, error) { return memB{m.st.Clone()}, nil }
func (m memB) Kind() string            { return "mem" }
func (m memB) Drop()                   {}

var fsSeq int

type fsB struct {
	b       *lakeh.FSBackend
	scratch string
}

func (f fsB) Open(ctx context.Context, client int, hook lakeh.Interposer) (*lakeh.Lake, error) {
	return f.b.Open(ctx, client, hook)
}
func (f fsB) Clone() (backend, error) {
	fsSeq++
	nb, err := f.b.Clone(filepath.Join(f.scratch, fmt.Sprintf("fs-%d", fsSeq)))
	if err != nil {
		return nil, err
	}
	return fsB{nb, f.scratch}, nil
}
func (f fsB) Kind() string { return "fs" }
func (f fsB) Drop()        { os.RemoveAll(f.b.Dir) }

type fixture struct {
	store backend
	p, q  ksuid.KSUID
	o1    ksuid.KSUID
	o2    ksuid.KSUID
	c1    ksuid.KSUID // first load commit on main
	// the backend/hook of the run in progress (for operations that open their own cold handle)
	cur     backend
	curHook lakeh.Interposer
}

func msg() api.CommitMessage { return api.CommitMessage{Author: "verif"} }

func buildFixture(ctx context.Context, kind, scratch string) (*fixture, error) {
	var lk *lakeh.Lake
	var err error
	var be backend
	if kind == "fs" {
		b, e := lakeh.NewFSBackend(filepath.Join(scratch, "fs-fixture"))
		if e != nil {
			return nil, e
		}
		lk, err = b.Create(ctx, 0, nil)
		be = fsB{b, scratch}
	} else {
		st := lakeh.NewMemStore()
		lk, err = lakeh.Create(ctx, st, 0, nil)
		be = memB{st}
	}
	if err != nil {
		return nil, err
	}
	f := &fixture{store: be}
	if f.p, err = lk.CreatePool(ctx, "p", "k", "asc", 0, 0); err != nil {
		return nil, err
	}
	if f.q, err = lk.CreatePool(ctx, "q", "k", "asc", 0, 0); err != nil {
		return nil, err
	}
	if f.c1, err = lk.LoadZSON(ctx, f.p, "main", "{k:1,u:1}\n{k:2,u:2}"); err != nil {
		return nil, err
	}
	if _, err = lk.LoadZSON(ctx, f.p, "main", "{k:1,u:3}\n{k:3,u:4}"); err != nil {
		return nil, err
	}
	objs, err := lk.Objects(ctx, "p", "main")
	if err != nil || len(objs) != 2 {
		return nil, fmt.Errorf("fixture objects: %v %v", objs, err)
	}
	f.o1, _ = ksuid.Parse(objs[0].ID)
	f.o2, _ = ksuid.Parse(objs[1].ID)
	tipc, _ := lk.API.CommitObject(ctx, f.p, "main")
	if err = lk.API.CreateBranch(ctx, f.p, "b1", tipc); err != nil {
		return nil, err
	}
	if _, err = lk.LoadZSON(ctx, f.p, "b1", "{k:5,u:5}"); err != nil {
		return nil, err
	}
	// something for vacuum to find: load then delete on main
	if _, err = lk.LoadZSON(ctx, f.p, "main", "{k:9,u:9}"); err != nil {
		return nil, err
	}
	objs, _ = lk.Objects(ctx, "p", "main")
	for _, o := range objs {
		id, _ := ksuid.Parse(o.ID)
		if id != f.o1 && id != f.o2 {
			if _, err = lk.API.Delete(ctx, f.p, "main", []ksuid.KSUID{id}, msg()); err != nil {
				return nil, err
			}
		}
	}
	if _, err = lk.LoadZSON(ctx, f.q, "main", "{k:7,u:7}"); err != nil {
		return nil, err
	}
	return f, nil
}

type opCase struct {
	name string
	run  func(ctx context.Context, lk *lakeh.Lake, f *fixture) error
}

func opCases() []opCase {
	return []opCase{
		{"load", func(ctx context.Context, lk *lakeh.Lake, f *fixture) error {
			_, err := lk.LoadZSON(ctx, f.p, "main", "{k:4,u:10}\n{k:0,u:11}")
			return err
		}},
		{"delete", func(ctx context.Context, lk *lakeh.Lake, f *fixture) error {
			_, err := lk.API.Delete(ctx, f.p, "main", []ksuid.KSUID{f.o1}, msg())
			return err
		}},
		{"deletewhere", func(ctx context.Context, lk *lakeh.Lake, f *fixture) error {
			_, err := lk.API.DeleteWhere(ctx, f.p, "main", "k==1", msg())
			return err
		}},
		{"compact", func(ctx context.Context, lk *lakeh.Lake, f *fixture) error {
			_, err := lk.API.Compact(ctx, f.p, "main", []ksuid.KSUID{f.o1, f.o2}, false, msg())
			return err
		}},
		{"compact+vectors", func(ctx context.Context, lk *lakeh.Lake, f *fixture) error {
			_, err := lk.API.Compact(ctx, f.p, "main", []ksuid.KSUID{f.o1, f.o2}, true, msg())
			return err
		}},
		{"merge", func(ctx context.Context, lk *lakeh.Lake, f *fixture) error {
			_, err := lk.API.MergeBranch(ctx, f.p, "b1", "main", msg())
			return err
		}},
		{"revert", func(ctx context.Context, lk *lakeh.Lake, f *fixture) error {
			_, err := lk.API.Revert(ctx, f.p, "main", f.c1, msg())
			return err
		}},
		{"addvectors", func(ctx context.Context, lk *lakeh.Lake, f *fixture) error {
			_, err := lk.API.AddVectors(ctx, "p", "main", []ksuid.KSUID{f.o1}, msg())
			return err
		}},
		{"vacuum", func(ctx context.Context, lk *lakeh.Lake, f *fixture) error {
			_, err := lk.API.Vacuum(ctx, "p", "main", false)
			return err
		}},
		{"query", func(ctx context.Context, lk *lakeh.Lake, f *fixture) error {
			cold, err := f.cur.Open(ctx, 3, f.curHook)
			if err != nil {
				return err
			}
			_, err = cold.Query(ctx, "from p | count()")
			return err
		}},
		{"createbranch", func(ctx context.Context, lk *lakeh.Lake, f *fixture) error {
			return lk.API.CreateBranch(ctx, f.p, "b2", f.c1)
		}},
		{"removebranch", func(ctx context.Context, lk *lakeh.Lake, f *fixture) error {
			return lk.API.RemoveBranch(ctx, f.p, "b1")
		}},
		{"createpool", func(ctx context.Context, lk *lakeh.Lake, f *fixture) error {
			_, err := lk.CreatePool(ctx, "n1", "k", "desc", 0, 0)
			return err
		}},
		{"renamepool", func(ctx context.Context, lk *lakeh.Lake, f *fixture) error {
			return lk.API.RenamePool(ctx, f.q, "q2")
		}},
		{"removepool", func(ctx context.Context, lk *lakeh.Lake, f *fixture) error {
			return lk.API.RemovePool(ctx, f.q)
		}},
	}
}

// observe projects the visible state of the lake with a cold handle:
// pools, branches per pool, contents per branch.  Unreadable parts are
// reported in errs.
func observe(ctx context.Context, st backend) (obs map[string]string, errs []string) {
	obs = map[string]string{}
	lk, err := st.Open(ctx, 90, nil)
	if err != nil {
		return obs, []string{"lake cannot be opened: " + err.Error()}
	}
	pools, err := lk.Query(ctx, "from :pools | yield name | sort this")
	if err != nil {
		return obs, []string{"pool table cannot be read: " + err.Error()}
	}
	obs[":pools"] = strings.Join(pools, ",")
	for _, pn := range pools {
		pn = strings.Trim(pn, `"`)
		brs, err := lk.Query(ctx, fmt.Sprintf("from :branches | pool.name=='%s' | yield branch.name | sort this", pn))
		if err != nil {
			errs = append(errs, fmt.Sprintf("branches of pool %s cannot be read: %v", pn, err))
			continue
		}
		obs[pn+":branches"] = strings.Join(brs, ",")
		for _, bn := range brs {
			bn = strings.Trim(bn, `"`)
			rows, err := lk.Query(ctx, fmt.Sprintf("from %s@%s | yield u | sort this", pn, bn))
			if err != nil {
				errs = append(errs, fmt.Sprintf("branch %s@%s cannot be read: %v", pn, bn, err))
				continue
			}
			obs[pn+"@"+bn] = strings.Join(rows, ",")
		}
	}
	return obs, errs
}

func obsString(o map[string]string) string {
	var ks []string
	for k := range o {
		ks = append(ks, k)
	}
	sort.Strings(ks)
	var b strings.Builder
	for _, k := range ks {
		fmt.Fprintf(&b, "%s=[%s] ", k, o[k])
	}
	return b.String()
}

// usable runs the follow-up workload on the (crashed) store.
func usable(ctx context.Context, st backend, f *fixture, redo *opCase) []string {
	var errs []string
	lk, err := st.Open(ctx, 91, nil)
	if err != nil {
		return []string{"lake cannot be opened: " + err.Error()}
	}
	pools, _ := lk.Query(ctx, "from :pools | yield name")
	havep := false
	for _, p := range pools {
		if p == `"p"` {
			havep = true
		}
	}
	if havep {
		if _, err := lk.LoadZSON(ctx, f.p, "main", "{k:50,u:50}"); err != nil {
			errs = append(errs, "follow-up load into p@main fails: "+err.Error())
		} else if _, err := lk.API.DeleteWhere(ctx, f.p, "main", "k==50", msg()); err != nil {
			errs = append(errs, "follow-up delete on p@main fails: "+err.Error())
		}
		tipc, err := lk.API.CommitObject(ctx, f.p, "main")
		if err == nil {
			if err := lk.API.CreateBranch(ctx, f.p, "ub", tipc); err != nil {
				errs = append(errs, "follow-up create branch fails: "+err.Error())
			}
		}
	}
	if _, err := lk.CreatePool(ctx, "up", "k", "asc", 0, 0); err != nil {
		errs = append(errs, "follow-up create pool fails: "+err.Error())
	}
	return errs
}

type bWitness struct {
	Op      string `json:"op"`
	K       int    `json:"k"`
	Call    string `json:"call"`
	Backend string `json:"backend"`
}

func runOpCrash(c *core.Ctx, ctx context.Context, f0 *fixture, oc opCase, k int, pre, post string) {
	st, err := f0.store.Clone()
	if err != nil {
		c.Inconclusive("clone: %v", err)
		return
	}
	defer st.Drop()
	cs := &crashStore{}
	lk, err := st.Open(ctx, 1, cs.hook)
	if err != nil {
		c.Inconclusive("open for %s: %v", oc.name, err)
		return
	}
	// warm the journal caches as a long-running process would have them (without
	// counting), but do not materialize commit snapshots: the interrupted
	// operation may be the first to compute the tip's snapshot
	lk.API.CommitObject(ctx, f0.p, "main")
	lk.API.CommitObject(ctx, f0.q, "main")
	cs.mu.Lock()
	cs.calls, cs.at, cs.log = 0, k, nil
	cs.mu.Unlock()
	f0.cur, f0.curHook = st, cs.hook
	// The process is fail-stopped at call k; whatever the dying process does afterwards
	// (including a panic on its error path) is irrelevant: only the storage it leaves counts.
	opErr := func() (err error) {
		defer func() {
			if r := recover(); r != nil {
				err = fmt.Errorf("panic in the crashed process: %v", r)
			}
		}()
		return oc.run(ctx, lk, f0)
	}()
	call := cs.atCall.Kind + "@" + pathClass(cs.atCall.Path)
	w := bWitness{Op: oc.name, K: k, Call: call, Backend: st.Kind()}
	c.Eval(fmt.Sprintf("%s|%d|%v", oc.name, k, st.Kind()), true)
	obs, errs := observe(ctx, st)
	got := obsString(obs)
	journal := ""
	if strings.HasSuffix(pathClass(cs.atCall.Path), "/HEAD") {
		journal = strings.TrimSuffix(pathClass(cs.atCall.Path), "/HEAD")
	}
	for _, e := range errs {
		c.Violate(fmt.Sprintf("readable:%s:%s", oc.name, call), fmt.Sprintf("after a crash at storage call %d (%s) of %s: %s", k, call, oc.name, e), w)
	}
	if len(errs) == 0 {
		switch {
		case got == post:
		case got == pre:
			if opErr == nil {
				c.Violate(fmt.Sprintf("durable:%s:%s", oc.name, call), fmt.Sprintf("%s returned success although the process was stopped at storage call %d (%s) and its effect is not visible after reopening", oc.name, k, call), w)
			}
		default:
			c.Violate(fmt.Sprintf("atomic:%s:%s", oc.name, call),
				fmt.Sprintf("after a crash at storage call %d (%s) of %s the lake shows neither the state before nor the state after the operation: %s (before: %s; after: %s)", k, call, oc.name, got, pre, post), w)
		}
	}
	for _, e := range usable(ctx, st, f0, &oc) {
		sig := fmt.Sprintf("usable:%s:%s", oc.name, call)
		if journal != "" {
			// one root cause whatever the operation: the journal entry exists, HEAD was not advanced
			sig = "usable:entry-created-HEAD-not-written:" + journal
		}
		c.Violate(sig, fmt.Sprintf("after a crash at storage call %d (%s) of %s: %s", k, call, oc.name, e), w)
	}
}

// crashAt runs oc on st with a fail-stop at storage call k and returns the call that was cut.
func crashAt(ctx context.Context, st backend, f0 *fixture, oc opCase, k int) (string, error) {
	cs := &crashStore{}
	lk, err := st.Open(ctx, 1, cs.hook)
	if err != nil {
		return "", err
	}
	lk.API.CommitObject(ctx, f0.p, "main")
	lk.API.CommitObject(ctx, f0.q, "main")
	cs.mu.Lock()
	cs.calls, cs.at, cs.log = 0, k, nil
	cs.mu.Unlock()
	f0.cur, f0.curHook = st, cs.hook
	func() {
		defer func() { recover() }()
		oc.run(ctx, lk, f0)
	}()
	if !cs.dead {
		return "none", nil
	}
	return cs.atCall.Kind + "@" + pathClass(cs.atCall.Path), nil
}

type b2Witness struct {
	Op      string `json:"op"`
	K       int    `json:"k"`
	K2      int    `json:"k2"`
	Call    string `json:"call"`
	Backend string `json:"backend"`
}

// runOpDoubleCrash: crash at call k1, restart, crash the same operation again at every call k2,
// restart: the lake must be readable and usable.
func runOpDoubleCrash(c *core.Ctx, ctx context.Context, f0 *fixture, oc opCase, k1, n int) {
	st1, err := f0.store.Clone()
	if err != nil {
		c.Inconclusive("clone: %v", err)
		return
	}
	defer st1.Drop()
	call1, err := crashAt(ctx, st1, f0, oc, k1)
	if err != nil {
		c.Inconclusive("open for %s: %v", oc.name, err)
		return
	}
	for k2 := 1; k2 <= n+2; k2++ {
		st2, err := st1.Clone()
		if err != nil {
			c.Inconclusive("clone: %v", err)
			return
		}
		call2, err := crashAt(ctx, st2, f0, oc, k2)
		if err != nil {
			c.Violate(fmt.Sprintf("usable2:%s:%s", oc.name, call1), fmt.Sprintf("after a crash at storage call %d (%s) of %s the lake cannot be opened: %v", k1, call1, oc.name, err), b2Witness{Op: oc.name, K: k1, K2: k2, Call: call1, Backend: st1.Kind()})
			st2.Drop()
			return
		}
		c.Eval(fmt.Sprintf("%s|%d+%d|%v", oc.name, k1, k2, st2.Kind()), true)
		w := b2Witness{Op: oc.name, K: k1, K2: k2, Call: call1 + "+" + call2, Backend: st2.Kind()}
		_, errs := observe(ctx, st2)
		for _, e := range errs {
			c.Violate(fmt.Sprintf("readable2:%s:%s+%s", oc.name, call1, call2), fmt.Sprintf("after crashes at storage call %d (%s) of %s and, after a restart, at call %d (%s) of the same operation: %s", k1, call1, oc.name, k2, call2, e), w)
		}
		for _, e := range usable(ctx, st2, f0, &oc) {
			c.Violate(fmt.Sprintf("usable2:%s:%s+%s", oc.name, call1, call2), fmt.Sprintf("after crashes at storage call %d (%s) of %s and, after a restart, at call %d (%s) of the same operation: %s", k1, call1, oc.name, k2, call2, e), w)
		}
		st2.Drop()
	}
}

func partB(c *core.Ctx, ctx context.Context, kind string, only string, onlyK int) error {
	f0, err := buildFixture(ctx, kind, c.Scratch)
	if err != nil {
		return err
	}
	defer f0.store.Drop()
	for _, oc := range opCases() {
		if only != "" && !strings.Contains(","+only+",", ","+oc.name+",") {
			continue
		}
		// dry run: count calls and get the post state
		st, err := f0.store.Clone()
		if err != nil {
			return err
		}
		cs := &crashStore{}
		lk, err := st.Open(ctx, 1, cs.hook)
		if err != nil {
			return err
		}
		lk.API.CommitObject(ctx, f0.p, "main")
		lk.API.CommitObject(ctx, f0.q, "main")
		cs.mu.Lock()
		cs.calls, cs.log = 0, nil
		cs.mu.Unlock()
		f0.cur, f0.curHook = st, cs.hook
		if err := oc.run(ctx, lk, f0); err != nil {
			return fmt.Errorf("dry run of %s failed: %w", oc.name, err)
		}
		n := cs.calls
		pc, err := f0.store.Clone()
		if err != nil {
			return err
		}
		preObs, e1 := observe(ctx, pc)
		postObs, e2 := observe(ctx, st)
		pc.Drop()
		st.Drop()
		if len(e1)+len(e2) > 0 {
			return fmt.Errorf("dry run of %s: unreadable: %v %v", oc.name, e1, e2)
		}
		pre, post := obsString(preObs), obsString(postObs)
		c.Logf("%s: %d storage calls; enumerating every crash point (backend %s)", oc.name, n, kind)
		c.Add("crash_points", int64(n))
		for k := 1; k <= n; k++ {
			if onlyK != 0 && k != onlyK {
				continue
			}
			runOpCrash(c, ctx, f0, oc, k, pre, post)
		}
		// Two crashes in a row (quick: load and createpool on the in-memory engine; thorough: every
		// operation): the first after the operation's journal entry exists, the second at every call
		// of the same operation run again by the restarted process.  HEAD may then lag by two entries.
		if kind == "mem" && (oc.name == "load" || oc.name == "createpool" || !c.Quick()) {
			first := 0
			for i, o := range cs.log {
				if o.Kind == "PutIfNotExists" && first == 0 {
					first = i + 1
				}
			}
			for k1 := first + 1; first > 0 && k1 <= n && onlyK == 0; k1++ {
				runOpDoubleCrash(c, ctx, f0, oc, k1, n)
			}
		}
		if oc.name == "load" {
			var calls []string
			for _, o := range cs.log {
				calls = append(calls, o.Kind+"@"+pathClass(o.Path))
			}
			c.Sample(map[string]any{"op": oc.name, "storage_calls": calls, "pre": pre, "post": post})
		}
	}
	return nil
}

// init: crash at every call of lake.Create on an empty store.
func partInit(c *core.Ctx, ctx context.Context) {
	st := lakeh.NewMemStore()
	cs := &crashStore{}
	if _, err := lakeh.Create(ctx, st, 1, cs.hook); err != nil {
		c.Inconclusive("lake create: %v", err)
		return
	}
	n := cs.calls
	for k := 1; k <= n; k++ {
		st := lakeh.NewMemStore()
		cs := &crashStore{at: k}
		lakeh.Create(ctx, st, 1, cs.hook)
		call := cs.atCall.Kind + "@" + pathClass(cs.atCall.Path)
		c.Eval(fmt.Sprintf("init|%d", k), true)
		// reopen: either a usable lake, or no lake at all and then init must work
		lk, err := lakeh.Open(ctx, st, 2, nil)
		if err != nil {
			if _, err2 := lakeh.Create(ctx, st, 2, nil); err2 != nil {
				c.Violate("usable:init:"+call, fmt.Sprintf("after a crash at storage call %d (%s) of lake init the lake can neither be opened (%v) nor initialized again (%v)", k, call, err, err2), bWitness{Op: "init", K: k, Call: call})
			}
			continue
		}
		if _, err := lk.CreatePool(ctx, "p", "k", "asc", 0, 0); err != nil {
			c.Violate("usable:init:"+call, fmt.Sprintf("after a crash at storage call %d (%s) of lake init the lake opens but a pool cannot be created: %v", k, call, err), bWitness{Op: "init", K: k, Call: call})
		}
	}
	c.Add("crash_points", int64(n))
}

func run(c *core.Ctx) error {
	ctx := context.Background()
	c.Rule("cases = (operation, crash point) pairs: every storage call k of every mutating lake operation on a fixed two-pool/two-branch fixture (part B), and every complete behaviour with one crash exported by TLC from Journal.tla replayed through the storage gate (part A); all are non-trivial (a crash inside an operation)")
	c.Trust("TLC 1.8.0; the harness' in-memory storage engine (atomic Put at Close, atomic put-if-absent); fail-stop = the k-th and all later storage calls of the process return an error without effect")
	c.Assume("atomic object puts (an object store, or a file system with atomic replace); torn files of the plain file engine (truncate-then-write) are explored in the thorough tier only")
	if c.Replay != "" {
		var w struct {
			bWitness
			K2       int              `json:"k2"`
			Scenario *lakeh.JScenario `json:"scenario"`
			Sched    []lakeh.GateStep `json:"sched"`
		}
		if _, err := c.ReplayWitness(&w); err != nil {
			return err
		}
		if w.Scenario != nil {
			return replayA(c, ctx, w.Scenario, w.Sched)
		}
		if w.Op == "init" {
			partInit(c, ctx)
			return nil
		}
		if w.K2 > 0 {
			f0, err := buildFixture(ctx, w.Backend, c.Scratch)
			if err != nil {
				return err
			}
			defer f0.store.Drop()
			for _, oc := range opCases() {
				if oc.name == w.Op {
					runOpDoubleCrash(c, ctx, f0, oc, w.K, 40)
				}
			}
			return nil
		}
		return partB(c, ctx, w.Backend, w.Op, w.K)
	}
	// ---- part A
	r := &jrun.Runner{C: c, Ctx: ctx}
	for _, sc := range scenarios(c) {
		if err := r.Calibrate(sc); err != nil {
			return err
		}
		bhs, res := sc.Run(c, true, false, 8)
		if res == nil {
			return nil
		}
		var withCrash []lakeh.JBehaviour
		for _, b := range bhs {
			for _, s := range b.Sched {
				if s.Lbl == "crash" {
					withCrash = append(withCrash, b)
					break
				}
			}
		}
		limit := 60
		if !c.Quick() {
			limit = 3000
		}
		if len(withCrash) > limit {
			step := len(withCrash) / limit
			var sub []lakeh.JBehaviour
			for i := int(c.Seed) % step; i < len(withCrash) && len(sub) < limit; i += step {
				sub = append(sub, withCrash[i])
			}
			withCrash = sub
		}
		c.Logf("%s: TLC %d distinct states (safety invariants hold under crash); replaying %d crash behaviours", sc.Name, res.Distinct, len(withCrash))
		drifts := 0
		for i := range withCrash {
			bh := &withCrash[i]
			results, fails, drift, err := r.Execute(sc, bh.Sched, bh)
			if err != nil {
				return fmt.Errorf("%s schedule %s: %w", sc.Name, lakeh.SchedKey(bh.Sched), err)
			}
			c.Eval(sc.Name+"|"+lakeh.SchedKey(bh.Sched), true)
			if drift != "" {
				drifts++
				c.Drift("%s schedule %s: %s", sc.Name, lakeh.SchedKey(bh.Sched), drift)
			} else {
				c.Add("traces_validated_against_impl", 1)
			}
			crashLbl := ""
			for j, s := range bh.Sched {
				if s.Lbl == "crash" {
					// the step the crashed client would have taken next
					crashLbl = pendingLabel(bh.Sched, j)
				}
			}
			for _, f := range fails {
				kind, _, _ := strings.Cut(f, ":")
				sig := kind + ":" + sc.Name + ":crash-before-" + crashLbl
				if kind == "usable" && crashLbl == "wh" {
					sig = "usable:entry-created-HEAD-not-written:" + map[string]string{"branches": "ID/branches", "pools": "pools"}[sc.Journal]
				}
				c.Violate(sig, fmt.Sprintf("%s [scenario %s, schedule %s]", f, sc.Name, lakeh.SchedKey(bh.Sched)),
					map[string]any{"scenario": sc, "sched": bh.Sched, "results": results, "detail": f})
			}
			if i == len(withCrash)/2 {
				c.Sample(map[string]any{"scenario": sc.Name, "schedule": lakeh.SchedKey(bh.Sched), "steps": bh.Sched})
			}
		}
		c.Logf("%s: %d replayed, %d drifted", sc.Name, len(withCrash), drifts)
	}
	// design-level confirmation: with a crash the model is not NotStuck (HEAD can lag forever)
	ds := scenarios(c)[0]
	ds.Name, ds.Invariants, ds.PreemptBound = "crash_notstuck", []string{"NotStuck"}, 0
	mod := "MCJ_" + ds.Name
	if res, err := c.RunTLC(core.TLCRun{Module: mod, Cfg: ds.Cfg(false, true), Files: map[string][]byte{mod + ".tla": []byte(ds.MCModule(mod))}, Workers: 4}); err == nil {
		c.Set("design_level_NotStuck_under_crash", res.Status+" "+res.Violated)
	}
	// ---- part B
	partInit(c, ctx)
	if err := partB(c, ctx, "mem", "", 0); err != nil {
		return err
	}
	// the repository's own file engine, every individual write call a crash point
	fsOnly := "load,revert,query"
	if !c.Quick() {
		fsOnly = ""
	}
	if err := partB(c, ctx, "fs", fsOnly, 0); err != nil {
		return err
	}
	c.Set("exhaustive", true)
	return nil
}

// pendingLabel: the label of the crashed client's next step had it not crashed
// is not in the schedule; derive it from its previous step.
func pendingLabel(s []lakeh.GateStep, crashIdx int) string {
	c := s[crashIdx].C
	prev := ""
	for i := 0; i < crashIdx; i++ {
		if s[i].C == c {
			prev = s[i].Lbl
			if s[i].Lbl == "cas" && s[i].R == "exists" {
				prev = "cas-exists"
			}
		}
	}
	switch prev {
	case "cas":
		return "wh"
	case "putc":
		return "rh1"
	case "rh":
		return "after-rh"
	default:
		return "after-" + prev
	}
}

func replayA(c *core.Ctx, ctx context.Context, sc *lakeh.JScenario, sched []lakeh.GateStep) error {
	r := &jrun.Runner{C: c, Ctx: ctx}
	_, fails, drift, err := r.Execute(sc, sched, nil)
	if err != nil {
		return err
	}
	fmt.Printf("replay: drift=%q fails=%v\n", drift, fails)
	for _, f := range fails {
		kind, _, _ := strings.Cut(f, ":")
		c.Violate(kind+":"+sc.Name, f, map[string]any{"scenario": sc, "sched": sched})
	}
	return nil
}

var _ = errors.New

func main() { core.Main("C17", "fault_enumeration", run) }
