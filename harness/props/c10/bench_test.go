package main

import (
	"testing"
	"time"

	zed "github.com/brimdata/super"
	"github.com/brimdata/super/compiler"
)

func TestBenchParse(t *testing.T) {
	prog := "summarize " + aggList + " by k with -limit 1"
	t0 := time.Now()
	for i := 0; i < 50; i++ {
		if _, _, err := compiler.Parse(prog); err != nil {
			t.Fatal(err)
		}
	}
	t.Logf("parse: %v each", time.Since(t0)/50)
	zctx := zed.NewContext()
	src, _ := sourceOf(zctx, [][]string{{"{k:1,u:1,s:0,v:-2,b:false,w:false,f:1}", "{k:1(uint64),u:2,s:1,v:0,b:true,w:true,f:\"x\"}"}})
	_ = src
	t0 = time.Now()
	for i := 0; i < 50; i++ {
		zctx := zed.NewContext()
		src, _ := sourceOf(zctx, [][]string{{"{k:1,u:1,s:0,v:-2,b:false,w:false,f:1}", "{k:1(uint64),u:2,s:1,v:0,b:true,w:true,f:\"x\"}"}})
		runProgram(zctx, prog, runOpts{}, src)
	}
	t.Logf("run: %v each", time.Since(t0)/50)
}
