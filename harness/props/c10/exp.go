package main

import (
	"encoding/json"
	"fmt"
	"os"
	"strings"

	zed "github.com/brimdata/super"
	"github.com/brimdata/super/zson"
)

// exp: c10 exp '<prog>' '<sortkey or ->' '<batches as JSON [[row,...],...]>'
func expMain() {
	prog := os.Args[2]
	var sk = (*struct{})(nil)
	_ = sk
	zctx := zed.NewContext()
	var bs [][]string
	if err := json.Unmarshal([]byte(os.Args[4]), &bs); err != nil {
		panic(err)
	}
	src := &batchSource{}
	for _, b := range bs {
		vals, err := parseRows(zctx, b)
		if err != nil {
			panic(err)
		}
		src.batches = append(src.batches, vals)
	}
	o := runOpts{}
	if a := os.Args[3]; a != "-" {
		p := strings.Split(a, ":")
		o.SortKey = sortKey(p[0], len(p) > 1 && p[1] == "desc")
	}
	res := runProgram(zctx, prog, o, src)
	fmt.Println("DAG:", res.DAG)
	fmt.Println("ERR:", res.Err, "SPILLS:", res.Spills)
	for _, b := range res.Batches {
		var s []string
		for _, v := range b {
			s = append(s, zson.FormatValue(v))
		}
		fmt.Println(" batch:", strings.Join(s, " "))
	}
}

func init() {
	if len(os.Args) > 1 && os.Args[1] == "dag" {
		dagMain()
		os.Exit(0)
	}
}
