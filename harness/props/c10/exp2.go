package main

import (
	"context"
	"encoding/json"
	"fmt"
	"os"

	zed "github.com/brimdata/super"
	"github.com/brimdata/super/compiler"
	"github.com/brimdata/super/compiler/data"
	"github.com/brimdata/super/pkg/storage"
	"github.com/brimdata/super/runtime"
)

func dagMain() {
	seq, _, err := compiler.Parse(os.Args[2])
	if err != nil {
		panic(err)
	}
	rctx := runtime.NewContext(context.Background(), zed.NewContext())
	job, err := compiler.NewJob(rctx, seq, data.NewSource(storage.NewLocalEngine(), nil), nil)
	if err != nil {
		panic(err)
	}
	if err := job.Optimize(); err != nil {
		panic(err)
	}
	b, _ := json.MarshalIndent(job.Entry(), "", " ")
	fmt.Println(string(b))
}
