package main

// --replay: re-run one witness on the real code and re-evaluate the oracle.

import (
	"encoding/json"
	"fmt"

	"verif/core"
)

func replay(c *core.Ctx) error {
	var w struct {
		Kind string          `json:"kind"`
		Job  json.RawMessage `json:"job"`
	}
	sig, err := c.ReplayWitness(&w)
	if err != nil {
		return err
	}
	// a failure that depends on Go's map iteration order may need several tries
	for try := 0; try < 25; try++ {
		switch w.Kind {
		case "gb":
			var j gbJob
			if err := json.Unmarshal(w.Job, &j); err != nil {
				return err
			}
			j.Task.ID = 0
			res, err := runTasks(c.Scratch, []task{j.Task}, 1)
			if err != nil {
				return err
			}
			r := res[0]
			if r.Crash != "" {
				fmt.Printf("try %d: crash: %s\n", try, firstLine(r.Crash))
				c.Violate(sig, "replayed: "+firstLine(r.Crash), w)
				return nil
			}
			last := r.Stages[len(r.Stages)-1]
			if last.Err != "" {
				fmt.Printf("try %d: error: %s\n", try, last.Err)
				c.Violate(sig, "replayed: "+last.Err, w)
				return nil
			}
			aggs := aggNames
			if j.Agg != "" {
				aggs = []string{"ids", j.Agg}
			}
			_, flat, err := projectBatches(last.Batches, j.WithSec)
			if err != nil {
				c.Violate(sig, "replayed: "+err.Error(), w)
				return nil
			}
			v := oracle(j.Rows, flat, aggs)
			fmt.Printf("try %d: prog=%q output=%v oracle ok=%v %s\n", try, j.Task.Prog, last.Batches, v.oracleOK, v.detail)
			if !v.oracleOK {
				c.Violate(sig, "replayed: "+v.detail, w)
				return nil
			}
		case "join":
			var j mjJob
			if err := json.Unmarshal(w.Job, &j); err != nil {
				return err
			}
			j.Task.ID = 0
			res, err := runTasks(c.Scratch, []task{j.Task}, 1)
			if err != nil {
				return err
			}
			r := res[0]
			if r.Crash != "" || r.Stages[0].Err != "" {
				c.Violate(sig, "replayed: "+firstLine(r.Crash+r.Stages[0].Err), w)
				return nil
			}
			var rows []string
			for _, b := range r.Stages[0].Batches {
				rows = append(rows, b...)
			}
			got, err := realPairs(j.Sum.Kind, rows)
			want := nestedLoop(&j.Sum)
			fmt.Printf("try %d: prog=%q real pairs=%v nested-loop=%v err=%v\n", try, j.Task.Prog, got, want, err)
			if err != nil || fmt.Sprint(got) != fmt.Sprint(want) {
				c.Violate(sig, fmt.Sprintf("replayed: real pairs %v, nested-loop %v", got, want), w)
				return nil
			}
			return nil // deterministic
		default:
			return fmt.Errorf("unknown witness kind %q", w.Kind)
		}
	}
	fmt.Println("the witness no longer violates the property")
	return nil
}
