package main

// The join half: MergeJoin.tla behaviours replayed on the real join operator
// through `from (pool L [=> sort [-r] k] pool R ...) | <kind> join on k=k ru:=u`
// on a private in-memory lake (a declared direction only reaches join.New from
// a pool's sort key or a sort in the leg; `file ... order k` is not propagated).

import (
	"fmt"
	"math/rand"
	"os"
	"sort"
	"strings"
	"time"

	zed "github.com/brimdata/super"
	"github.com/brimdata/super/order"
	"github.com/brimdata/super/runtime/sam/expr"
	"github.com/brimdata/super/zson"

	"verif/core"
)

func newZctx() *zed.Context { return zed.NewContext() }

type mjSummary struct {
	Kind  string   `json:"kind"`
	LD    string   `json:"ld"`
	RD    string   `json:"rd"`
	L     []string `json:"L"`
	R     []string `json:"R"`
	Out   [][2]int `json:"out"`
	Desc  bool     `json:"desc"`
	Taint []string `json:"taint"`
}

func (s *mjSummary) caseKey() string {
	return fmt.Sprintf("%s|%s|%s|%s|%s", s.Kind, s.LD, s.RD, strings.Join(s.L, ","), strings.Join(s.R, ","))
}

type mjJob struct {
	Sum  mjSummary `json:"case"`
	Task task      `json:"task"`
}

// joinLeg renders one side: a pool, optionally followed by a sort in the leg.
func joinLeg(ph, decl string) string {
	switch decl {
	case "sortasc":
		return "pool " + ph + " => sort k"
	case "sortdesc":
		return "pool " + ph + " => sort -r k"
	}
	return "pool " + ph
}

func joinSideOf(keys []string, base int, decl string) joinSide {
	var b strings.Builder
	for i, k := range keys {
		fmt.Fprintf(&b, "{k:%s,u:%d}\n", tokLit[k], base+i+1)
	}
	switch decl {
	case "asc", "desc":
		return joinSide{Rows: b.String(), Key: "k", Dir: decl} // pool order on the join key
	}
	return joinSide{Rows: b.String(), Key: "u", Dir: "asc"} // rows as written, nothing declared about k
}

func makeJoinJob(s mjSummary) mjJob {
	prog := fmt.Sprintf("from ( %s %s ) | %s join on k=k ru:=u", joinLeg("$L", s.LD), joinLeg("$R", s.RD), s.Kind)
	return mjJob{Sum: s, Task: task{Kind: "join", Prog: prog,
		Sides: []joinSide{joinSideOf(s.L, 0, s.LD), joinSideOf(s.R, 100, s.RD)}}}
}

// nestedLoop is the property's oracle: the pairs <<left id or 0, right id or 0>>.
func nestedLoop(s *mjSummary) []string {
	var out []string
	matchedR := make([]bool, len(s.R))
	for i, lk := range s.L {
		hit := false
		for j, rk := range s.R {
			if sRank(lk) == sRank(rk) {
				hit = true
				matchedR[j] = true
				if s.Kind != "anti" {
					out = append(out, fmt.Sprintf("%d-%d", i+1, j+1))
				}
			}
		}
		if !hit && (s.Kind == "left" || s.Kind == "anti") {
			out = append(out, fmt.Sprintf("%d-0", i+1))
		}
	}
	if s.Kind == "right" {
		for j := range s.R {
			if !matchedR[j] {
				out = append(out, fmt.Sprintf("0-%d", j+1))
			}
		}
	}
	sort.Strings(out)
	return out
}

// realPairs projects the rows of a real join output onto id pairs.
func realPairs(kind string, rows []string) ([]string, error) {
	zctx := newZctx()
	var out []string
	for _, r := range rows {
		v, err := zson.ParseValue(zctx, r)
		if err != nil {
			return nil, err
		}
		u, ok := fieldOf(v, "u")
		if !ok || u.IsNull() {
			return nil, fmt.Errorf("join output row without u: %s", r)
		}
		a, b := int(u.Int()), 0
		if ru, ok := fieldOf(v, "ru"); ok && !ru.IsNull() {
			b = int(ru.Int())
		}
		// ids above 100 belong to the right file
		l, rr := 0, 0
		for _, x := range []int{a, b} {
			if x > 100 {
				rr = x - 100
			} else if x > 0 {
				l = x
			}
		}
		if (a > 100) == (b > 100) && b != 0 {
			return nil, fmt.Errorf("join output row pairs two rows of the same side: %s", r)
		}
		out = append(out, fmt.Sprintf("%d-%d", l, rr))
	}
	sort.Strings(out)
	return out, nil
}

func specPairs(s *mjSummary) []string {
	var out []string
	for _, p := range s.Out {
		out = append(out, fmt.Sprintf("%d-%d", p[0], p[1]))
	}
	sort.Strings(out)
	return out
}

func join(c *core.Ctx) error {
	cfg := "MergeJoin.quick.cfg"
	if !c.Quick() {
		cfg = "MergeJoin.thorough.cfg"
	}
	res := c.MustHold(core.TLCRun{Module: "MergeJoin", Cfg: cfg, Workers: 8, Timeout: 25 * time.Minute})
	if res == nil {
		return nil
	}
	sums, err := parsePrints[mjSummary](res.Prints)
	if err != nil {
		return err
	}
	nv := map[string]int{}
	for i := range sums {
		p := &sums[i]
		nv["finished"]++
		if len(p.Out) > 0 {
			nv["nonempty_result"]++
		}
		if p.Desc {
			nv["merge_direction_desc"]++
		}
		if len(p.Taint) > 0 {
			nv["known_defect_path"]++
		}
		for _, o := range p.Out {
			if o[0] == 0 || o[1] == 0 {
				nv["outer_rows"]++
				break
			}
		}
	}
	c.Set("join_model_nonvacuity", nv)
	for _, k := range []string{"nonempty_result", "merge_direction_desc", "known_defect_path", "outer_rows"} {
		if nv[k] == 0 {
			c.Inconclusive("MergeJoin.tla %s: no finished behaviour with %s (vacuous model run)", cfg, k)
		}
	}
	seen := map[string]bool{}
	var cases []mjSummary
	for _, s := range sums {
		if k := s.caseKey(); !seen[k] {
			seen[k] = true
			cases = append(cases, s)
		}
	}
	sort.Slice(cases, func(i, j int) bool { return cases[i].caseKey() < cases[j].caseKey() })
	c.Logf("MergeJoin %s: %d distinct states, %d cases, invariants hold", cfg, res.Distinct, len(cases))
	c.Set("join_cases", len(cases))
	// when there are more cases than the tier's budget: a seeded sample, a
	// quarter of it from the cases on the known-defect path
	limit := 1800
	if !c.Quick() {
		limit = 12000
	}
	var picked []mjSummary
	if len(cases) <= limit {
		picked = cases
		c.Set("join_exhaustive_replay", true)
	} else {
		rng := rand.New(rand.NewSource(c.Seed + 77))
		nTaint := 0
		for _, s := range cases {
			if len(s.Taint) > 0 && nTaint < limit/4 && rng.Intn(4) == 0 {
				picked = append(picked, s)
				nTaint++
			}
		}
		for len(picked) < limit {
			picked = append(picked, cases[rng.Intn(len(cases))])
		}
		c.Set("join_exhaustive_replay", false)
	}
	jobs := make([]mjJob, len(picked))
	tasks := make([]task, len(picked))
	for i, s := range picked {
		jobs[i] = makeJoinJob(s)
		jobs[i].Task.ID = i
		tasks[i] = jobs[i].Task
	}
	c.Logf("replaying %d join cases on the real operator", len(jobs))
	results, err := runTasks(c.Scratch, tasks, nWorkers)
	if err != nil {
		return err
	}
	for i := range jobs {
		r, ok := results[i]
		if !ok {
			return fmt.Errorf("no result for join task %d", i)
		}
		if err := judgeJoin(c, &jobs[i], r); err != nil {
			return err
		}
	}
	c.Add("traces_validated_against_impl", int64(len(jobs)))
	c.Logf("join replay done: %d evaluations in total, %d violations", c.Count("evaluations"), c.Violations())
	return nil
}

func judgeJoin(c *core.Ctx, j *mjJob, r result) error {
	s := &j.Sum
	witness := map[string]any{"kind": "join", "job": j}
	label := fmt.Sprintf("%s join, left %v declared %s, right %v declared %s", s.Kind, s.L, s.LD, s.R, s.RD)
	crash := r.Crash
	if crash == "" && len(r.Stages) == 1 && r.Stages[0].Err != "" {
		if strings.HasPrefix(r.Stages[0].Err, "harness:") {
			return fmt.Errorf("join task: %s", r.Stages[0].Err)
		}
		crash = "error: " + r.Stages[0].Err
	}
	if crash != "" {
		c.Eval(s.caseKey(), true)
		c.Violate("join:crash:"+crashSig(crash), fmt.Sprintf("%s does not produce a result: %s", label, firstLine(crash)), witness)
		return nil
	}
	var rows []string
	for _, b := range r.Stages[0].Batches {
		rows = append(rows, b...)
	}
	got, err := realPairs(s.Kind, rows)
	if err != nil {
		c.Eval(s.caseKey(), true)
		c.Violate("join:bad-row:"+s.Kind, fmt.Sprintf("%s: %v", label, err), witness)
		return nil
	}
	want := nestedLoop(s)
	spec := specPairs(s)
	switch os.Getenv("C10_CORRUPT") { // self-test of the binding, see README of this check in main.go
	case "spec":
		if j.Task.ID == 7 && len(spec) > 0 {
			spec = spec[1:]
		}
	case "real":
		if j.Task.ID == 7 && len(got) > 0 {
			got = got[1:]
		}
	}
	c.Eval(s.caseKey(), len(got) > 0)
	if len(s.Taint) > 0 {
		c.Add("join_cases_on_known_defect_path", 1)
	}
	if fmt.Sprint(got) == fmt.Sprint(want) {
		if fmt.Sprint(got) != fmt.Sprint(spec) {
			c.Drift("join %s: real output %v is the nested-loop result but MergeJoin.tla predicts %v", label, got, spec)
		} else {
			c.Add("runs_matching_spec_exactly", 1)
		}
		if sampleKinds["join:"+s.Kind] < 1 && len(got) > 1 && s.Desc {
			sampleKinds["join:"+s.Kind]++
			c.Sample(map[string]any{"prog": j.Task.Prog, "sides": j.Task.Sides, "real": rows})
		}
		return nil
	}
	diff := "wrong-pairs"
	switch {
	case subset(got, want):
		diff = "missing-pairs"
	case subset(want, got):
		diff = "extra-pairs"
	}
	sig := fmt.Sprintf("join:unpredicted:%s:%s", s.Kind, diff)
	if len(s.Taint) > 0 && fmt.Sprint(got) == fmt.Sprint(spec) {
		sig = "join:desc-merge-with-nulls-sorted-last"
	}
	c.Violate(sig, fmt.Sprintf("%s emits pairs %v (left-right row numbers, 0 = none) but a nested-loop join emits %v", label, got, want), witness)
	return nil
}

func subset(a, b []string) bool {
	m := map[string]int{}
	for _, x := range b {
		m[x]++
	}
	for _, x := range a {
		if m[x] == 0 {
			return false
		}
		m[x]--
	}
	return true
}

// ---------------------------------------------------------------- precheck

// precheck binds the token ranks of the specs to the real comparators: the
// run comparator of the spill merge (= pool order), groupby's valueCompare,
// the join's compare and the sort operator's output order.
func precheck(c *core.Ctx) error {
	zctx := newZctx()
	val := func(t string) zed.Value {
		v, err := zson.ParseValue(zctx, tokLit[t])
		if err != nil {
			panic(err)
		}
		return v
	}
	rec := func(t string) zed.Value {
		text := "{k:" + tokLit[t] + "}"
		if t == "MISS" {
			text = "{x:0}" // a really absent field must order the same way
		}
		v, err := zson.ParseValue(zctx, text)
		if err != nil {
			panic(err)
		}
		return v
	}
	sgn := func(x int) int {
		switch {
		case x < 0:
			return -1
		case x > 0:
			return 1
		}
		return 0
	}
	for _, desc := range []bool{false, true} {
		o := order.Which(desc)
		kc := expr.NewComparator(true, expr.NewSortEvaluator(expr.NewDottedExpr(zctx, []string{"k"}), o)).WithMissingAsNull()
		vc := expr.NewValueCompareFn(o, true)
		for _, a := range tokOrder {
			for _, b := range tokOrder {
				ws, wv := sgn(sRank(a)-sRank(b)), sgn(vRank(a)-vRank(b))
				if desc {
					ws, wv = -ws, -wv
				}
				if got := sgn(kc.Compare(rec(a), rec(b))); got != ws {
					return fmt.Errorf("keysComparator(desc=%v)(%s,%s) = %d, spec SCmp = %d", desc, a, b, got, ws)
				}
				if got := sgn(vc(val(a), val(b))); got != wv {
					return fmt.Errorf("valueCompare(desc=%v)(%s,%s) = %d, spec VCmp = %d", desc, a, b, got, wv)
				}
			}
		}
	}
	// sort operator order
	for _, desc := range []bool{false, true} {
		prog := "sort k"
		if desc {
			prog = "sort -r k"
		}
		var rows []string
		for i := len(tokOrder) - 1; i >= 0; i-- {
			r := inRow{ID: i + 1, Key: key{P: tokOrder[i]}, F: "{a:0}"}
			rows = append(rows, r.zson(false))
		}
		src, err := sourceOf(zctx, [][]string{rows})
		if err != nil {
			return err
		}
		res := runProgram(zctx, prog, runOpts{}, src)
		if res.Err != nil {
			return res.Err
		}
		prev := -1 << 30
		for _, v := range res.rows() {
			u := v.Deref("u")
			t := tokOrder[int(u.Int())-1]
			if r := sortOpRank(t, desc); r < prev {
				return fmt.Errorf("`%s` output is not in the order SortOpRank assumes (at %s)", prog, t)
			} else {
				prev = r
			}
		}
	}
	c.Set("comparator_pairs_checked", 2*2*len(tokOrder)*len(tokOrder))
	return nil
}
