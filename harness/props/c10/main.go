// C10 -- aggregation and join agree with naive evaluation at any memory limit.
//
// TLC checks specs/GroupBy.tla (transcription of groupby.Aggregator + the
// spill merge) and specs/MergeJoin.tla (transcription of join.Op) for all small
// inputs x batchings x limits x declared orders x direct/partials, and prints
// one line per finished behaviour: the case and what the transcription
// predicts the operator emits (batch by batch, spill by spill).  This harness
// replays every case on the real operators in worker processes, evaluates
// the property's own oracle (naive group-by / nested-loop join computed in
// Go) on the real output, and compares the real output with the prediction.
//
// Files: main.go (orchestration, group-by verdicts, probes), join.go (join
// verdicts, comparator precheck), model.go (key tokens, rows, reference
// aggregates, projection of real rows), runner.go (running a program on the
// real runtime with controlled batches / declared order / spill hook),
// worker.go (worker processes, crash attribution), replay.go (--replay).
//
// Verdicts: the oracle fails on a real run -> Violate; the signature is a
// known finding only if the real output is exactly what the transcription
// predicts through a named defect path (taint), otherwise it is
// "unpredicted".  Oracle holds but no behaviour of the spec explains the run
// (or the spill runs differ) -> Drift.
//
// Development aids: C10_ONLY=gb|join runs one half (and exits 2);
// C10_CORRUPT=spec|real corrupts one predicted / one observed value of one
// fixed run (must give DRIFT / VIOLATION: the binding self-test);
// C10_KEEP=1 keeps the workers' task and result files in the scratch dir.
package main

import (
	"encoding/json"
	"fmt"
	"math/rand"
	"os"
	"sort"
	"strconv"
	"strings"
	"time"

	"verif/core"
)

func main() {
	if len(os.Args) > 1 && os.Args[1] == "--worker" {
		workerMain(os.Args[2:])
		return
	}
	core.Main("C10", "model_checking", run)
}

var nWorkers = 8

func run(c *core.Ctx) error {
	c.Trust("TLC 1.8; the projection of real output rows onto key tokens / row-id sets (harness); the reference aggregate functions and nested-loop join of the harness; zson parser/formatter for literals")
	c.Assume("key universe {1, 1(uint64), 1., 2, 3, \"a\", missing, null(int64), null(string)} x secondary {0,1}; aggregate arguments are small non-zero int64 values, bools, records {a:int64|string} and a mixed-type argument m (int64/float64/string within one group, for collect/union) with nulls and absent fields; every aggregate result is compared as exact ZSON including its type (a sparse pass makes every argument of a key absent or null); inputs of at most MaxRows rows (see cfg); an input declared sorted is in pool order (nulls max, missing as null) or is the output of a real `sort`")
	c.Rule("cases = finished behaviours of GroupBy.tla / MergeJoin.tla (input x batching x table limit x declared order x direct|partials; join kind x declared directions x key multiplicities), each replayed on the real operators; distinct by (case, replay mode); non-trivial = the real run spilled at least once, released rows before end of input, composed partials, or (join) produced at least one pair/outer row")
	if c.Replay != "" {
		return replay(c)
	}
	if err := precheck(c); err != nil {
		c.Inconclusive("token model does not match the real comparators: %v", err)
		return nil
	}
	only := os.Getenv("C10_ONLY") // development aid: "gb" | "join"
	if only == "" || only == "gb" {
		if err := groupBy(c); err != nil {
			return err
		}
	}
	if only == "" || only == "join" {
		if err := join(c); err != nil {
			return err
		}
	}
	if only != "" {
		c.Inconclusive("partial run (C10_ONLY=%s)", only)
	}
	return nil
}

// ---------------------------------------------------------------- TLC output

type jkey [2]any

func (k jkey) key() key {
	s, _ := k[0].(string)
	n, _ := k[1].(float64)
	return key{P: s, S: int(n)}
}

type specRow struct {
	Rep  jkey   `json:"rep"`
	IDs  []jkey `json:"ids"`
	Vals []int  `json:"vals"`
}

type gbSummary struct {
	Src    string        `json:"src"`
	Mode   string        `json:"mode"`
	Limit  int           `json:"limit"`
	Keys   []jkey        `json:"keys"`
	Bat    []int         `json:"bat"`
	B2     int           `json:"b2"`
	Out    [][]specRow   `json:"out"`
	Legs   [][][]specRow `json:"legs"`
	Spills [][2]any      `json:"spills"`
	Taint  []string      `json:"taint"`
}

func (s *gbSummary) caseKey() string {
	b, _ := json.Marshal([]any{s.Src, s.Mode, s.Limit, s.Keys, s.Bat, s.B2})
	return string(b)
}

func (s *gbSummary) hasTaint(t string) bool {
	for _, x := range s.Taint {
		if x == t {
			return true
		}
	}
	return false
}

func parsePrints[T any](prints []string) ([]T, error) {
	var out []T
	for _, line := range prints {
		if !strings.HasPrefix(line, "\"{") {
			continue
		}
		text, err := strconv.Unquote(line)
		if err != nil {
			return nil, fmt.Errorf("cannot unquote TLC output line: %v: %.200s", err, line)
		}
		var v T
		if err := json.Unmarshal([]byte(text), &v); err != nil {
			return nil, fmt.Errorf("cannot parse TLC output line: %v: %.300s", err, text)
		}
		out = append(out, v)
	}
	return out, nil
}

// gbCase is one case with every behaviour the spec allows for it.
type gbCase struct {
	key   string
	preds []*gbSummary
}

func groupCases(sums []gbSummary) []*gbCase {
	m := map[string]*gbCase{}
	var order []string
	seen := map[string]bool{}
	for i := range sums {
		s := &sums[i]
		k := s.caseKey()
		full, _ := json.Marshal(s)
		if seen[string(full)] {
			continue
		}
		seen[string(full)] = true
		if m[k] == nil {
			m[k] = &gbCase{key: k}
			order = append(order, k)
		}
		m[k].preds = append(m[k].preds, s)
	}
	sort.Strings(order)
	out := make([]*gbCase, 0, len(order))
	for _, k := range order {
		out = append(out, m[k])
	}
	return out
}

// ------------------------------------------------------------- group-by

// gbJob is one replay of a case on the real code.
type gbJob struct {
	Case    *gbCase `json:"-"`
	CaseKey string  `json:"case"`
	How     string  `json:"how"` // "direct" | "kernel" | "fork" | "sparse:<agg>"
	Rows    []inRow `json:"rows"`
	WithSec bool    `json:"withsec"`
	Task    task    `json:"task"`
	Agg     string  `json:"agg,omitempty"` // sparse pass: the one aggregate under test
}

// byClause renders the keys: k, optionally the second column j, optionally a
// third, computed key z (always 0).  rename = the partials-in form, which
// refers to the keys by name.
func byClause(withSec, third, rename bool) string {
	keys := []string{"k"}
	if withSec {
		keys = append(keys, "j")
	}
	if rename {
		for i, k := range keys {
			keys[i] = k + ":=" + k
		}
	}
	if third {
		if rename {
			keys = append(keys, "z:=z")
		} else {
			keys = append(keys, "z:=u-u")
		}
	}
	return strings.Join(keys, ",")
}

func limitClause(limit int) string {
	if limit >= 99 {
		return ""
	}
	return fmt.Sprintf(" with -limit %d", limit)
}

func zsonBatches(rows []inRow, sizes []int, withSec bool, keep func(inRow) bool) [][]string {
	var out [][]string
	i := 0
	for _, n := range sizes {
		var b []string
		for ; n > 0; n-- {
			if keep == nil || keep(rows[i]) {
				b = append(b, rows[i].zson(withSec))
			}
			i++
		}
		if len(b) > 0 {
			out = append(out, b)
		}
	}
	return out
}

func makeJobs(cs *gbCase, seed int64, aggs string, sparse bool) []gbJob {
	p := cs.preds[0]
	keys := make([]key, len(p.Keys))
	withSec := false
	for i, k := range p.Keys {
		keys[i] = k.key()
	}
	for _, k := range keys {
		if k.S != 0 {
			withSec = true
		}
	}
	h := int64(0)
	for _, ch := range cs.key {
		h = h*131 + int64(ch)
	}
	rows := genRows(keys, seed*7919+h)
	if sparse {
		sparsify(rows, seed*7919+h)
	}
	third := (seed+h)%3 == 0 // a third of the cases get a third, computed key
	summ := "summarize " + aggs + " by " + byClause(withSec, third, false) + limitClause(p.Limit)
	job := gbJob{Case: cs, CaseKey: cs.key, Rows: rows, WithSec: withSec}
	var jobs []gbJob
	switch {
	case p.Mode == "direct":
		j := job
		j.How = "direct"
		j.Task = task{Kind: "gb", WithSec: withSec}
		switch p.Src {
		case "unsorted":
			j.Task.Prog = summ
			j.Task.Batches = zsonBatches(rows, []int{len(rows)}, withSec, nil)
		case "asc", "desc":
			j.Task.Prog = summ
			j.Task.SortKey = p.Src
			j.Task.Batches = zsonBatches(rows, p.Bat, withSec, nil)
		case "sortasc":
			j.Task.Prog = "sort k | " + summ
			j.Task.Batches = zsonBatches(rows, []int{len(rows)}, withSec, nil)
		case "sortdesc":
			j.Task.Prog = "sort -r k | " + summ
			j.Task.Batches = zsonBatches(rows, []int{len(rows)}, withSec, nil)
		}
		jobs = append(jobs, j)
	case p.Mode == "partials":
		j := job
		j.How = "kernel"
		j.Task = task{Kind: "gb2", WithSec: withSec, Prog: summ, B2: p.B2,
			Prog2: "summarize " + aggs + " by " + byClause(withSec, third, true) + limitClause(p.Limit)}
		if p.Src != "unsorted" {
			j.Task.SortKey = p.Src
		}
		for leg := 0; leg < 2; leg++ {
			l := leg
			bs := zsonBatches(rows, p.Bat, withSec, func(r inRow) bool { return r.Leg == l })
			if bs == nil {
				bs = [][]string{}
			}
			j.Task.Legs = append(j.Task.Legs, bs)
		}
		jobs = append(jobs, j)
		if p.Src == "unsorted" && !sparse {
			f := job
			f.How = "fork"
			f.Task = task{Kind: "prog", WithSec: withSec,
				Prog:    "fork (=> where s==0 => where s==1) | " + summ,
				Batches: zsonBatches(rows, []int{len(rows)}, withSec, nil)}
			jobs = append(jobs, f)
		}
	}
	return jobs
}

// sparsify makes aggregate arguments absent or null for whole keys, so that
// groups with no (non-null) argument value go through spills and partials.
func sparsify(rows []inRow, seed int64) {
	rng := rand.New(rand.NewSource(seed + 1))
	mode := map[key]int{}
	for i := range rows {
		m, ok := mode[rows[i].Key]
		if !ok {
			m = rng.Intn(3)
			mode[rows[i].Key] = m
		}
		switch m {
		case 0: // every argument absent
			rows[i].V, rows[i].B, rows[i].F, rows[i].M = "", "", "", ""
		case 1: // every argument null
			rows[i].V, rows[i].B, rows[i].F, rows[i].M = "null(int64)", "null(bool)", "", "null(int64)"
		}
	}
}

type verdict struct {
	oracleOK bool
	kind     string // first oracle failure
	detail   string
}

// oracle: exactly one row per distinct key, each aggregate over exactly that key's rows.
func oracle(rows []inRow, got []outRow, aggs []string) verdict {
	groups := map[key][]inRow{}
	for _, r := range rows {
		groups[r.Key] = append(groups[r.Key], r)
	}
	byKey := map[key][]outRow{}
	for _, g := range got {
		byKey[g.Key] = append(byKey[g.Key], g)
	}
	var keys []key
	for k := range groups {
		keys = append(keys, k)
	}
	sort.Slice(keys, func(i, j int) bool { return keys[i].idx() < keys[j].idx() })
	for k, rs := range byKey {
		if len(rs) > 1 {
			return verdict{false, "dup-key", fmt.Sprintf("key %s is emitted %d times: %s and %s", k, len(rs), rs[0].Raw, rs[1].Raw)}
		}
		if _, ok := groups[k]; !ok {
			return verdict{false, "extra-key", fmt.Sprintf("a row is emitted for key %s which is not in the input: %s", k, rs[0].Raw)}
		}
	}
	for _, k := range keys {
		if len(byKey[k]) == 0 {
			return verdict{false, "missing-key", fmt.Sprintf("no row is emitted for key %s (%d input rows)", k, len(groups[k]))}
		}
	}
	for _, k := range keys {
		want := naive(groups[k])
		g := byKey[k][0]
		for _, n := range aggs {
			if g.Aggs[n] != want[n] {
				return verdict{false, "agg:" + n, fmt.Sprintf("key %s: %s is %s but the aggregate over exactly that key's %d input rows is %s (row %s)", k, n, g.Aggs[n], len(groups[k]), want[n], g.Raw)}
			}
		}
	}
	return verdict{oracleOK: true}
}

func projectBatches(bs [][]string, withSec bool) ([][]outRow, []outRow, error) {
	zctx := newZctx()
	var out [][]outRow
	var flat []outRow
	for _, b := range bs {
		vals, err := parseRows(zctx, b)
		if err != nil {
			return nil, nil, err
		}
		var pb []outRow
		for _, v := range vals {
			r, err := project(v, withSec)
			if err != nil {
				return nil, nil, err
			}
			pb = append(pb, r)
		}
		out = append(out, pb)
		flat = append(flat, pb...)
	}
	return out, flat, nil
}

func realBatchSig(bs [][]outRow) string {
	var parts []string
	for _, b := range bs {
		var rows []string
		for _, r := range b {
			rows = append(rows, r.Key.String()+idsKey(r.IDs))
		}
		sort.Strings(rows)
		parts = append(parts, strings.Join(rows, ","))
	}
	return strings.Join(parts, " | ")
}

func specBatchSig(bs [][]specRow) string {
	var parts []string
	for _, b := range bs {
		var rows []string
		for _, r := range b {
			v := append([]int(nil), r.Vals...)
			sort.Ints(v)
			rows = append(rows, r.Rep.key().String()+idsKey(v))
		}
		sort.Strings(rows)
		parts = append(parts, strings.Join(rows, ","))
	}
	return strings.Join(parts, " | ")
}

func specSpills(p *gbSummary, stage string) []int {
	out := []int{}
	for _, s := range p.Spills {
		if st, _ := s[0].(string); st == stage {
			n, _ := s[1].(float64)
			out = append(out, int(n))
		}
	}
	return out
}

// coarse: rows united per comparator class of the key (what remains checkable
// when the spec says distinct-but-equal keys were merged).
func coarse(rows []outRow) string {
	m := map[string][]int{}
	for _, r := range rows {
		c := fmt.Sprintf("%d/%d", sRank(r.Key.P), r.Key.S)
		m[c] = append(m[c], r.IDs...)
	}
	var parts []string
	for c, ids := range m {
		sort.Ints(ids)
		parts = append(parts, c+idsKey(ids))
	}
	sort.Strings(parts)
	return strings.Join(parts, ",")
}

var taintName = map[string]string{
	"merge":     "spill-merge-of-comparator-equal-keys",
	"release":   "sorted-release-missing-vs-null",
	"descnulls": "desc-input-from-sort-has-nulls-last",
}

func crashSig(msg string) string {
	first := msg
	if i := strings.Index(first, "\n"); i >= 0 {
		first = first[:i]
	}
	first = strings.TrimPrefix(first, "panic: ")
	if len(first) > 70 {
		first = first[:70]
	}
	frame := ""
	for _, line := range strings.Split(msg, "\n") {
		if strings.HasPrefix(line, "github.com/brimdata/super/") && !strings.Contains(line, "panic") {
			frame = strings.TrimPrefix(line, "github.com/brimdata/super/")
			if i := strings.Index(frame, "("); i >= 0 {
				// keep package.(*Type).method
				if j := strings.LastIndex(frame, "("); j > i {
					frame = frame[:j]
				}
			}
			if i := strings.LastIndex(frame, "/"); i >= 0 {
				frame = frame[i+1:]
			}
			break
		}
	}
	return first + "@" + frame
}

func groupBy(c *core.Ctx) error {
	cfg, nRandom := "GroupBy.quick.cfg", 350
	if !c.Quick() {
		cfg, nRandom = "GroupBy.thorough.cfg", 3000
		nWorkers = 12
	}
	var sums []gbSummary
	res := c.MustHold(core.TLCRun{Module: "GroupBy", Cfg: cfg, Workers: 8, Timeout: 25 * time.Minute})
	if res == nil {
		return nil
	}
	s1, err := parsePrints[gbSummary](res.Prints)
	if err != nil {
		return err
	}
	// Non-vacuity of the model run (TLC's -coverage triples the run time; every
	// action of GroupBy.tla lies on the path of a finished behaviour, so the
	// finished behaviours are counted instead).
	nv := map[string]int{}
	for i := range s1 {
		p := &s1[i]
		nv["finished"]++
		if len(p.Spills) > 0 {
			nv["with_spill"]++
		}
		if len(p.Out) > 1 {
			nv["released_before_end_of_input"]++
		}
		if p.Mode == "partials" {
			nv["partials"]++
		}
		if len(p.Taint) == 0 {
			nv["untainted"]++
		}
		if len(p.Taint) == 0 && len(p.Spills) > 0 && len(p.Out) > 1 {
			nv["untainted_spill_and_early_release"]++
		}
	}
	c.Set("groupby_model_nonvacuity", nv)
	for _, k := range []string{"with_spill", "released_before_end_of_input", "partials", "untainted_spill_and_early_release"} {
		if nv[k] == 0 {
			c.Inconclusive("GroupBy.tla %s: no finished behaviour %s (vacuous model run)", cfg, k)
		}
	}
	allExhaustive := true
	capCases := func(in []gbSummary, limit int, salt int64) []gbSummary {
		cs := groupCases(in)
		if len(cs) <= limit {
			return in
		}
		allExhaustive = false
		rng := rand.New(rand.NewSource(c.Seed + salt))
		rng.Shuffle(len(cs), func(i, j int) { cs[i], cs[j] = cs[j], cs[i] })
		var out []gbSummary
		for _, g := range cs[:limit] {
			for _, p := range g.preds {
				out = append(out, *p)
			}
		}
		return out
	}
	if !c.Quick() {
		s1 = capCases(s1, 6000, 1)
	}
	sums = append(sums, s1...)
	c.Logf("GroupBy %s: %d distinct states, %d finished behaviours, invariants hold", cfg, res.Distinct, len(s1))
	if !c.Quick() {
		for _, extra := range []string{"GroupBy.thorough2.cfg", "GroupBy.thorough3.cfg"} {
			r := c.MustHold(core.TLCRun{Module: "GroupBy", Cfg: extra, Workers: 8, Timeout: 25 * time.Minute})
			if r == nil {
				return nil
			}
			s, err := parsePrints[gbSummary](r.Prints)
			if err != nil {
				return err
			}
			c.Logf("GroupBy %s: %d distinct states, %d finished behaviours, invariants hold", extra, r.Distinct, len(s))
			sums = append(sums, capCases(s, 2500, int64(len(sums)))...)
		}
	}
	// larger cases chosen at random (seeded); TLC explores every behaviour of each
	gen := genCases(c.Seed, nRandom)
	cf := core.NDJSON(gen)
	rnd := c.MustHold(core.TLCRun{Module: "GroupBy", Cfg: "GroupBy.cases.cfg", Workers: 8, Files: map[string][]byte{"cases.ndjson": cf}, Timeout: 20 * time.Minute})
	if rnd == nil {
		return nil
	}
	s2, err := parsePrints[gbSummary](rnd.Prints)
	if err != nil {
		return err
	}
	c.Logf("GroupBy on %d random cases of up to 6 rows over the full key universe: %d distinct states, %d finished behaviours, invariants hold", len(gen), rnd.Distinct, len(s2))
	exhaustiveCases := len(groupCases(sums))
	sums = append(sums, s2...)
	cases := groupCases(sums)
	c.Set("groupby_cases", len(cases))
	c.Set("groupby_cases_exhaustive", exhaustiveCases)
	c.Set("groupby_exhaustive_space_fully_replayed", allExhaustive)
	c.Set("exhaustive", false) // the random cases and (quick tier) the join cases are samples
	nt := map[string]int{}
	for _, cs := range cases {
		for _, p := range cs.preds {
			for _, t := range p.Taint {
				nt[t]++
			}
		}
	}
	c.Set("groupby_predicted_taints", nt)

	var jobs []gbJob
	for _, cs := range cases {
		jobs = append(jobs, makeJobs(cs, c.Seed, aggList, false)...)
	}
	// sparse pass: one aggregate at a time over groups whose arguments are all absent / all null
	rng := rand.New(rand.NewSource(c.Seed + 10))
	nSparse := 10
	if !c.Quick() {
		nSparse = 120
	}
	aggDefs := strings.Split(aggList, ", ")
	for i := 0; i < nSparse && len(cases) > 0; i++ {
		cs := cases[rng.Intn(len(cases))]
		p := cs.preds[0]
		if p.Limit >= 99 && p.Mode == "direct" || len(p.Taint) > 0 || len(cs.preds) > 1 {
			continue
		}
		for ai, def := range aggDefs[1:] {
			for _, j := range makeJobs(cs, c.Seed, aggDefs[0]+", "+def, true) {
				j.How = "sparse:" + aggNames[ai+1] + ":" + j.How
				j.Agg = aggNames[ai+1]
				jobs = append(jobs, j)
			}
		}
	}
	tasks := make([]task, len(jobs))
	for i := range jobs {
		jobs[i].Task.ID = i
		tasks[i] = jobs[i].Task
	}
	c.Logf("replaying %d group-by runs (%d cases) on the real operators in %d worker processes", len(jobs), len(cases), nWorkers)
	results, err := runTasks(c.Scratch, tasks, nWorkers)
	if err != nil {
		return err
	}
	for i := range jobs {
		r, ok := results[i]
		if !ok {
			return fmt.Errorf("no result for group-by task %d", i)
		}
		if err := judgeGB(c, &jobs[i], r); err != nil {
			return err
		}
	}
	c.Add("traces_validated_against_impl", int64(len(jobs)))
	c.Logf("group-by replay done: %d evaluations, %d violations", c.Count("evaluations"), c.Violations())
	return probes(c)
}

// probes are directed regression cases for defects that the replay found and
// that the generated inputs now steer around (so that they do not mask
// everything else); the oracle is the same naive evaluation.
func probes(c *core.Ctx) error {
	// F-C10-7 (fixed by 98bf2dc59): the operator evaluates one cached field
	// reference (expr.DotExpr caches the column by type ID) on input rows and on
	// spilled rows; the spilled rows used to be decoded into a private type
	// context whose ids collide with the query's.
	rows := []inRow{{ID: 1, Key: key{P: "I1"}}, {ID: 2, Key: key{P: "I2"}}, {ID: 3, Key: key{P: "MISS"}}}
	j := gbJob{CaseKey: "probe:absent-key-field", How: "probe", Rows: rows, Agg: "n",
		Task: task{ID: 0, Kind: "gb", SortKey: "asc",
			Prog:    "summarize ids:=collect(u), n:=count(), av:=avg(v) by k with -limit 1",
			Batches: [][]string{{"{k:1,u:1}"}, {"{k:2,u:2,x:1}"}, {"{u:3}"}}}}
	res, err := runTasks(c.Scratch, []task{j.Task}, 1)
	if err != nil {
		return err
	}
	r := res[0]
	witness := map[string]any{"kind": "gb", "job": &j}
	c.Eval(j.CaseKey, true)
	if r.Crash != "" || r.Stages[0].Err != "" {
		c.Violate("gb:crash:"+crashSig(r.Crash+r.Stages[0].Err), "group-by over rows without the key field, sorted input, limit 1: "+firstLine(r.Crash+r.Stages[0].Err), witness)
		return nil
	}
	_, flat, err := projectBatches(r.Stages[0].Batches, false)
	if err != nil {
		c.Violate("gb:unprojectable-row:probe", err.Error(), witness)
		return nil
	}
	if v := oracle(rows, flat, []string{"ids", "n"}); !v.oracleOK {
		sig := "gb:unpredicted:probe:" + v.kind
		for _, o := range flat {
			if idsKey(o.IDs) == "[3]" && o.Key.P != "MISS" && len(flat) == 3 {
				sig = "gb:typecontext:key-of-row-without-key-field-after-spill"
			}
		}
		c.Violate(sig, "`"+j.Task.Prog+"` over {k:1,u:1} | {k:2,u:2,x:1} | {u:3} (declared sorted on k): "+v.detail, witness)
	}
	return nil
}

var sampleKinds = map[string]int{}

func judgeGB(c *core.Ctx, j *gbJob, r result) error {
	p0 := j.Case.preds[0]
	aggs := aggNames
	if j.Agg != "" {
		aggs = []string{"ids", j.Agg}
	}
	witness := map[string]any{"kind": "gb", "job": j}
	label := fmt.Sprintf("%s src=%s mode=%s limit=%d", j.How, p0.Src, p0.Mode, p0.Limit)
	// --- crashes and errors
	crash := r.Crash
	for _, st := range r.Stages {
		if st.Err != "" && crash == "" {
			if strings.HasPrefix(st.Err, "harness:") {
				return fmt.Errorf("task %d: %s", j.Task.ID, st.Err)
			}
			crash = "error: " + st.Err
		}
	}
	if crash != "" {
		// No behaviour of GroupBy.tla crashes (F-C10-3 and F-C10-5 are fixed and no
		// longer transcribed): any crash is a violation.  The nil maxSpillKey
		// dereference keeps the signature of its (fixed) finding.
		c.Eval(j.CaseKey+"|"+j.How, true)
		sig := "gb:crash:" + crashSig(crash)
		if strings.Contains(crash, "nil pointer dereference") && strings.Contains(crash, "readSpills") {
			sig = "gb:crash:nil-maxspillkey"
		}
		c.Violate(sig, fmt.Sprintf("group-by (%s) does not produce a result: %s", label, firstLine(crash)), witness)
		return nil
	}
	last := r.Stages[len(r.Stages)-1]
	realB, flat, err := projectBatches(last.Batches, j.WithSec)
	if err != nil {
		// a row that cannot be projected (unknown key, no ids) is itself a wrong row
		c.Eval(j.CaseKey+"|"+j.How, true)
		c.Violate("gb:unprojectable-row:"+p0.Mode, fmt.Sprintf("group-by (%s) emits a row that is no aggregate of the input: %v", label, err), witness)
		return nil
	}
	nSpills := 0
	for _, st := range r.Stages {
		nSpills += len(st.Spills)
	}
	early := len(realB) > 1
	c.Eval(j.CaseKey+"|"+j.How, nSpills > 0 || early || len(r.Stages) > 1 || j.How == "fork")
	if nSpills > 0 {
		c.Add("runs_with_spills", 1)
		c.Add("spill_runs_written", int64(nSpills))
	}
	if early {
		c.Add("runs_with_early_release", 1)
	}
	// Self-test of the binding (C10_CORRUPT=spec|real): one predicted value /
	// one observed value of one fixed run is corrupted; the former must show
	// up as DRIFT, the latter as a VIOLATION.
	corruptSpec := false
	if j.Task.ID == 11 {
		switch os.Getenv("C10_CORRUPT") {
		case "spec":
			corruptSpec = true
		case "real":
			if len(flat) > 0 && len(flat[0].IDs) > 0 {
				flat[0].IDs = flat[0].IDs[1:]
				flat[0].Aggs["ids"] = "[" + strings.Trim(strings.ReplaceAll(idsKey(flat[0].IDs), " ", ","), "[]") + "]::[int64]"
			}
		}
	}
	v := oracle(j.Rows, flat, aggs)

	// --- binding: does some behaviour of the spec explain the real run?
	var match *gbSummary
	if j.How == "fork" {
		// the interleaving at the combine is not controlled: compare the final set only
		for _, p := range j.Case.preds {
			if specBatchSig([][]specRow{flattenSpec(p.Out)}) == realBatchSig([][]outRow{flat}) {
				match = p
				break
			}
		}
	} else {
		for _, p := range j.Case.preds {
			want := specBatchSig(p.Out)
			if corruptSpec {
				want += "#"
			}
			if want != realBatchSig(realB) {
				continue
			}
			ok := true
			if len(r.Stages) == 3 {
				for leg := 0; leg < 2; leg++ {
					lb, _, err := projectBatches(r.Stages[leg].Batches, j.WithSec)
					if err != nil || specBatchSig(p.Legs[leg]) != realBatchSig(lb) {
						ok = false
					}
				}
			}
			if ok {
				match = p
				break
			}
		}
	}
	if v.oracleOK {
		if match == nil {
			c.Drift("group-by %s case %s: real output [%s] is correct but is not a behaviour of GroupBy.tla (e.g. spec predicts [%s])", label, j.CaseKey, realBatchSig(realB), specBatchSig(p0.Out))
		} else if j.How != "fork" {
			stages := []string{"final"}
			if len(r.Stages) == 3 {
				stages = []string{"leg0", "leg1", "final"}
			}
			for i, st := range stages {
				if fmt.Sprint(specSpills(match, st)) != fmt.Sprint(r.Stages[i].Spills) {
					c.Drift("group-by %s case %s stage %s: spill runs %v, GroupBy.tla predicts %v", label, j.CaseKey, st, r.Stages[i].Spills, specSpills(match, st))
				}
			}
			c.Add("runs_matching_spec_exactly", 1)
		}
		if sampleKinds[j.How] < 2 && (nSpills > 0 || early) && len(j.Rows) >= 3 {
			sampleKinds[j.How]++
			c.Sample(map[string]any{"how": j.How, "program": j.Task.Prog, "declared_order": j.Task.SortKey, "input_batches": j.Task.Batches, "leg_inputs": j.Task.Legs,
				"real_output_batches": last.Batches, "real_spill_runs": last.Spills, "spec_output": specBatchSig(p0.Out)})
		}
		return nil
	}
	// --- the property is violated on the real code
	sig := ""
	switch {
	case match != nil && len(match.Taint) > 0:
		// exactly what the transcription predicts through a known-defect path
		switch {
		case match.hasTaint("descnulls"):
			sig = "gb:" + taintName["descnulls"]
		case match.hasTaint("merge"):
			sig = "gb:" + taintName["merge"]
		default:
			sig = "gb:" + taintName["release"]
		}
	case j.How == "fork" && anyTaint(j.Case, "merge") && coarse(flat) == coarseInput(j.Rows):
		sig = "gb:" + taintName["merge"]
	case strings.HasPrefix(v.kind, "agg:"):
		sig = fmt.Sprintf("gb:%s:%s", v.kind, p0.Mode)
	default:
		sig = fmt.Sprintf("gb:unpredicted:%s:%s:%s", v.kind, p0.Src, p0.Mode)
	}
	if j.Agg != "" && strings.HasPrefix(v.kind, "agg:") {
		sig = fmt.Sprintf("gb:sparse:%s", v.kind)
	}
	c.Violate(sig, fmt.Sprintf("group-by (%s): %s", label, v.detail), witness)
	return nil
}

// genCase is the JSON form of a case record of GroupBy.tla.
type genCase struct {
	Src   string  `json:"src"`
	Mode  string  `json:"mode"`
	Limit int     `json:"limit"`
	Keys  [][]any `json:"keys"`
	Bat   []int   `json:"bat"`
	B2    int     `json:"b2"`
}

// genCases draws n cases: up to 6 rows over a small pool of keys from the
// full universe (so that keys repeat), pool-ordered if the source is declared
// sorted, with a random batching.
func genCases(seed int64, n int) []genCase {
	rng := rand.New(rand.NewSource(seed*1000003 + 5))
	srcs := []string{"unsorted", "asc", "desc", "asc", "desc", "sortasc", "sortdesc"}
	limits := []int{1, 1, 2, 2, 3, 99}
	var out []genCase
	seen := map[string]bool{}
	for len(out) < n {
		g := genCase{Src: srcs[rng.Intn(len(srcs))], Mode: "direct", Limit: limits[rng.Intn(len(limits))], B2: 1}
		sorted := g.Src == "asc" || g.Src == "desc"
		if (sorted || g.Src == "unsorted") && rng.Intn(3) == 0 {
			g.Mode = "partials"
			if sorted {
				g.B2 = 1 + rng.Intn(2)
			}
		}
		nsec := 1 + rng.Intn(2)
		var pool []key
		for i, np := 0, 2+rng.Intn(3); i < np; i++ {
			pool = append(pool, key{P: tokOrder[rng.Intn(len(tokOrder))], S: rng.Intn(nsec)})
		}
		rows := 1 + rng.Intn(6)
		keys := make([]key, rows)
		for i := range keys {
			keys[i] = pool[rng.Intn(len(pool))]
		}
		if sorted {
			desc := g.Src == "desc"
			sort.SliceStable(keys, func(i, j int) bool {
				if desc {
					return sRank(keys[i].P) > sRank(keys[j].P)
				}
				return sRank(keys[i].P) < sRank(keys[j].P)
			})
			for left := rows; left > 0; {
				k := 1 + rng.Intn(left)
				g.Bat = append(g.Bat, k)
				left -= k
			}
		} else {
			g.Bat = []int{rows}
		}
		for _, k := range keys {
			g.Keys = append(g.Keys, []any{k.P, k.S})
		}
		b, _ := json.Marshal(g)
		if seen[string(b)] {
			continue
		}
		seen[string(b)] = true
		out = append(out, g)
	}
	return out
}

func anyTaint(cs *gbCase, t string) bool {
	for _, p := range cs.preds {
		if p.hasTaint(t) {
			return true
		}
	}
	return false
}

func coarseInput(rows []inRow) string {
	var out []outRow
	for _, r := range rows {
		out = append(out, outRow{Key: r.Key, IDs: []int{r.ID}})
	}
	return coarse(out)
}

func flattenSpec(bs [][]specRow) []specRow {
	var out []specRow
	for _, b := range bs {
		out = append(out, b...)
	}
	return out
}

func firstLine(s string) string {
	if i := strings.Index(s, "\n"); i >= 0 {
		return s[:i]
	}
	return s
}
