package main

// Worker processes: the real operators run in child processes, because a
// defect in them can panic in an operator goroutine (which kills the whole
// process) and because the spill hook is process-global.  A worker reads
// tasks (ndjson), writes {"start":id} before and the result after each task;
// the parent attributes a crash to the task that was started last.

import (
	"bufio"
	"context"
	"encoding/json"
	"fmt"
	"os"
	"os/exec"
	"path/filepath"
	"sort"
	"strings"
	"sync"
	"time"

	zed "github.com/brimdata/super"
	"github.com/brimdata/super/compiler/ast/dag"
	"github.com/brimdata/super/zbuf"
	"github.com/brimdata/super/zson"

	"verif/lakeh"
)

type task struct {
	ID   int    `json:"id"`
	Kind string `json:"kind"` // "gb" direct | "gb2" kernel-direct partials | "join" | "prog"
	// group-by
	Prog    string       `json:"prog,omitempty"`    // program (for gb2: the partials-out program)
	Prog2   string       `json:"prog2,omitempty"`   // gb2: the partials-in program
	SortKey string       `json:"sortkey,omitempty"` // "" | "asc" | "desc": declared order of the input on k
	Batches [][]string   `json:"batches,omitempty"`
	Legs    [][][]string `json:"legs,omitempty"` // gb2: input batches of leg 0 and leg 1
	B2      int          `json:"b2,omitempty"`   // gb2 sorted: batch size of the merged stream
	WithSec bool         `json:"withsec,omitempty"`
	// join: the two sides are pools of a private in-memory lake; a pool whose
	// key is the join key k is "declared sorted" (pool order), a pool keyed on the
	// row number u delivers the rows as written with no declared order on k.
	Sides []joinSide `json:"sides,omitempty"` // $L / $R in Prog are replaced by the pool names
}

type joinSide struct {
	Rows string `json:"rows"` // ZSON text
	Key  string `json:"key"`  // "k" | "u"
	Dir  string `json:"dir"`  // "asc" | "desc"
}

type stageResult struct {
	Batches [][]string `json:"batches"`
	Spills  []int      `json:"spills"`
	Err     string     `json:"err,omitempty"`
	DAG     string     `json:"dag,omitempty"`
}

type result struct {
	ID     int           `json:"id"`
	Stages []stageResult `json:"stages"` // gb/join/prog: one; gb2: leg0, leg1, final
	Crash  string        `json:"crash,omitempty"`
}

func formatBatches(bs [][]zed.Value) [][]string {
	out := [][]string{}
	for _, b := range bs {
		if len(b) == 0 {
			continue
		}
		var s []string
		for _, v := range b {
			s = append(s, zson.FormatValue(v))
		}
		out = append(out, s)
	}
	return out
}

func toStage(r runResult) stageResult {
	s := stageResult{Batches: formatBatches(r.Batches), Spills: r.Spills, DAG: r.DAG}
	if s.Spills == nil {
		s.Spills = []int{}
	}
	if r.Err != nil {
		s.Err = r.Err.Error()
	}
	return s
}

func sourceOf(zctx *zed.Context, batches [][]string) (*batchSource, error) {
	src := &batchSource{}
	for _, b := range batches {
		vals, err := parseRows(zctx, b)
		if err != nil {
			return nil, err
		}
		src.batches = append(src.batches, vals)
	}
	return src, nil
}

func optsOf(sk string) runOpts {
	o := runOpts{Timeout: 30 * time.Second}
	if sk != "" {
		o.SortKey = sortKey("k", sk == "desc")
	}
	return o
}

func setPartials(in, out bool) func(dag.Seq) {
	return func(seq dag.Seq) {
		for _, op := range seq {
			if s, ok := op.(*dag.Summarize); ok {
				s.PartialsIn, s.PartialsOut = in, out
			}
		}
	}
}

// keyIdxOf orders partial rows canonically (the order of GroupBy.tla's CanonSeq).
func keyIdxOf(v zed.Value, withSec bool) int {
	r, err := project(v, withSec)
	if err != nil {
		return 1 << 20
	}
	return r.Key.idx()
}

func execTask(t *task, dir string) result {
	res := result{ID: t.ID}
	zctx := zed.NewContext()
	switch t.Kind {
	case "gb", "prog":
		src, err := sourceOf(zctx, t.Batches)
		if err != nil {
			res.Stages = []stageResult{{Err: "harness: " + err.Error()}}
			return res
		}
		res.Stages = []stageResult{toStage(runProgram(zctx, t.Prog, optsOf(t.SortKey), src))}
	case "gb2":
		var legs [2]runResult
		for i := 0; i < 2; i++ {
			src, err := sourceOf(zctx, t.Legs[i])
			if err != nil {
				res.Stages = []stageResult{{Err: "harness: " + err.Error()}}
				return res
			}
			o := optsOf(t.SortKey)
			o.Mutate = setPartials(false, true)
			legs[i] = runProgram(zctx, t.Prog, o, src)
			res.Stages = append(res.Stages, toStage(legs[i]))
			if legs[i].Err != nil {
				return res
			}
		}
		// Input of the partials-in aggregator (FinalInput of GroupBy.tla).
		src := &batchSource{}
		canonBatch := func(b []zed.Value) []zed.Value {
			c := append([]zed.Value(nil), b...)
			sort.SliceStable(c, func(i, j int) bool { return keyIdxOf(c[i], t.WithSec) < keyIdxOf(c[j], t.WithSec) })
			return c
		}
		if t.SortKey == "" {
			for i := 0; i < 2; i++ {
				for _, b := range legs[i].Batches {
					if len(b) > 0 {
						src.batches = append(src.batches, canonBatch(b))
					}
				}
			}
		} else {
			var all []zed.Value
			for i := 0; i < 2; i++ {
				for _, b := range legs[i].Batches {
					all = append(all, canonBatch(b)...)
				}
			}
			desc := t.SortKey == "desc"
			rank := func(v zed.Value) int {
				r, err := project(v, t.WithSec)
				if err != nil {
					return 0
				}
				if desc {
					return -sRank(r.Key.P)
				}
				return sRank(r.Key.P)
			}
			sort.SliceStable(all, func(i, j int) bool { return rank(all[i]) < rank(all[j]) })
			for len(all) > 0 {
				n := t.B2
				if n <= 0 || n > len(all) {
					n = len(all)
				}
				src.batches = append(src.batches, all[:n])
				all = all[n:]
			}
		}
		o := optsOf(t.SortKey)
		o.Mutate = setPartials(true, false)
		res.Stages = append(res.Stages, toStage(runProgram(zctx, t.Prog2, o, src)))
	case "join":
		prog := t.Prog
		for i, ph := range []string{"$L", "$R"} {
			name, err := theLake.pool(t.Sides[i])
			if err != nil {
				res.Stages = []stageResult{{Err: "harness: " + err.Error()}}
				return res
			}
			prog = strings.ReplaceAll(prog, ph, name)
		}
		res.Stages = []stageResult{theLake.query(prog)}
	default:
		res.Stages = []stageResult{{Err: "harness: unknown task kind " + t.Kind}}
	}
	return res
}

var _ zbuf.Puller = (*batchSource)(nil)

// lakeCache is the worker's private lake with one pool per distinct side.
type lakeCache struct {
	lk    *lakeh.Lake
	pools map[string]string
}

var theLake = &lakeCache{pools: map[string]string{}}

func (lc *lakeCache) pool(s joinSide) (string, error) {
	ctx := context.Background()
	if lc.lk == nil {
		lk, err := lakeh.Create(ctx, lakeh.NewMemStore(), 0, nil)
		if err != nil {
			return "", err
		}
		lc.lk = lk
	}
	ck := s.Key + "|" + s.Dir + "|" + s.Rows
	if name, ok := lc.pools[ck]; ok {
		return name, nil
	}
	name := fmt.Sprintf("p%d", len(lc.pools))
	id, err := lc.lk.CreatePool(ctx, name, s.Key, s.Dir, 0, 0)
	if err != nil {
		return "", err
	}
	if strings.TrimSpace(s.Rows) != "" {
		if _, err := lc.lk.LoadZSON(ctx, id, "main", s.Rows); err != nil {
			return "", err
		}
	}
	lc.pools[ck] = name
	return name, nil
}

func (lc *lakeCache) query(prog string) (res stageResult) {
	res.Spills = []int{}
	res.Batches = [][]string{}
	defer func() {
		if r := recover(); r != nil {
			res.Err = fmt.Sprintf("panic: %v", r)
		}
	}()
	ctx, cancel := context.WithTimeout(context.Background(), 30*time.Second)
	defer cancel()
	rows, err := lc.lk.QueryPar(ctx, prog, 1)
	if err != nil {
		res.Err = err.Error()
		return res
	}
	if len(rows) > 0 {
		res.Batches = [][]string{rows}
	}
	res.DAG = prog
	return res
}

// workerMain: c10 --worker <tasks.ndjson> <results.ndjson> <scratch dir>
func workerMain(args []string) {
	in, err := os.Open(args[0])
	if err != nil {
		fmt.Fprintln(os.Stderr, err)
		os.Exit(3)
	}
	out, err := os.OpenFile(args[1], os.O_CREATE|os.O_WRONLY|os.O_APPEND, 0o644)
	if err != nil {
		fmt.Fprintln(os.Stderr, err)
		os.Exit(3)
	}
	dir := args[2]
	os.MkdirAll(dir, 0o755)
	os.Setenv("TMPDIR", dir)
	w := bufio.NewWriter(out)
	sc := bufio.NewScanner(in)
	sc.Buffer(make([]byte, 1<<20), 64<<20)
	for sc.Scan() {
		var t task
		if err := json.Unmarshal(sc.Bytes(), &t); err != nil {
			fmt.Fprintln(os.Stderr, "bad task:", err)
			os.Exit(3)
		}
		fmt.Fprintf(w, "{\"start\":%d}\n", t.ID)
		w.Flush()
		r := execTask(&t, dir)
		b, _ := json.Marshal(r)
		w.Write(b)
		w.WriteByte('\n')
		w.Flush()
	}
	// A panicking operator goroutine lets the puller see a clean end of stream
	// before the runtime kills the process: do not exit 0 under its feet.
	time.Sleep(150 * time.Millisecond)
	os.Exit(0)
}

// runWorker runs one worker process over tasks and returns the results it
// wrote, the ids in the order they were started, and how it ended.
func runWorker(exe, base string, tasks []task) (res map[int]result, started []int, runErr error, stderr string, err error) {
	tf, rf := base+".tasks", base+".results"
	f, err := os.Create(tf)
	if err != nil {
		return nil, nil, nil, "", err
	}
	bw := bufio.NewWriter(f)
	for _, t := range tasks {
		b, _ := json.Marshal(t)
		bw.Write(b)
		bw.WriteByte('\n')
	}
	bw.Flush()
	f.Close()
	cmd := exec.Command(exe, "--worker", tf, rf, base+".d")
	var eb strings.Builder
	cmd.Stderr = &eb
	runErr = cmd.Run()
	res = map[int]result{}
	if rfh, e := os.Open(rf); e == nil {
		sc := bufio.NewScanner(rfh)
		sc.Buffer(make([]byte, 1<<20), 256<<20)
		for sc.Scan() {
			var probe struct {
				Start *int `json:"start"`
			}
			line := sc.Bytes()
			if json.Unmarshal(line, &probe) == nil && probe.Start != nil {
				started = append(started, *probe.Start)
				continue
			}
			var r result
			if json.Unmarshal(line, &r) == nil && r.Stages != nil {
				res[r.ID] = r
			}
		}
		rfh.Close()
	}
	os.RemoveAll(base + ".d")
	if os.Getenv("C10_KEEP") == "" {
		os.Remove(tf)
		os.Remove(rf)
	}
	return res, started, runErr, eb.String(), nil
}

func crashText(stderr string, runErr error) string {
	msg := stderr
	if i := strings.Index(msg, "panic:"); i >= 0 {
		msg = msg[i:]
	} else if i := strings.Index(msg, "fatal error:"); i >= 0 {
		msg = msg[i:]
	}
	if len(msg) > 900 {
		msg = msg[:900]
	}
	if strings.TrimSpace(msg) == "" {
		msg = fmt.Sprintf("worker exited: %v", runErr)
	}
	return msg
}

// runTasks executes the tasks on nproc worker processes and returns the
// result of each (by task id).  When a worker dies, the culprit is one of the
// last two tasks it started (a panicking operator goroutine first closes its
// result channel, so the puller may see a clean end of stream, write an empty
// result and even start the next task before the process exits): both are
// re-run alone, each in a process of its own, and a task whose private
// process dies gets Crash set.
func runTasks(scratch string, tasks []task, nproc int) (map[int]result, error) {
	exe, err := os.Executable()
	if err != nil {
		return nil, err
	}
	if nproc > len(tasks) {
		nproc = len(tasks)
	}
	if nproc < 1 {
		nproc = 1
	}
	shards := make([][]task, nproc)
	for i, t := range tasks {
		shards[i%nproc] = append(shards[i%nproc], t)
	}
	results := map[int]result{}
	var mu sync.Mutex
	var wg sync.WaitGroup
	errs := make([]error, nproc)
	for si := range shards {
		wg.Add(1)
		go func(si int) {
			defer wg.Done()
			pending := shards[si]
			byID := map[int]task{}
			for _, t := range pending {
				byID[t.ID] = t
			}
			round := 0
			for len(pending) > 0 {
				round++
				base := filepath.Join(scratch, fmt.Sprintf("w%d-%d", si, round))
				res, started, runErr, stderr, err := runWorker(exe, base, pending)
				if err != nil {
					errs[si] = err
					return
				}
				suspects := map[int]bool{}
				if runErr != nil {
					if len(started) == 0 {
						errs[si] = fmt.Errorf("worker %d died before its first task (%v): %s", si, runErr, stderr)
						return
					}
					// the deferred cleanup of the dying goroutine (removing spill files)
					// can take a while: suspect the last few tasks
					for _, id := range started[max(0, len(started)-4):] {
						suspects[id] = true
						delete(res, id)
					}
				}
				// a group-by over a non-empty input that "cleanly" produced nothing
				// is the signature of that race as well: re-run it alone
				for id, r := range res {
					if k := byID[id].Kind; (k == "gb" || k == "gb2" || k == "prog") && len(r.Stages) > 0 {
						last := r.Stages[len(r.Stages)-1]
						if last.Err == "" && len(last.Batches) == 0 {
							suspects[id] = true
							delete(res, id)
						}
					}
				}
				mu.Lock()
				for id, r := range res {
					results[id] = r
				}
				mu.Unlock()
				ids := make([]int, 0, len(suspects))
				for id := range suspects {
					ids = append(ids, id)
				}
				sort.Ints(ids)
				for k, id := range ids {
					sres, _, sErr, sStderr, err := runWorker(exe, fmt.Sprintf("%s-solo%d", base, k), []task{byID[id]})
					if err != nil {
						errs[si] = err
						return
					}
					r, ok := sres[id]
					if sErr != nil || !ok {
						r = result{ID: id, Crash: crashText(sStderr, sErr)}
					}
					mu.Lock()
					results[id] = r
					mu.Unlock()
				}
				var rest []task
				for _, t := range pending {
					mu.Lock()
					_, ok := results[t.ID]
					mu.Unlock()
					if !ok {
						rest = append(rest, t)
					}
				}
				if runErr == nil && len(rest) > 0 {
					errs[si] = fmt.Errorf("worker %d finished without a result for %d tasks: %s", si, len(rest), stderr)
					return
				}
				pending = rest
			}
		}(si)
	}
	wg.Wait()
	for _, e := range errs {
		if e != nil {
			return results, e
		}
	}
	return results, nil
}
