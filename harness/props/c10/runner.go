package main

// Running programs on the real runtime with full control over the input's
// batch boundaries and its declared sort order.

import (
	"context"
	"fmt"
	"sync"
	"time"

	zed "github.com/brimdata/super"
	"github.com/brimdata/super/compiler"
	"github.com/brimdata/super/compiler/ast"
	"github.com/brimdata/super/compiler/ast/dag"
	"github.com/brimdata/super/compiler/data"
	"github.com/brimdata/super/order"
	"github.com/brimdata/super/pkg/field"
	"github.com/brimdata/super/pkg/storage"
	"github.com/brimdata/super/pkg/verif"
	"github.com/brimdata/super/runtime"
	"github.com/brimdata/super/zbuf"
	"github.com/brimdata/super/zfmt"
	"github.com/brimdata/super/zson"
)

// batchSource is a zio.Reader that is also zbuf.ScannerAble: the runtime pulls
// exactly the batches given here (zbuf.NewScanner would otherwise re-batch).
type batchSource struct {
	batches [][]zed.Value
	next    int
	pulls   int
}

func (b *batchSource) Read() (*zed.Value, error) { panic("batchSource.Read is not used") }

func (b *batchSource) NewScanner(ctx context.Context, f zbuf.Filter) (zbuf.Scanner, error) {
	if f != nil {
		if ev, err := f.AsEvaluator(); err != nil || ev != nil {
			return nil, fmt.Errorf("batchSource: unexpected pushdown filter")
		}
	}
	return b, nil
}

func (b *batchSource) Progress() zbuf.Progress { return zbuf.Progress{} }

func (b *batchSource) Pull(done bool) (zbuf.Batch, error) {
	b.pulls++
	if done || b.next >= len(b.batches) {
		b.next = len(b.batches)
		return nil, nil
	}
	vals := b.batches[b.next]
	b.next++
	return zbuf.NewArray(vals), nil
}

// spillLog collects spill.MergeSort.Spill hook events.  The hook is global, so
// runs that want the log are serialized by spillMu.
var (
	spillMu  sync.Mutex
	spillLog []int
	spillLk  sync.Mutex
)

func init() {
	verif.SetHook(func(site string, args ...any) {
		if site == "spill.MergeSort.Spill" && len(args) == 2 {
			spillLk.Lock()
			spillLog = append(spillLog, args[1].(int))
			spillLk.Unlock()
		}
	})
}

type runResult struct {
	Batches [][]zed.Value // output batches, values copied
	Spills  []int         // number of values of each spill run, in order
	DAG     string
	Err     error
}

func (r *runResult) rows() []zed.Value {
	var out []zed.Value
	for _, b := range r.Batches {
		out = append(out, b...)
	}
	return out
}

type runOpts struct {
	SortKey *order.SortKey // declared order of the default input
	Timeout time.Duration
	Mutate  func(dag.Seq) // applied to the analyzed DAG before optimization
}

// runProgram compiles prog exactly as the product does (semantic analysis,
// optimizer, kernel build) and pulls it to completion.
func runProgram(zctx *zed.Context, prog string, o runOpts, src *batchSource) (res runResult) {
	spillMu.Lock()
	defer spillMu.Unlock()
	spillLk.Lock()
	spillLog = nil
	spillLk.Unlock()
	if o.Timeout == 0 {
		o.Timeout = 60 * time.Second
	}
	ctx, cancel := context.WithTimeout(context.Background(), o.Timeout)
	defer cancel()
	defer func() {
		if r := recover(); r != nil {
			res.Err = fmt.Errorf("panic: %v", r)
		}
		spillLk.Lock()
		res.Spills = append([]int(nil), spillLog...)
		spillLk.Unlock()
	}()
	seq, err := parseCached(prog)
	if err != nil {
		return runResult{Err: err}
	}
	rctx := runtime.NewContext(ctx, zctx)
	defer rctx.Cancel()
	job, err := compiler.NewJob(rctx, seq, data.NewSource(localEngine, nil), nil)
	if err != nil {
		return runResult{Err: err}
	}
	if o.SortKey != nil {
		scan, ok := job.DefaultScan()
		if !ok {
			return runResult{Err: fmt.Errorf("program has no default scan")}
		}
		scan.SortKeys = order.SortKeys{*o.SortKey}
	}
	if o.Mutate != nil {
		o.Mutate(job.Entry())
	}
	if err := job.Optimize(); err != nil {
		return runResult{Err: err}
	}
	res.DAG = zfmt.DAG(job.Entry())
	if src != nil {
		err = job.Build(src)
	} else {
		err = job.Build()
	}
	if err != nil {
		res.Err = err
		return res
	}
	p := job.Puller()
	if p == nil {
		res.Err = fmt.Errorf("no output")
		return res
	}
	for {
		batch, err := p.Pull(false)
		if err != nil {
			res.Err = err
			return res
		}
		if batch == nil {
			return res
		}
		var vals []zed.Value
		for _, v := range batch.Values() {
			vals = append(vals, v.Copy())
		}
		batch.Unref()
		res.Batches = append(res.Batches, vals)
	}
}

// NewLocalEngine builds an S3 client (certificate pool) each time: share one.
var localEngine = storage.NewLocalEngine()

// The PEG parser dominates the cost of a small run; the semantic analyzer
// does not modify the AST, so parsed programs are shared.
var (
	parseMu    sync.Mutex
	parseCache = map[string]ast.Seq{}
)

func parseCached(prog string) (ast.Seq, error) {
	parseMu.Lock()
	defer parseMu.Unlock()
	if seq, ok := parseCache[prog]; ok {
		return seq, nil
	}
	seq, _, err := compiler.Parse(prog)
	if err != nil {
		return nil, err
	}
	parseCache[prog] = seq
	return seq, nil
}

func sortKey(name string, desc bool) *order.SortKey {
	k := order.NewSortKey(order.Which(desc), field.Path{name})
	return &k
}

func parseRows(zctx *zed.Context, rows []string) ([]zed.Value, error) {
	out := make([]zed.Value, 0, len(rows))
	for _, r := range rows {
		v, err := zson.ParseValue(zctx, r)
		if err != nil {
			return nil, fmt.Errorf("parse %s: %w", r, err)
		}
		out = append(out, v)
	}
	return out, nil
}
