package main

// The value universe shared with GroupBy.tla / MergeJoin.tla, the concrete
// rows of a case, the reference ("naive") evaluation of every aggregate and
// the projection of real output rows onto the spec's vocabulary.

import (
	"fmt"
	"math/rand"
	"sort"
	"strings"

	zed "github.com/brimdata/super"
	"github.com/brimdata/super/zson"
)

// tokLit maps a key token of the specs to ZSON.  The missing key is either a
// really absent field or (half of the rows) the value the key expression
// yields for an absent field.
var tokLit = map[string]string{
	"I1": "1", "U1": "1(uint64)", "F1": "1.", "I2": "2", "I3": "3", "S": `"a"`,
	"MISS": `error("missing")`, "NI": "null(int64)", "NS": "null(string)",
}

// litTok is the inverse, applied to zson.FormatValue of a real key value.
var litTok = map[string]string{
	"1": "I1", "1(uint64)": "U1", "1.": "F1", "2": "I2", "3": "I3", `"a"`: "S",
	`error("missing")`: "MISS", "null(int64)": "NI", "null(string)": "NS",
}

var tokOrder = []string{"I1", "U1", "F1", "I2", "I3", "S", "MISS", "NI", "NS"}

func tokIdx(t string) int {
	for i, x := range tokOrder {
		if x == t {
			return i + 1
		}
	}
	return 0
}

// sRank / vRank / sortOpRank mirror the operators of the same names in GroupBy.tla.
func sRank(t string) int {
	switch t {
	case "I1", "U1", "F1":
		return 1
	case "I2":
		return 2
	case "I3":
		return 3
	case "S":
		return 4
	}
	return 6
}

func vRank(t string) int {
	if t == "MISS" {
		return 5
	}
	return sRank(t)
}

func sortOpRank(t string, desc bool) int {
	if sRank(t) == 6 {
		return 99
	}
	if desc {
		return -sRank(t)
	}
	return sRank(t)
}

// key is a (primary token, secondary value) pair.
type key struct {
	P string
	S int
}

func (k key) String() string { return fmt.Sprintf("%s/%d", k.P, k.S) }
func (k key) idx() int       { return tokIdx(k.P)*4 + k.S }

// inRow is one concrete input row.
type inRow struct {
	ID  int    `json:"id"`
	Key key    `json:"key"`
	Leg int    `json:"leg"`
	Abs bool   `json:"abs,omitempty"` // MISS only: the key field is absent (else k:error("missing"))
	V   string `json:"v"`             // "" absent | "null(int64)" | int literal
	B   string `json:"b"`             // "" absent | "null(bool)" | true | false
	W   bool   `json:"w"`
	M   string `json:"m"` // "" absent | int64, float64 or string literal: the heterogeneous argument of cm:=collect(m), um:=union(m)
	F   string `json:"f"` // "" absent (sparse pass only) | {a:int} | {a:"x"}
}

func (r inRow) zson(withSec bool) string {
	var f []string
	if !(r.Key.P == "MISS" && r.Abs) {
		f = append(f, "k:"+tokLit[r.Key.P])
	}
	if withSec {
		f = append(f, fmt.Sprintf("j:%d", r.Key.S))
	}
	f = append(f, fmt.Sprintf("u:%d", r.ID), fmt.Sprintf("s:%d", r.Leg))
	if r.V != "" {
		f = append(f, "v:"+r.V)
	}
	if r.B != "" {
		f = append(f, "b:"+r.B)
	}
	f = append(f, fmt.Sprintf("w:%v", r.W))
	if r.M != "" {
		f = append(f, "m:"+r.M)
	}
	if r.F != "" {
		f = append(f, "f:"+r.F)
	}
	return "{" + strings.Join(f, ",") + "}"
}

// genRows derives the non-key fields of the rows of a case from the seed.
func genRows(keys []key, seed int64) []inRow {
	rng := rand.New(rand.NewSource(seed))
	rows := make([]inRow, len(keys))
	for i, k := range keys {
		r := inRow{ID: i + 1, Key: k, Leg: i % 2, Abs: rng.Intn(2) == 0}
		switch x := rng.Intn(9); {
		case x == 0:
			r.V = ""
		case x == 1:
			r.V = "null(int64)"
		default:
			// never 0: dcount() cannot tell 0 from null(int64) (both have empty bytes), with or without spills
			r.V = fmt.Sprint([]int{-2, -1, 1, 2, 3, 4, 5}[x-2])
		}
		switch rng.Intn(5) {
		case 0:
			r.B = ""
		case 1:
			r.B = "null(bool)"
		case 2, 3:
			r.B = "true"
		default:
			r.B = "false"
		}
		r.W = rng.Intn(2) == 0
		// values of several TYPES per group: a partial of collect()/union() is then an
		// array/set of a union type, and merging partials must give the same typed
		// multiset as consuming the raw values
		r.M = []string{"1", "2", `"s"`, `"t"`, "1.5", "2.5", "7", ""}[rng.Intn(8)]
		// records: fusing bare primitives of one type twice yields union(t,t) (the C20 finding)
		if rng.Intn(3) == 0 {
			r.F = `{a:"x"}`
		} else {
			r.F = fmt.Sprintf("{a:%d}", rng.Intn(3))
		}
		rows[i] = r
	}
	return rows
}

// The aggregates every group-by case is run with.
const aggList = "ids:=collect(u), n:=count(), nw:=count() where w, sm:=sum(v), mn:=min(v), mx:=max(v), av:=avg(v), an:=and(b), o:=or(b), un:=union(v), dc:=dcount(v), fu:=fuse(f), cm:=collect(m), um:=union(m)"

var aggNames = []string{"ids", "n", "nw", "sm", "mn", "mx", "av", "an", "o", "un", "dc", "fu", "cm", "um"}

// refZctx builds the expected container types of the reference results.
var refZctx = zed.NewContext()

func typeOfLit(lit string) zed.Type {
	switch {
	case strings.HasPrefix(lit, `"`):
		return zed.TypeString
	case strings.Contains(lit, "."):
		return zed.TypeFloat64
	}
	return zed.TypeInt64
}

// typedContainer renders the reference value of collect()/union() over the
// given literals: the elements (sorted) and the exact type of the result.
func typedContainer(lits []string, set bool) string {
	if len(lits) == 0 {
		return "null"
	}
	var types []zed.Type
	el := append([]string(nil), lits...)
	if set {
		seen := map[string]bool{}
		el = el[:0]
		for _, l := range lits {
			if !seen[l] {
				seen[l] = true
				el = append(el, l)
			}
		}
	}
	for _, l := range el {
		types = append(types, typeOfLit(l))
	}
	types = zed.UniqueTypes(types)
	inner := types[0]
	if len(types) > 1 {
		inner = refZctx.LookupTypeUnion(types)
	}
	sort.Strings(el)
	if set {
		return "|[" + strings.Join(el, ",") + "]|::" + zson.FormatType(refZctx.LookupTypeSet(inner))
	}
	return "[" + strings.Join(el, ",") + "]::" + zson.FormatType(refZctx.LookupTypeArray(inner))
}

func intsOf(rows []inRow, f func(inRow) string) (vals []int64, nulls int) {
	for _, r := range rows {
		s := f(r)
		switch {
		case s == "":
		case strings.HasPrefix(s, "null"):
			nulls++
		default:
			var n int64
			fmt.Sscan(s, &n)
			vals = append(vals, n)
		}
	}
	return
}

// naive evaluates every aggregate over exactly the given rows, by definition.
func naive(rows []inRow) map[string]string {
	out := map[string]string{}
	var ids []string
	for _, r := range rows {
		ids = append(ids, fmt.Sprint(r.ID))
	}
	out["ids"] = typedContainer(ids, false)
	var ms []string
	for _, r := range rows {
		if r.M != "" && !strings.HasPrefix(r.M, "null") { // collect() and union() skip nulls
			ms = append(ms, r.M)
		}
	}
	out["cm"], out["um"] = typedContainer(ms, false), typedContainer(ms, true)
	out["n"] = fmt.Sprintf("%d(uint64)", len(rows))
	nw := 0
	for _, r := range rows {
		if r.W {
			nw++
		}
	}
	out["nw"] = fmt.Sprintf("%d(uint64)", nw)
	vals, nulls := intsOf(rows, func(r inRow) string { return r.V })
	typedNull := func() string {
		if nulls > 0 {
			return "null(int64)"
		}
		return "null"
	}
	if len(vals) == 0 {
		out["sm"], out["mn"], out["mx"] = typedNull(), typedNull(), typedNull()
		out["av"] = "null(float64)"
		out["un"] = "null"
	} else {
		var sum int64
		mn, mx := vals[0], vals[0]
		set := map[int64]bool{}
		for _, v := range vals {
			sum += v
			if v < mn {
				mn = v
			}
			if v > mx {
				mx = v
			}
			set[v] = true
		}
		out["sm"], out["mn"], out["mx"] = fmt.Sprint(sum), fmt.Sprint(mn), fmt.Sprint(mx)
		out["av"] = zson.FormatValue(zed.NewFloat64(float64(sum) / float64(len(vals))))
		var el []string
		for v := range set {
			el = append(el, fmt.Sprint(v))
		}
		out["un"] = typedContainer(el, true)
	}
	// dcount counts distinct non-missing values, null included
	d := map[int64]bool{}
	for _, v := range vals {
		d[v] = true
	}
	dc := len(d)
	if nulls > 0 {
		dc++
	}
	out["dc"] = fmt.Sprintf("%d(uint64)", dc)
	// and / or over the non-null bools
	var bs []bool
	for _, r := range rows {
		if r.B == "true" || r.B == "false" {
			bs = append(bs, r.B == "true")
		}
	}
	if len(bs) == 0 {
		out["an"], out["o"] = "null(bool)", "null(bool)"
	} else {
		a, o := true, false
		for _, b := range bs {
			a = a && b
			o = o || b
		}
		out["an"], out["o"] = fmt.Sprint(a), fmt.Sprint(o)
	}
	// fuse of the value types present
	hasInt, hasStr := false, false
	for _, r := range rows {
		switch {
		case r.F == "":
		case strings.Contains(r.F, `"`):
			hasStr = true
		default:
			hasInt = true
		}
	}
	switch {
	case hasInt && hasStr:
		out["fu"] = "<{a:(int64,string)}>"
	case hasInt:
		out["fu"] = "<{a:int64}>"
	case hasStr:
		out["fu"] = "<{a:string}>"
	default:
		out["fu"] = "null(type)"
	}
	return out
}

// canon formats a value exactly (ZSON with type decorations); arrays and sets
// are rendered as their elements (each under its own type, sorted, so that
// collect()/union() compare as multisets) followed by the exact type of the
// whole value, so a result that differs only in its type is a different result.
func canon(v zed.Value) string {
	if v.IsNull() {
		return zson.FormatValue(v)
	}
	switch t := v.Type().(type) {
	case *zed.TypeArray:
		return "[" + strings.Join(elems(v, t.Type), ",") + "]::" + zson.FormatType(t)
	case *zed.TypeSet:
		return "|[" + strings.Join(elems(v, t.Type), ",") + "]|::" + zson.FormatType(t)
	}
	return zson.FormatValue(v)
}

func elems(v zed.Value, inner zed.Type) []string {
	var out []string
	for it := v.Iter(); !it.Done(); {
		out = append(out, zson.FormatValue(zed.NewValue(inner, it.Next()).Under()))
	}
	sort.Strings(out)
	return out
}

// outRow is a real output row projected onto the spec's vocabulary.
type outRow struct {
	Key  key               `json:"key"`
	IDs  []int             `json:"ids"`
	Aggs map[string]string `json:"aggs,omitempty"`
	Raw  string            `json:"raw"`
}

func project(v zed.Value, withSec bool) (outRow, error) {
	r := outRow{Raw: zson.FormatValue(v), Aggs: map[string]string{}}
	kv, ok := fieldOf(v, "k")
	if !ok {
		return r, fmt.Errorf("output row without key field: %s", r.Raw)
	}
	tok, ok := litTok[zson.FormatValue(kv)]
	if !ok {
		return r, fmt.Errorf("output row with unknown key %s", r.Raw)
	}
	r.Key.P = tok
	if withSec {
		jv, ok := fieldOf(v, "j")
		if !ok || jv.IsNull() || jv.Type() != zed.TypeInt64 {
			return r, fmt.Errorf("output row without secondary key: %s", r.Raw)
		}
		r.Key.S = int(jv.Int())
	}
	if iv, ok := fieldOf(v, "ids"); ok && !iv.IsNull() {
		if at, ok := zed.TypeUnder(iv.Type()).(*zed.TypeArray); ok && at.Type == zed.TypeInt64 {
			for it := iv.Iter(); !it.Done(); {
				r.IDs = append(r.IDs, int(zed.NewValue(zed.TypeInt64, it.Next()).Int()))
			}
		} else {
			return r, fmt.Errorf("ids is not an array of int64: %s", r.Raw)
		}
	}
	sort.Ints(r.IDs)
	for _, n := range aggNames {
		if f, ok := fieldOf(v, n); ok {
			r.Aggs[n] = canon(f)
		} else {
			r.Aggs[n] = "<absent>"
		}
	}
	return r, nil
}

// fieldOf returns a top-level field of a record (null fields included).
func fieldOf(v zed.Value, name string) (zed.Value, bool) {
	rt := zed.TypeRecordOf(v.Type())
	if rt == nil {
		return zed.Null, false
	}
	i, ok := rt.IndexOfField(name)
	if !ok {
		return zed.Null, false
	}
	it := v.Iter()
	for n := i; n > 0; n-- {
		it.Next()
	}
	return zed.NewValue(rt.Fields[i].Type, it.Next()), true
}

func idsKey(ids []int) string { return fmt.Sprint(ids) }
