package main

// An independent walker over ZNG bytes.  It uses only encoding/binary and the
// LZ4 block decoder -- no code of zngio, zcode or the zed type system -- and
// follows docs/formats/zng.md: frame code, length, optional compression
// header, typedef encodings, (type id, tagged value) pairs.

import (
	"encoding/binary"
	"errors"
	"fmt"

	"github.com/pierrec/lz4/v4"
)

// wDef is a typedef exactly as it appears on the wire.
type wDef struct {
	Kind  string   `json:"kind"`
	Names []string `json:"names"` // field names / the type name / enum symbols
	IDs   []int    `json:"ids"`   // referenced type ids
}

// wVal is one (type id, value) pair of a values frame.
type wVal struct {
	ID   int
	Null bool
	Body []byte
}

type wFrame struct {
	Kind       string // T | V | C | EOS
	Compressed bool
	Off        int // offset of the frame code
	PayloadLen int // uncompressed payload length
	Defs       []wDef
	Vals       []wVal
}

type cursor struct {
	b   []byte
	off int
}

var errShort = errors.New("walker: unexpected end of data")

func (c *cursor) byte() (byte, error) {
	if c.off >= len(c.b) {
		return 0, errShort
	}
	x := c.b[c.off]
	c.off++
	return x, nil
}

func (c *cursor) uvarint() (int, error) {
	v, n := binary.Uvarint(c.b[c.off:])
	if n <= 0 {
		return 0, errShort
	}
	c.off += n
	return int(v), nil
}

func (c *cursor) take(n int) ([]byte, error) {
	if n < 0 || c.off+n > len(c.b) {
		return nil, errShort
	}
	x := c.b[c.off : c.off+n]
	c.off += n
	return x, nil
}

func (c *cursor) str() (string, error) {
	n, err := c.uvarint()
	if err != nil {
		return "", err
	}
	b, err := c.take(n)
	return string(b), err
}

// walk splits data into frames and decodes types and values frames.
func walk(data []byte) ([]wFrame, error) {
	c := &cursor{b: data}
	var out []wFrame
	for c.off < len(c.b) {
		f := wFrame{Off: c.off}
		code, _ := c.byte()
		if code == 0xff {
			f.Kind = "EOS"
			out = append(out, f)
			continue
		}
		if code&0x80 != 0 {
			return out, fmt.Errorf("walker: version bit set in frame code %#x at %d", code, f.Off)
		}
		hi, err := c.uvarint()
		if err != nil {
			return out, err
		}
		length := hi<<4 | int(code&0xf)
		payload, err := c.take(length)
		if err != nil {
			return out, fmt.Errorf("walker: frame at %d: length %d exceeds data", f.Off, length)
		}
		if code&0x40 != 0 {
			f.Compressed = true
			pc := &cursor{b: payload}
			format, err := pc.byte()
			if err != nil {
				return out, err
			}
			if format != 0 {
				return out, fmt.Errorf("walker: unknown compression format %d", format)
			}
			size, err := pc.uvarint()
			if err != nil {
				return out, err
			}
			u := make([]byte, size)
			n, err := lz4.UncompressBlock(payload[pc.off:], u)
			if err != nil {
				return out, fmt.Errorf("walker: lz4: %w", err)
			}
			if n != size {
				return out, fmt.Errorf("walker: lz4: got %d bytes, header says %d", n, size)
			}
			payload = u
		}
		f.PayloadLen = len(payload)
		switch (code >> 4) & 3 {
		case 0:
			f.Kind = "T"
			f.Defs, err = walkDefs(payload)
		case 1:
			f.Kind = "V"
			f.Vals, err = walkVals(payload)
		case 2:
			f.Kind = "C"
		default:
			err = fmt.Errorf("walker: frame type 3 in code %#x", code)
		}
		if err != nil {
			return out, fmt.Errorf("frame at %d: %w", f.Off, err)
		}
		out = append(out, f)
	}
	return out, nil
}

func walkDefs(p []byte) ([]wDef, error) {
	c := &cursor{b: p}
	var out []wDef
	ids := func(n int, d *wDef) error {
		for i := 0; i < n; i++ {
			id, err := c.uvarint()
			if err != nil {
				return err
			}
			d.IDs = append(d.IDs, id)
		}
		return nil
	}
	for c.off < len(c.b) {
		code, _ := c.byte()
		d := wDef{Names: []string{}, IDs: []int{}}
		var err error
		switch code {
		case 0:
			d.Kind = "record"
			var n int
			if n, err = c.uvarint(); err != nil {
				return out, err
			}
			for i := 0; i < n; i++ {
				name, err := c.str()
				if err != nil {
					return out, err
				}
				d.Names = append(d.Names, name)
				if err := ids(1, &d); err != nil {
					return out, err
				}
			}
		case 1:
			d.Kind = "array"
			err = ids(1, &d)
		case 2:
			d.Kind = "set"
			err = ids(1, &d)
		case 3:
			d.Kind = "map"
			err = ids(2, &d)
		case 4:
			d.Kind = "union"
			var n int
			if n, err = c.uvarint(); err != nil {
				return out, err
			}
			err = ids(n, &d)
		case 5:
			d.Kind = "enum"
			var n int
			if n, err = c.uvarint(); err != nil {
				return out, err
			}
			for i := 0; i < n; i++ {
				s, err := c.str()
				if err != nil {
					return out, err
				}
				d.Names = append(d.Names, s)
			}
		case 6:
			d.Kind = "error"
			err = ids(1, &d)
		case 7:
			d.Kind = "named"
			var name string
			if name, err = c.str(); err != nil {
				return out, err
			}
			d.Names = append(d.Names, name)
			err = ids(1, &d)
		default:
			return out, fmt.Errorf("walker: unknown typedef code %d", code)
		}
		if err != nil {
			return out, err
		}
		out = append(out, d)
	}
	return out, nil
}

func walkVals(p []byte) ([]wVal, error) {
	c := &cursor{b: p}
	var out []wVal
	for c.off < len(c.b) {
		id, err := c.uvarint()
		if err != nil {
			return out, err
		}
		tag, err := c.uvarint()
		if err != nil {
			return out, err
		}
		v := wVal{ID: id}
		if tag == 0 {
			v.Null = true
		} else {
			body, err := c.take(tag - 1)
			if err != nil {
				return out, err
			}
			v.Body = append([]byte{}, body...)
		}
		out = append(out, v)
	}
	return out, nil
}

// checkStreamDiscipline verifies, without any type system, the format rules
// the round trip depends on: per stream (reset at EOS) every type id used by a
// typedef or a value is a primitive id or was defined earlier in that stream.
// The number of ids a stream defines is at most the number of typedefs seen
// (a repeated typedef need not allocate a new id), so a reference is certainly
// dangling if it exceeds 30 + typedefs so far.
func checkStreamDiscipline(frames []wFrame) error {
	defs := 0
	for _, f := range frames {
		switch f.Kind {
		case "EOS":
			defs = 0
		case "T":
			for _, d := range f.Defs {
				for _, id := range d.IDs {
					if id >= 30+defs {
						return fmt.Errorf("typedef at frame %d refers to type id %d but only %d typedefs precede it in this stream", f.Off, id, defs)
					}
				}
				defs++
			}
		case "V":
			for _, v := range f.Vals {
				if v.ID >= 30+defs {
					return fmt.Errorf("value in frame at %d has type id %d but only %d typedefs precede it in this stream", f.Off, v.ID, defs)
				}
			}
		}
	}
	return nil
}
