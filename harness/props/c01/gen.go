package main

// Type-directed random value generator over the whole Zed type system:
// boundary primitives, nulls of every type, empty containers, records with
// odd field names, arrays, sets, maps, unions, enums, errors, named types
// (with names that are re-bound to other types) and type values.

import (
	"fmt"
	"math"
	"math/rand"
	"net/netip"

	zed "github.com/brimdata/super"
	"github.com/brimdata/super/pkg/nano"
	"github.com/brimdata/super/zcode"
)

type gen struct {
	rng   *rand.Rand
	zctxs []*zed.Context
}

var primTypes = []zed.Type{
	zed.TypeUint8, zed.TypeUint16, zed.TypeUint32, zed.TypeUint64,
	zed.TypeInt8, zed.TypeInt16, zed.TypeInt32, zed.TypeInt64,
	zed.TypeDuration, zed.TypeTime, zed.TypeFloat16, zed.TypeFloat32, zed.TypeFloat64,
	zed.TypeBool, zed.TypeBytes, zed.TypeString, zed.TypeIP, zed.TypeNet, zed.TypeType, zed.TypeNull,
}

var fieldNames = []string{"a", "b", "c", "type", "a b", "é", "", "0", "_path", "x.y", "A", " a"}

// enumSymbols: empty symbols in first, middle and last position, look-alikes,
// multi-byte symbols, a long symbol.
var enumSymbols = [][]string{
	{"a"}, {"a", "b", "c"}, {"x y", "é"}, {""}, {"", "a"}, {"a", "", "b"}, {"a", ""},
	{"a", "A", " a", "a "}, {"é", "日本語", ""}, {"b", "bb", "bbb", ""},
}
var typeNames = []string{"n", "m", "port", "n"} // "n" twice: frequently re-bound

func (g *gen) pick(n int) int { return g.rng.Intn(n) }

// typ returns a random type of nesting depth <= depth in zctx.
func (g *gen) typ(zctx *zed.Context, depth int) zed.Type {
	if depth <= 0 || g.pick(10) < 3 {
		return primTypes[g.pick(len(primTypes))]
	}
	switch g.pick(9) {
	case 0, 1:
		n := g.pick(4)
		var fields []zed.Field
		used := map[string]bool{}
		for i := 0; i < n; i++ {
			name := fieldNames[g.pick(len(fieldNames))]
			if used[name] {
				continue
			}
			used[name] = true
			fields = append(fields, zed.NewField(name, g.typ(zctx, depth-1)))
		}
		if !used[""] && g.pick(4) == 0 {
			// a record whose last field name is empty
			fields = append(fields, zed.NewField("", g.typ(zctx, depth-1)))
		}
		t, err := zctx.LookupTypeRecord(fields)
		if err != nil {
			panic(err)
		}
		return t
	case 2:
		return zctx.LookupTypeArray(g.typ(zctx, depth-1))
	case 3:
		return zctx.LookupTypeSet(g.typ(zctx, depth-1))
	case 4:
		return zctx.LookupTypeMap(g.typ(zctx, depth-1), g.typ(zctx, depth-1))
	case 5:
		n := 2 + g.pick(2)
		var types []zed.Type
		seen := map[zed.Type]bool{}
		for i := 0; i < n; i++ {
			t := g.typ(zctx, depth-1)
			if _, isUnion := t.(*zed.TypeUnion); isUnion || seen[t] {
				continue
			}
			seen[t] = true
			types = append(types, t)
		}
		if len(types) < 2 {
			return zctx.LookupTypeUnion([]zed.Type{zed.TypeInt64, zed.TypeString})
		}
		return zctx.LookupTypeUnion(types)
	case 6:
		return zctx.LookupTypeEnum(enumSymbols[g.pick(len(enumSymbols))])
	case 7:
		return zctx.LookupTypeError(g.typ(zctx, depth-1))
	default:
		t, err := zctx.LookupTypeNamed(typeNames[g.pick(len(typeNames))], g.typ(zctx, depth-1))
		if err != nil {
			panic(err)
		}
		return t
	}
}

var (
	uints  = []uint64{0, 1, 127, 128, 255, 256, 65535, 65536, math.MaxUint32, math.MaxUint32 + 1, math.MaxInt64, math.MaxUint64}
	ints   = []int64{0, 1, -1, 63, 64, -64, -65, 127, -128, 32767, -32768, math.MaxInt32, math.MinInt32, math.MaxInt64, math.MinInt64}
	floats = []float64{0, math.Copysign(0, -1), 1, -1.5, math.Inf(1), math.Inf(-1), math.NaN(), math.MaxFloat64, math.SmallestNonzeroFloat64, 65504}
	strs   = []string{"", "a", "foo bar", "é", "\x00", "\"quoted\"", "日本語", "line\nbreak"}
	ips    = []string{"0.0.0.0", "255.255.255.255", "10.1.2.3", "::", "::1", "2001:db8::1", "ffff:ffff:ffff:ffff:ffff:ffff:ffff:ffff"}
	nets   = []string{"0.0.0.0/0", "10.0.0.0/8", "192.168.1.0/24", "1.2.3.4/32", "::/0", "2001:db8::/32", "::1/128"}
)

func clampUint(v uint64, bits uint) uint64 {
	if bits >= 64 {
		return v
	}
	return v & (1<<bits - 1)
}

func clampInt(v int64, bits uint) int64 {
	if bits >= 64 {
		return v
	}
	lo, hi := -(int64(1) << (bits - 1)), int64(1)<<(bits-1)-1
	if v < lo {
		return lo
	}
	if v > hi {
		return hi
	}
	return v
}

// body appends one value of type t to b (as an element of the enclosing
// container).  About one value in eight is null.
func (g *gen) body(zctx *zed.Context, t zed.Type, b *zcode.Builder, depth int) {
	if g.pick(8) == 0 || t == zed.TypeNull {
		b.Append(nil)
		return
	}
	switch t := t.(type) {
	case *zed.TypeNamed:
		g.body(zctx, t.Type, b, depth)
	case *zed.TypeRecord:
		b.BeginContainer()
		for _, f := range t.Fields {
			g.body(zctx, f.Type, b, depth-1)
		}
		b.EndContainer()
	case *zed.TypeArray:
		b.BeginContainer()
		for i, n := 0, g.pick(4); i < n; i++ {
			g.body(zctx, t.Type, b, depth-1)
		}
		b.EndContainer()
	case *zed.TypeSet:
		b.BeginContainer()
		for i, n := 0, g.pick(4); i < n; i++ {
			g.body(zctx, t.Type, b, depth-1)
		}
		b.TransformContainer(zed.NormalizeSet)
		b.EndContainer()
	case *zed.TypeMap:
		b.BeginContainer()
		for i, n := 0, g.pick(3); i < n; i++ {
			g.body(zctx, t.KeyType, b, depth-1)
			g.body(zctx, t.ValType, b, depth-1)
		}
		b.TransformContainer(zed.NormalizeMap)
		b.EndContainer()
	case *zed.TypeUnion:
		tag := g.pick(len(t.Types))
		b.BeginContainer()
		b.Append(zed.EncodeInt(int64(tag)))
		g.body(zctx, t.Types[tag], b, depth-1)
		b.EndContainer()
	case *zed.TypeEnum:
		b.Append(zed.EncodeUint(uint64(g.pick(len(t.Symbols)))))
	case *zed.TypeError:
		g.body(zctx, t.Type, b, depth-1)
	default:
		b.Append(g.prim(zctx, t))
	}
}

func (g *gen) prim(zctx *zed.Context, t zed.Type) zcode.Bytes {
	switch t {
	case zed.TypeUint8:
		return zed.EncodeUint(clampUint(uints[g.pick(len(uints))], 8))
	case zed.TypeUint16:
		return zed.EncodeUint(clampUint(uints[g.pick(len(uints))], 16))
	case zed.TypeUint32:
		return zed.EncodeUint(clampUint(uints[g.pick(len(uints))], 32))
	case zed.TypeUint64:
		return zed.EncodeUint(uints[g.pick(len(uints))])
	case zed.TypeInt8:
		return zed.EncodeInt(clampInt(ints[g.pick(len(ints))], 8))
	case zed.TypeInt16:
		return zed.EncodeInt(clampInt(ints[g.pick(len(ints))], 16))
	case zed.TypeInt32:
		return zed.EncodeInt(clampInt(ints[g.pick(len(ints))], 32))
	case zed.TypeInt64:
		return zed.EncodeInt(ints[g.pick(len(ints))])
	case zed.TypeDuration:
		return zed.EncodeDuration(nano.Duration(ints[g.pick(len(ints))]))
	case zed.TypeTime:
		return zed.EncodeTime(nano.Ts(ints[g.pick(len(ints))]))
	case zed.TypeFloat16:
		return zed.EncodeFloat16(float32(floats[g.pick(len(floats))]))
	case zed.TypeFloat32:
		return zed.EncodeFloat32(float32(floats[g.pick(len(floats))]))
	case zed.TypeFloat64:
		return zed.EncodeFloat64(floats[g.pick(len(floats))])
	case zed.TypeBool:
		return zed.EncodeBool(g.pick(2) == 0)
	case zed.TypeBytes:
		return zed.EncodeBytes([]byte(strs[g.pick(len(strs))]))
	case zed.TypeString:
		return zed.EncodeString(strs[g.pick(len(strs))])
	case zed.TypeIP:
		return zed.EncodeIP(netip.MustParseAddr(ips[g.pick(len(ips))]))
	case zed.TypeNet:
		return zed.EncodeNet(netip.MustParsePrefix(nets[g.pick(len(nets))]))
	case zed.TypeType:
		return zed.EncodeTypeValue(g.typ(zctx, 2))
	}
	panic(fmt.Sprintf("prim: %T", t))
}

// value returns a random value whose type lives in one of the generator's
// contexts.  Some primitive values are returned in native representation.
func (g *gen) value(depth int) zed.Value {
	zctx := g.zctxs[g.pick(len(g.zctxs))]
	t := g.typ(zctx, depth)
	if g.pick(6) == 0 {
		switch t {
		case zed.TypeInt64:
			return zed.NewInt64(ints[g.pick(len(ints))])
		case zed.TypeUint64:
			return zed.NewUint64(uints[g.pick(len(uints))])
		case zed.TypeFloat64:
			return zed.NewFloat64(floats[g.pick(len(floats))])
		case zed.TypeBool:
			return zed.NewBool(true)
		case zed.TypeString:
			return zed.NewString(strs[g.pick(len(strs))])
		}
	}
	b := zcode.NewBuilder()
	g.body(zctx, t, b, depth)
	it := b.Bytes().Iter()
	return zed.NewValue(t, it.Next()).Copy()
}
