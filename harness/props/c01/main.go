// C01 -- ZNG binary stream round trip is the identity.
//
// Structure of the check (see run):
//
//	A. Wire protocol.  TLC explores ZngStream.tla (every script of Write /
//	   EndStream operations over a small universe of type tokens drawn from two
//	   type contexts, every frame threshold) and checks that the modelled
//	   reader reconstructs exactly what was written.  Every script is printed
//	   with the wire the specification predicts; the harness replays it on the
//	   real zngio.Writer, projects the real bytes with an independent frame
//	   walker and compares frame by frame (kinds, typedefs, type ids, value
//	   bytes), then reads the bytes back with the real reader.
//	B. Scanner protocol.  TLC explores ZngScanner.tla (parser / workers /
//	   consumer over the channels of scanner.go, every interleaving) and
//	   prints the reachable worker completion orders.  Each order is forced on
//	   the real threaded reader by blocking workers in the zngio.worker.done
//	   hook; the delivered values must equal the written ones.
//	C. Matrix.  Random value sequences over the whole type system x writer
//	   options x reader options (threads, read-buffer size, validation,
//	   one-byte reads, Read and Pull APIs), round trip must be the identity.
//	D. Every hook trace recorded in B and C is validated by TLC against
//	   ZngScannerTrace.tla, with corrupted traces as negative controls.
package main

import (
	"bytes"
	"context"
	"encoding/json"
	"fmt"
	"io"
	"math/rand"
	"regexp"
	"runtime"
	"sort"
	"strconv"
	"strings"
	"sync"
	"testing/iotest"
	"time"

	zed "github.com/brimdata/super"
	"github.com/brimdata/super/pkg/verif"
	"github.com/brimdata/super/zbuf"
	"github.com/brimdata/super/zcode"
	"github.com/brimdata/super/zio"
	"github.com/brimdata/super/zio/zngio"
	"github.com/brimdata/super/zson"

	"verif/core"
)

// ------------------------------------------------------------------ values

// wr is a written value in context-independent form.
type wr struct {
	Type  string // zson.FormatType
	TV    []byte // serialized type value
	Null  bool
	Bytes []byte
}

func project(v zed.Value) wr {
	return wr{Type: zson.FormatType(v.Type()), TV: zed.EncodeTypeValue(v.Type()), Null: v.IsNull(),
		Bytes: append([]byte{}, v.Bytes()...)}
}

// diff classifies the first difference between what was written and what
// was read ("" = identical).
func diff(want, got []wr) (class, detail string) {
	for i := range want {
		if i >= len(got) {
			return "count", fmt.Sprintf("%d values written, %d read", len(want), len(got))
		}
		w, g := want[i], got[i]
		if w.Type != g.Type || !bytes.Equal(w.TV, g.TV) {
			// Is it a reordering?
			for j := range got {
				if j != i && got[j].Type == w.Type && bytes.Equal(got[j].Bytes, w.Bytes) {
					return "order", fmt.Sprintf("value %d: written %s, read %s (the written value appears at position %d)", i, w.Type, g.Type, j)
				}
			}
			return "type", fmt.Sprintf("value %d: written type %s, read type %s", i, w.Type, g.Type)
		}
		if w.Null != g.Null || !bytes.Equal(w.Bytes, g.Bytes) {
			for j := range got {
				if j != i && got[j].Type == w.Type && bytes.Equal(got[j].Bytes, w.Bytes) && got[j].Null == w.Null {
					return "order", fmt.Sprintf("value %d of type %s appears at position %d", i, w.Type, j)
				}
			}
			return "bytes", fmt.Sprintf("value %d of type %s: written %x (null=%v), read %x (null=%v)", i, w.Type, w.Bytes, w.Null, g.Bytes, g.Null)
		}
	}
	if len(got) > len(want) {
		return "count", fmt.Sprintf("%d values written, %d read", len(want), len(got))
	}
	return "", ""
}

// ------------------------------------------------------------- reader side

type readerCfg struct {
	Threads  int  `json:"threads"`
	Size     int  `json:"size,omitempty"`
	Validate bool `json:"validate,omitempty"`
	OneByte  bool `json:"onebyte,omitempty"` // the input delivers one byte per Read call
	Pull     bool `json:"pull,omitempty"`    // NewScanner/Pull instead of Read
	Procs    int  `json:"procs,omitempty"`   // GOMAXPROCS during the read (0 = unchanged)
}

// hookEvent is one line of the trace validated by ZngScannerTrace.tla.
type hookEvent struct {
	T  int    `json:"t"`
	E  string `json:"e"`
	F  int    `json:"f"`
	W  int    `json:"w"`
	Ep int    `json:"ep"`
}

type beginEvent struct {
	T       int    `json:"t"`
	E       string `json:"e"`
	Threads int    `json:"threads"`
	NFrames int    `json:"nframes"`
	Eos     []int  `json:"eos"`
}

// gateDeadline bounds how long a forced completion order is waited for.  An
// order becomes infeasible when the code under test deviates from the
// specification (e.g. the parser stops after an error); the gate then opens
// and the execution is judged by the oracle alone.
const gateDeadline = 8 * time.Second

// gate records the scanner's hook events and optionally forces the order in
// which workers complete frames.
type gate struct {
	mu       sync.Mutex
	cond     *sync.Cond
	frames   map[any]int // resultCh -> frame ordinal
	workers  map[any]int
	epochs   map[any]int
	events   []hookEvent
	order    []int // forced completion order (nil = free running)
	pos      int
	timedOut bool
	deadline time.Time
}

func newGate(order []int) *gate {
	g := &gate{frames: map[any]int{}, workers: map[any]int{}, epochs: map[any]int{}, order: order,
		deadline: time.Now().Add(gateDeadline)}
	g.cond = sync.NewCond(&g.mu)
	return g
}

func index(m map[any]int, k any) int {
	if i, ok := m[k]; ok {
		return i
	}
	m[k] = len(m) + 1
	return len(m)
}

// wait blocks on the condition until ok() or the deadline.
func (g *gate) wait(ok func() bool) bool {
	for !ok() {
		if g.timedOut || time.Now().After(g.deadline) {
			g.timedOut = true
			g.cond.Broadcast()
			return false
		}
		g.cond.Wait()
	}
	return true
}

func (g *gate) hook(site string, args ...any) {
	switch site {
	case "zngio.dispatch":
		g.mu.Lock()
		f := len(g.frames) + 1
		g.frames[args[1]] = f
		g.events = append(g.events, hookEvent{E: "dispatch", F: f, W: index(g.workers, args[0]), Ep: index(g.epochs, args[2])})
		g.cond.Broadcast()
		g.mu.Unlock()
	case "zngio.worker.done":
		g.mu.Lock()
		// The dispatch hook runs after the hand-over; wait until the frame is known.
		g.wait(func() bool { _, ok := g.frames[args[1]]; return ok })
		f := g.frames[args[1]]
		if g.order != nil && f != 0 {
			g.wait(func() bool { return g.pos < len(g.order) && g.order[g.pos] == f })
			g.pos++
		}
		g.events = append(g.events, hookEvent{E: "done", F: f, W: index(g.workers, args[0])})
		g.cond.Broadcast()
		g.mu.Unlock()
	case "zngio.deliver":
		g.mu.Lock()
		g.events = append(g.events, hookEvent{E: "deliver", F: g.frames[args[0]]})
		g.mu.Unlock()
	}
}

// ticker wakes waiting hooks so that deadlines are noticed.
func (g *gate) ticker(stop chan struct{}) {
	t := time.NewTicker(200 * time.Millisecond)
	defer t.Stop()
	for {
		select {
		case <-stop:
			return
		case <-t.C:
			g.mu.Lock()
			g.cond.Broadcast()
			g.mu.Unlock()
		}
	}
}

type readResult struct {
	vals   []wr
	err    error
	events []hookEvent
	stuck  bool
}

// readBack reads data with the real reader.  Threaded reads are recorded (and
// optionally scheduled) through the verif hooks.
func readBack(data []byte, cfg readerCfg, order []int) (res readResult) {
	if cfg.Procs > 0 {
		defer runtime.GOMAXPROCS(runtime.GOMAXPROCS(cfg.Procs))
	}
	var r io.Reader = bytes.NewReader(data)
	if cfg.OneByte {
		r = iotest.OneByteReader(r)
	}
	var g *gate
	if cfg.Threads != 1 {
		g = newGate(order)
		stop := make(chan struct{})
		go g.ticker(stop)
		verif.SetHook(g.hook)
		defer func() {
			verif.SetHook(nil)
			close(stop)
			g.mu.Lock()
			res.events = g.events
			res.stuck = g.timedOut
			g.mu.Unlock()
		}()
	}
	zr := zngio.NewReaderWithOpts(zed.NewContext(), r, zngio.ReaderOpts{Threads: cfg.Threads, Size: cfg.Size, Validate: cfg.Validate})
	defer zr.Close()
	if cfg.Pull {
		sc, err := zr.NewScanner(context.Background(), nil)
		if err != nil {
			res.err = err
			return res
		}
		for {
			b, err := sc.Pull(false)
			if err != nil {
				if _, ok := err.(*zbuf.Control); ok {
					continue
				}
				res.err = err
				return res
			}
			if b == nil {
				return res
			}
			for _, v := range b.Values() {
				res.vals = append(res.vals, project(v))
			}
			b.Unref()
		}
	}
	for {
		v, err := zr.Read()
		if err != nil {
			res.err = err
			return res
		}
		if v == nil {
			return res
		}
		res.vals = append(res.vals, project(*v))
	}
}

// ------------------------------------------------------------ part A: wire

type sOp struct {
	Op string `json:"op"`
	C  int    `json:"c"`
	T  string `json:"t"`
}

type sFrame struct {
	K    string  `json:"k"`
	Defs []wDef  `json:"defs"`
	Vals [][]any `json:"vals"` // [id, ctx, token]
}

type sCase struct {
	Thresh int      `json:"thresh"`
	Script []sOp    `json:"script"`
	Wire   []sFrame `json:"wire"`
}

const valSize = 10 // ZngStream.tla ValSize: uvarint(id) + tag + body

// valBytes mirrors ValBytes of ZngStream.tla.
func valBytes(token string) int {
	if token == "E" {
		return 3
	}
	return valSize
}

// tokens builds, in two type contexts, one value per type token of
// ZngStream.tla whose encoding is exactly valSize bytes.
type tokens struct {
	vals map[string]zed.Value // "<ctx>/<token>"
}

func intOfLen(n int) (zcode.Bytes, error) {
	for k := 0; k < 63; k++ {
		if b := zed.EncodeInt(int64(1)<<k - 1); len(b) == n {
			return b, nil
		}
	}
	return nil, fmt.Errorf("no int64 encodes in %d bytes", n)
}

func newTokens() (*tokens, error) {
	tk := &tokens{vals: map[string]zed.Value{}}
	for c := 1; c <= 2; c++ {
		zctx := zed.NewContext()
		rec := func(fields ...zed.Field) *zed.TypeRecord {
			t, err := zctx.LookupTypeRecord(fields)
			if err != nil {
				panic(err)
			}
			return t
		}
		R := rec(zed.NewField("a", zed.TypeInt64))
		A := zctx.LookupTypeArray(R)
		N1, _ := zctx.LookupTypeNamed("n", R)
		N2, _ := zctx.LookupTypeNamed("n", zed.TypeInt64) // re-binds the name
		RN := rec(zed.NewField("f", N1), zed.NewField("g", zed.TypeString))
		U := zctx.LookupTypeUnion([]zed.Type{zed.TypeInt64, zed.TypeString})
		E := zctx.LookupTypeEnum([]string{"a", ""}) // the typedef ends with an empty counted string
		RE := rec(zed.NewField("a", zed.TypeInt64), zed.NewField("", zed.TypeInt64))
		put := func(token string, t zed.Type, build func(b *zcode.Builder) error) error {
			b := zcode.NewBuilder()
			if err := build(b); err != nil {
				return err
			}
			it := b.Bytes().Iter()
			v := zed.NewValue(t, it.Next()).Copy()
			if n := 1 + len(zcode.Append(nil, v.Bytes())); n != valBytes(token) {
				return fmt.Errorf("token %s encodes in %d bytes, ZngStream.tla assumes %d", token, n, valBytes(token))
			}
			tk.vals[fmt.Sprintf("%d/%s", c, token)] = v
			return nil
		}
		intv := func(n int) func(b *zcode.Builder) error {
			return func(b *zcode.Builder) error {
				x, err := intOfLen(n)
				if err != nil {
					return err
				}
				b.Append(x)
				return nil
			}
		}
		recOf := func(n int) func(b *zcode.Builder) error {
			return func(b *zcode.Builder) error {
				b.BeginContainer()
				err := intv(n)(b)
				b.EndContainer()
				return err
			}
		}
		steps := []struct {
			tok   string
			typ   zed.Type
			build func(b *zcode.Builder) error
		}{
			{"int", zed.TypeInt64, intv(8)},
			{"R", R, recOf(7)},
			{"A", A, func(b *zcode.Builder) error {
				b.BeginContainer()
				err := recOf(6)(b)
				b.EndContainer()
				return err
			}},
			{"N1", N1, recOf(7)},
			{"N2", N2, intv(8)},
			{"RN", RN, func(b *zcode.Builder) error {
				b.BeginContainer()
				err := recOf(1)(b)
				b.Append(zed.EncodeString("wxyz"))
				b.EndContainer()
				return err
			}},
			{"U", U, func(b *zcode.Builder) error {
				zed.BuildUnion(b, U.TagOf(zed.TypeString), zed.EncodeString("hello"))
				return nil
			}},
			{"E", E, func(b *zcode.Builder) error {
				b.Append(zed.EncodeUint(1))
				return nil
			}},
			{"RE", RE, func(b *zcode.Builder) error {
				b.BeginContainer()
				err := intv(3)(b)
				if err == nil {
					err = intv(3)(b)
				}
				b.EndContainer()
				return err
			}},
		}
		for _, s := range steps {
			if err := put(s.tok, s.typ, s.build); err != nil {
				return nil, err
			}
		}
	}
	return tk, nil
}

type scriptWitness struct {
	Kind     string    `json:"kind"` // "script"
	Thresh   int       `json:"thresh"`
	Script   []sOp     `json:"script"`
	Compress bool      `json:"compress"`
	Concat   bool      `json:"concat"`
	Reader   readerCfg `json:"reader"`
	Detail   string    `json:"detail,omitempty"`
}

func scriptKey(ops []sOp) string {
	var b strings.Builder
	for _, o := range ops {
		if o.Op == "eos" {
			b.WriteString("|")
		} else {
			fmt.Fprintf(&b, "%s%d,", o.T, o.C)
		}
	}
	return b.String()
}

// writeScript runs the operations on the real writer.
func writeScript(tk *tokens, cs *sCase, compress, concat bool) ([]byte, []wr, error) {
	var buf bytes.Buffer
	opts := zngio.WriterOpts{Compress: compress, FrameThresh: cs.Thresh}
	w := zngio.NewWriterWithOpts(zio.NopCloser(&buf), opts)
	var written []wr
	for _, o := range cs.Script {
		switch o.Op {
		case "write":
			v, ok := tk.vals[fmt.Sprintf("%d/%s", o.C, o.T)]
			if !ok {
				return nil, nil, fmt.Errorf("no value for token %d/%s", o.C, o.T)
			}
			if err := w.Write(v); err != nil {
				return nil, nil, err
			}
			written = append(written, project(v))
		case "eos":
			if concat {
				// an independently written stream appended to the same output
				if err := w.Close(); err != nil {
					return nil, nil, err
				}
				w = zngio.NewWriterWithOpts(zio.NopCloser(&buf), opts)
			} else if err := w.EndStream(); err != nil {
				return nil, nil, err
			}
		}
	}
	if err := w.Close(); err != nil {
		return nil, nil, err
	}
	return buf.Bytes(), written, nil
}

// compareWire compares the walker's projection of the real bytes with the
// wire predicted by ZngStream.tla.
func compareWire(tk *tokens, cs *sCase, frames []wFrame) string {
	if len(frames) != len(cs.Wire) {
		return fmt.Sprintf("%d frames on the wire, specification predicts %d", len(frames), len(cs.Wire))
	}
	for i, sf := range cs.Wire {
		rf := frames[i]
		if rf.Kind != sf.K {
			return fmt.Sprintf("frame %d is %s, specification predicts %s", i, rf.Kind, sf.K)
		}
		switch sf.K {
		case "T":
			a, _ := json.Marshal(rf.Defs)
			b, _ := json.Marshal(sf.Defs)
			if !bytes.Equal(a, b) {
				return fmt.Sprintf("types frame %d holds %s, specification predicts %s", i, a, b)
			}
		case "V":
			if len(rf.Vals) != len(sf.Vals) {
				return fmt.Sprintf("values frame %d holds %d values, specification predicts %d", i, len(rf.Vals), len(sf.Vals))
			}
			for j, sv := range sf.Vals {
				id := int(sv[0].(float64))
				key := fmt.Sprintf("%d/%s", int(sv[1].(float64)), sv[2].(string))
				if rf.Vals[j].ID != id {
					return fmt.Sprintf("values frame %d value %d has type id %d, specification predicts %d", i, j, rf.Vals[j].ID, id)
				}
				if want := tk.vals[key].Bytes(); !bytes.Equal(rf.Vals[j].Body, want) {
					return fmt.Sprintf("values frame %d value %d has body %x, written %x", i, j, rf.Vals[j].Body, want)
				}
			}
		}
	}
	return ""
}

var readerCycle = []readerCfg{
	{Threads: 1}, {Threads: 2, Pull: true}, {Threads: 3, Validate: true}, {Threads: 16, Size: 16},
	{Threads: 1, OneByte: true, Size: 1, Pull: true}, {Threads: 2, OneByte: true, Validate: true},
}

type checker struct {
	c         *core.Ctx
	tk        *tokens
	traces    []*traceRec
	maxTraces int
	// number of forced-order reads on which the gate timed out
	gateTimeouts int
}

type traceRec struct {
	id      int
	threads int
	nframes int
	eos     []int
	events  []hookEvent
	what    string
	bad     bool // the round-trip oracle failed on this execution
}

// addTrace keeps a threaded read's hook trace for validation by TLC.  The
// tier's budget bounds the number of traces; executions on which the oracle
// failed are always kept.
func (ck *checker) addTrace(threads int, data []byte, events []hookEvent, what string, bad bool) {
	if threads == 1 || len(events) == 0 {
		return
	}
	if len(ck.traces) >= ck.maxTraces && !bad {
		ck.c.Add("hook_traces_not_validated", 1)
		return
	}
	frames, err := walk(data)
	if err != nil {
		return
	}
	tr := &traceRec{id: len(ck.traces) + 1, threads: threads, events: events, what: what, bad: bad, eos: []int{}}
	for _, f := range frames {
		switch f.Kind {
		case "V":
			tr.nframes++
		case "EOS":
			if tr.nframes > 0 {
				tr.eos = append(tr.eos, tr.nframes)
			}
		}
	}
	ck.traces = append(ck.traces, tr)
}

func (ck *checker) runScriptCase(i int, cs *sCase) {
	compress, concat := i%2 == 1, i%3 == 2
	rc := readerCycle[i%len(readerCycle)]
	w := scriptWitness{Kind: "script", Thresh: cs.Thresh, Script: cs.Script, Compress: compress, Concat: concat, Reader: rc}
	ck.scriptOracle(w, cs)
}

func (ck *checker) scriptOracle(w scriptWitness, cs *sCase) {
	c := ck.c
	data, written, err := writeScript(ck.tk, cs, w.Compress, w.Concat)
	if err != nil {
		w.Detail = err.Error()
		c.Violate("roundtrip:script:write-error", "writing a valid value sequence fails: "+err.Error(), w)
		return
	}
	nontrivial := false
	frames, werr := walk(data)
	if werr != nil {
		c.Drift("script %s thresh %d: the frame walker cannot parse the writer's output: %v", scriptKey(cs.Script), cs.Thresh, werr)
	} else {
		nv := 0
		for _, f := range frames {
			if f.Kind == "V" {
				nv++
			}
		}
		nontrivial = nv >= 2 || len(frames) >= 4
		if cs.Wire != nil {
			if d := compareWire(ck.tk, cs, frames); d != "" {
				c.Drift("script %s thresh %d compress=%v concat=%v: %s", scriptKey(cs.Script), cs.Thresh, w.Compress, w.Concat, d)
				c.Add("wire_mismatches", 1)
			} else {
				c.Add("wires_equal_to_spec", 1)
			}
		}
		if err := checkStreamDiscipline(frames); err != nil {
			c.Drift("script %s thresh %d: %v", scriptKey(cs.Script), cs.Thresh, err)
			c.Add("wire_discipline_errors", 1)
		}
	}
	c.Eval(fmt.Sprintf("script|%d|%s|%v|%v|%+v", cs.Thresh, scriptKey(cs.Script), w.Compress, w.Concat, w.Reader), nontrivial)
	res := readBack(data, w.Reader, nil)
	bad := ck.judge("script", written, res, w, func(detail string) any { w.Detail = detail; return w })
	ck.addTrace(w.Reader.Threads, data, res.events, "script "+scriptKey(cs.Script), bad)
}

// judge applies the property's oracle to one read-back.
func (ck *checker) judge(part string, written []wr, res readResult, w any, wit func(string) any) bool {
	c := ck.c
	if res.err != nil {
		c.Violate("roundtrip:"+part+":read-error", fmt.Sprintf("reading back a stream written without error fails: %v", res.err), wit(res.err.Error()))
		return true
	}
	if class, detail := diff(written, res.vals); class != "" {
		c.Violate("roundtrip:"+part+":"+class, "the values read back differ from the values written: "+detail, wit(detail))
		return true
	}
	return false
}

var reCase = regexp.MustCompile(`^<<"CASE", (".*")>>$`)
var reOrder = regexp.MustCompile(`^<<"ORDER", (".*")>>$`)

func unquoteTLA(s string) (string, error) {
	// TLC prints strings with \" and \\ escapes only.
	return strconv.Unquote(s)
}

func (ck *checker) tlcA() ([]*sCase, error) {
	c := ck.c
	cfg := "ZngStream.quick.cfg"
	if !c.Quick() {
		cfg = "ZngStream.thorough.cfg"
	}
	res := c.MustHold(core.TLCRun{Module: "ZngStream", Cfg: cfg, Workers: 4, Timeout: 15 * time.Minute})
	if res == nil {
		return nil, nil
	}
	var cases []*sCase
	for _, line := range res.Prints {
		m := reCase.FindStringSubmatch(strings.TrimSpace(line))
		if m == nil {
			continue
		}
		js, err := unquoteTLA(m[1])
		if err != nil {
			return nil, fmt.Errorf("cannot unquote CASE line: %v", err)
		}
		var cs sCase
		if err := json.Unmarshal([]byte(js), &cs); err != nil {
			return nil, fmt.Errorf("CASE line: %v", err)
		}
		cases = append(cases, &cs)
	}
	if len(cases) == 0 {
		return nil, fmt.Errorf("ZngStream.tla produced no cases")
	}
	return cases, nil
}

func (ck *checker) partA(cases []*sCase) {
	c := ck.c
	sort.Slice(cases, func(i, j int) bool {
		a, b := cases[i], cases[j]
		if a.Thresh != b.Thresh {
			return a.Thresh < b.Thresh
		}
		if len(a.Script) != len(b.Script) {
			return len(a.Script) < len(b.Script)
		}
		return scriptKey(a.Script) < scriptKey(b.Script)
	})
	c.Set("scripts_from_tlc", len(cases))
	for i, cs := range cases {
		ck.runScriptCase(i, cs)
		if i%(len(cases)/4+1) == 0 {
			c.Sample(map[string]any{"part": "A", "thresh": cs.Thresh, "script": scriptKey(cs.Script), "spec_frames": len(cs.Wire)})
		}
	}
	c.Add("traces_validated_against_impl", c.Count("wires_equal_to_spec"))
	c.Logf("part A: %d scripts replayed on the real writer, %d wires equal to the specification's, %d mismatches", len(cases), c.Count("wires_equal_to_spec"), c.Count("wire_mismatches"))
}

// --------------------------------------------------------- part B: orders

type sOrder struct {
	Threads int   `json:"threads"`
	Frames  int   `json:"frames"`
	Eos     []int `json:"eos"`
	Order   []int `json:"order"`
}

type orderWitness struct {
	Kind    string `json:"kind"` // "order"
	Threads int    `json:"threads"`
	Frames  int    `json:"frames"`
	Eos     []int  `json:"eos"`
	Order   []int  `json:"order"`
	Seed    int64  `json:"seed"`
	Detail  string `json:"detail,omitempty"`
}

// buildFrames writes n values, one values frame each, with end-of-stream
// markers after the frames listed in eos.
func buildFrames(seed int64, n int, eos []int) ([]byte, []wr, error) {
	g := &gen{rng: rand.New(rand.NewSource(seed)), zctxs: []*zed.Context{zed.NewContext(), zed.NewContext()}}
	var buf bytes.Buffer
	w := zngio.NewWriterWithOpts(zio.NopCloser(&buf), zngio.WriterOpts{FrameThresh: 1, Compress: seed%2 == 0})
	var written []wr
	isEos := map[int]bool{}
	for _, e := range eos {
		isEos[e] = true
	}
	for i := 1; i <= n; i++ {
		v := g.value(3)
		if err := w.Write(v); err != nil {
			return nil, nil, err
		}
		written = append(written, project(v))
		if isEos[i] {
			if err := w.EndStream(); err != nil {
				return nil, nil, err
			}
		}
	}
	if err := w.Close(); err != nil {
		return nil, nil, err
	}
	return buf.Bytes(), written, nil
}

func (ck *checker) orderOracle(w orderWitness) {
	c := ck.c
	data, written, err := buildFrames(w.Seed, w.Frames, w.Eos)
	if err != nil {
		c.Violate("roundtrip:order:write-error", "writing a valid value sequence fails: "+err.Error(), w)
		return
	}
	frames, err := walk(data)
	nv := 0
	for _, f := range frames {
		if f.Kind == "V" {
			nv++
		}
	}
	if err != nil || nv != w.Frames {
		c.Inconclusive("order case: expected %d values frames, the walker sees %d (%v)", w.Frames, nv, err)
		return
	}
	inOrder := sort.IntsAreSorted(w.Order)
	c.Eval(fmt.Sprintf("order|%d|%d|%v|%v", w.Threads, w.Frames, w.Eos, w.Order), !inOrder)
	order := w.Order
	if ck.gateTimeouts >= 3 {
		// The real scanner evidently does not follow the specification's
		// schedules (see the drift lines); stop waiting for them.
		order = nil
		c.Add("completion_orders_skipped_after_timeouts", 1)
	}
	res := readBack(data, readerCfg{Threads: w.Threads, Pull: len(w.Order)%2 == 0, Validate: true}, order)
	if res.stuck {
		ck.gateTimeouts++
	}
	bad := ck.judge("order", written, res, w, func(detail string) any { w.Detail = detail; return w })
	if order == nil {
		ck.addTrace(w.Threads, data, res.events, "free-running read", bad)
		return
	}
	var got []int
	for _, e := range res.events {
		if e.E == "done" {
			got = append(got, e.F)
		}
	}
	if res.stuck || fmt.Sprint(got) != fmt.Sprint(w.Order) {
		c.Drift("completion order %v predicted by ZngScanner.tla was not realised by the real scanner (observed %v, gate timed out: %v)", w.Order, got, res.stuck)
		c.Add("completion_orders_not_realised", 1)
	} else {
		c.Add("completion_orders_forced", 1)
	}
	ck.addTrace(w.Threads, data, res.events, fmt.Sprintf("forced order %v", w.Order), bad)
}

func (ck *checker) tlcB() ([]sOrder, error) {
	c := ck.c
	cfg := "ZngScanner.quick.cfg"
	if !c.Quick() {
		cfg = "ZngScanner.thorough.cfg"
	}
	res := c.MustHold(core.TLCRun{Module: "ZngScanner", Cfg: cfg, Workers: 4, Deadlock: true, Timeout: 15 * time.Minute})
	if res == nil {
		return nil, nil
	}
	var orders []sOrder
	seen := map[string]bool{}
	for _, line := range res.Prints {
		m := reOrder.FindStringSubmatch(strings.TrimSpace(line))
		if m == nil || seen[m[1]] {
			continue
		}
		seen[m[1]] = true
		js, err := unquoteTLA(m[1])
		if err != nil {
			return nil, err
		}
		var o sOrder
		if err := json.Unmarshal([]byte(js), &o); err != nil {
			return nil, err
		}
		orders = append(orders, o)
	}
	if len(orders) == 0 {
		return nil, fmt.Errorf("ZngScanner.tla produced no completion orders")
	}
	return orders, nil
}

func (ck *checker) partB(orders []sOrder) {
	c := ck.c
	sort.Slice(orders, func(i, j int) bool {
		a, b := orders[i], orders[j]
		if a.Threads != b.Threads {
			return a.Threads < b.Threads
		}
		if a.Frames != b.Frames {
			return a.Frames < b.Frames
		}
		return fmt.Sprint(a.Order) < fmt.Sprint(b.Order)
	})
	c.Set("completion_orders_from_tlc", len(orders))
	for i, o := range orders {
		sort.Ints(o.Eos)
		ck.orderOracle(orderWitness{Kind: "order", Threads: o.Threads, Frames: o.Frames, Eos: o.Eos, Order: o.Order, Seed: c.Seed*1000 + int64(i)})
		if i%(len(orders)/3+1) == 0 {
			c.Sample(map[string]any{"part": "B", "threads": o.Threads, "frames": o.Frames, "eos_after": o.Eos, "forced_completion_order": o.Order})
		}
	}
	c.Logf("part B: %d worker completion orders from TLC forced on the real scanner (%d realised)", len(orders), c.Count("completion_orders_forced"))
}

// --------------------------------------------------------- part C: matrix

type matrixWitness struct {
	Kind     string    `json:"kind"` // "matrix"
	Seed     int64     `json:"seed"`
	N        int       `json:"n"`
	Depth    int       `json:"depth"`
	Thresh   int       `json:"thresh"`
	Compress bool      `json:"compress"`
	Eos      []int     `json:"eos"`    // EndStream after these values
	Concat   []int     `json:"concat"` // Close + new writer after these values
	Reader   readerCfg `json:"reader"`
	Detail   string    `json:"detail,omitempty"`
}

func (ck *checker) matrixOracle(w matrixWitness) {
	c := ck.c
	g := &gen{rng: rand.New(rand.NewSource(w.Seed)), zctxs: []*zed.Context{zed.NewContext(), zed.NewContext(), zed.NewContext()}}
	var buf bytes.Buffer
	opts := zngio.WriterOpts{Compress: w.Compress, FrameThresh: w.Thresh}
	zw := zngio.NewWriterWithOpts(zio.NopCloser(&buf), opts)
	eos, concat := map[int]bool{}, map[int]bool{}
	for _, e := range w.Eos {
		eos[e] = true
	}
	for _, e := range w.Concat {
		concat[e] = true
	}
	var written []wr
	for i := 1; i <= w.N; i++ {
		v := g.value(w.Depth)
		if err := zw.Write(v); err != nil {
			w.Detail = err.Error()
			c.Violate("roundtrip:matrix:write-error", fmt.Sprintf("writing value %d of type %s fails: %v", i, zson.FormatType(v.Type()), err), w)
			return
		}
		written = append(written, project(v))
		var err error
		if concat[i] {
			if err = zw.Close(); err == nil {
				zw = zngio.NewWriterWithOpts(zio.NopCloser(&buf), opts)
			}
		} else if eos[i] {
			err = zw.EndStream()
		}
		if err != nil {
			c.Violate("roundtrip:matrix:write-error", "EndStream/Close fails: "+err.Error(), w)
			return
		}
	}
	if err := zw.Close(); err != nil {
		c.Violate("roundtrip:matrix:write-error", "Close fails: "+err.Error(), w)
		return
	}
	data := buf.Bytes()
	nv := 0
	frames, werr := walk(data)
	if werr != nil {
		c.Drift("matrix seed %d: the frame walker cannot parse the writer's output: %v", w.Seed, werr)
	} else {
		for _, f := range frames {
			if f.Kind == "V" {
				nv++
			}
		}
		if err := checkStreamDiscipline(frames); err != nil {
			c.Drift("matrix seed %d: %v", w.Seed, err)
			c.Add("wire_discipline_errors", 1)
		}
	}
	c.Eval(fmt.Sprintf("matrix|%d|%d|%d|%v|%v|%v|%+v", w.Seed, w.N, w.Thresh, w.Compress, w.Eos, w.Concat, w.Reader), nv >= 2)
	res := readBack(data, w.Reader, nil)
	bad := ck.judge("matrix", written, res, w, func(detail string) any { w.Detail = detail; return w })
	ck.addTrace(w.Reader.Threads, data, res.events, fmt.Sprintf("matrix seed %d", w.Seed), bad)
}

func (ck *checker) partC() {
	c := ck.c
	n := 400
	if !c.Quick() {
		n = 8000
	}
	rng := rand.New(rand.NewSource(c.Seed + 101))
	threshes := []int{1, 7, 64, 300, 4096, 1 << 16, 1 << 20}
	threads := []int{1, 2, 3, 16}
	sizes := []int{0, 1, 16, 4096}
	for i := 0; i < n; i++ {
		w := matrixWitness{Kind: "matrix", Seed: c.Seed*1_000_003 + int64(i), N: rng.Intn(40), Depth: 1 + rng.Intn(3),
			Thresh: threshes[rng.Intn(len(threshes))], Compress: rng.Intn(2) == 0, Eos: []int{}, Concat: []int{}}
		for j := 1; j <= w.N; j++ {
			switch rng.Intn(12) {
			case 0:
				w.Eos = append(w.Eos, j)
			case 1:
				w.Concat = append(w.Concat, j)
			}
		}
		w.Reader = readerCfg{Threads: threads[rng.Intn(len(threads))], Size: sizes[rng.Intn(len(sizes))],
			Validate: rng.Intn(2) == 0, OneByte: rng.Intn(4) == 0, Pull: rng.Intn(2) == 0, Procs: []int{0, 0, 1, 2}[rng.Intn(4)]}
		ck.matrixOracle(w)
		if i%(n/3+1) == 0 {
			c.Sample(map[string]any{"part": "C", "case": w})
		}
	}
	c.Logf("part C: %d matrix round trips", n)
}

// ----------------------------------------------- part E: boundary typedefs

type boundaryWitness struct {
	Kind   string    `json:"kind"` // "boundary"
	Type   int       `json:"type"` // index into boundaryTypes
	Shape  string    `json:"shape"`
	Reader readerCfg `json:"reader"`
	Name   string    `json:"name,omitempty"`
	Detail string    `json:"detail,omitempty"`
}

// boundaryValue builds a value of the i-th boundary type in zctx.
type boundaryType struct {
	name  string
	build func(zctx *zed.Context) zed.Value
}

func enumVal(syms []string, idx int) func(*zed.Context) zed.Value {
	return func(zctx *zed.Context) zed.Value {
		return zed.NewValue(zctx.LookupTypeEnum(syms), zed.EncodeUint(uint64(idx)))
	}
}

func recVal(names ...string) func(*zed.Context) zed.Value {
	return func(zctx *zed.Context) zed.Value {
		var fields []zed.Field
		b := zcode.NewBuilder()
		b.BeginContainer()
		for i, n := range names {
			fields = append(fields, zed.NewField(n, zed.TypeInt64))
			b.Append(zed.EncodeInt(int64(i)))
		}
		b.EndContainer()
		t, err := zctx.LookupTypeRecord(fields)
		if err != nil {
			panic(err)
		}
		it := b.Bytes().Iter()
		return zed.NewValue(t, it.Next()).Copy()
	}
}

// boundaryTypes are types whose typedef encodings sit on an edge: counted
// strings of length zero in first, middle and last position, zero counts,
// look-alike and multi-byte strings, typedefs that end with a string rather
// than with a type id.
var boundaryTypes = []boundaryType{
	{"enum last symbol empty", enumVal([]string{"a", ""}, 1)},
	{"enum only symbol empty", enumVal([]string{""}, 0)},
	{"enum first symbol empty", enumVal([]string{"", "a"}, 0)},
	{"enum middle symbol empty", enumVal([]string{"a", "", "b"}, 2)},
	{"enum look-alike symbols", enumVal([]string{"a", "A", " a", "a ", "a\x00"}, 4)},
	{"enum unicode symbols, last empty", enumVal([]string{"é", "日本語", "\u00e9", ""}, 3)},
	{"enum long last symbol", enumVal([]string{"x", strings.Repeat("s", 200)}, 1)},
	{"record last field name empty", recVal("a", "")},
	{"record only field name empty", recVal("")},
	{"record first field name empty", recVal("", "b")},
	{"empty record", recVal()},
	{"record unicode and odd names", recVal("é", "a b", "\"", "日本")},
	{"named type with a one-space name", func(zctx *zed.Context) zed.Value {
		t, err := zctx.LookupTypeNamed(" ", zed.TypeInt64)
		if err != nil {
			panic(err)
		}
		return zed.NewValue(t, zed.EncodeInt(1))
	}},
	{"named enum, last symbol empty", func(zctx *zed.Context) zed.Value {
		t, err := zctx.LookupTypeNamed("é", zctx.LookupTypeEnum([]string{"p", ""}))
		if err != nil {
			panic(err)
		}
		return zed.NewValue(t, zed.EncodeUint(1))
	}},
	{"array of enum, last symbol empty", func(zctx *zed.Context) zed.Value {
		t := zctx.LookupTypeArray(zctx.LookupTypeEnum([]string{"q", ""}))
		b := zcode.NewBuilder()
		b.BeginContainer()
		b.Append(zed.EncodeUint(1))
		b.Append(nil)
		b.EndContainer()
		it := b.Bytes().Iter()
		return zed.NewValue(t, it.Next()).Copy()
	}},
	{"union of two enums", func(zctx *zed.Context) zed.Value {
		e1, e2 := zctx.LookupTypeEnum([]string{"u", ""}), zctx.LookupTypeEnum([]string{""})
		t := zctx.LookupTypeUnion([]zed.Type{e1, e2})
		b := zcode.NewBuilder()
		zed.BuildUnion(b, t.TagOf(e2), zed.EncodeUint(0))
		it := b.Bytes().Iter()
		return zed.NewValue(t, it.Next()).Copy()
	}},
	{"error of enum, last symbol empty", func(zctx *zed.Context) zed.Value {
		t := zctx.LookupTypeError(zctx.LookupTypeEnum([]string{"r", ""}))
		return zed.NewValue(t, zed.EncodeUint(1))
	}},
	{"type value of an enum whose last symbol is empty", func(zctx *zed.Context) zed.Value {
		return zed.NewValue(zed.TypeType, zed.EncodeTypeValue(zctx.LookupTypeEnum([]string{"s", ""})))
	}},
}

// boundaryShapes place the boundary typedef at different positions of the
// types frame and of the stream.
var boundaryShapes = []string{
	"alone-thresh1",   // its own types frame, flushed at once
	"last-in-frame",   // after other new types, one types frame written at Close
	"first-in-frame",  // before other new types in the same types frame
	"second-stream",   // re-defined after an end-of-stream marker, compressed
	"frame-end-exact", // FrameThresh equal to the pending typedef bytes: the typedef ends the frame that its own size triggers
}

func (ck *checker) boundaryOracle(w boundaryWitness) {
	c := ck.c
	bt := boundaryTypes[w.Type]
	w.Name = bt.name
	z1, z2 := zed.NewContext(), zed.NewContext()
	v := bt.build(z1)
	other := recVal("k", "l")(z2)
	plain := zed.NewInt64(7)
	var buf bytes.Buffer
	var written []wr
	opts := zngio.WriterOpts{FrameThresh: 1 << 20}
	var seq []zed.Value
	eosAfter := -1
	switch w.Shape {
	case "alone-thresh1":
		opts.FrameThresh = 1
		seq = []zed.Value{plain, v, plain}
	case "last-in-frame":
		seq = []zed.Value{other, plain, v}
	case "first-in-frame":
		seq = []zed.Value{v, other}
	case "second-stream":
		opts.Compress = true
		seq = []zed.Value{v, other, v, bt.build(z2)}
		eosAfter = 1
	case "frame-end-exact":
		// Find the size of the typedef bytes this value needs and use it as the threshold.
		var probe bytes.Buffer
		pw := zngio.NewWriterWithOpts(zio.NopCloser(&probe), opts)
		pw.Write(v)
		pw.Close()
		if fr, err := walk(probe.Bytes()); err == nil && len(fr) > 0 && fr[0].Kind == "T" {
			opts.FrameThresh = fr[0].PayloadLen
		}
		seq = []zed.Value{v, plain}
	}
	zw := zngio.NewWriterWithOpts(zio.NopCloser(&buf), opts)
	for i, x := range seq {
		if err := zw.Write(x); err != nil {
			w.Detail = err.Error()
			c.Violate("roundtrip:boundary:write-error", fmt.Sprintf("writing a value of a boundary type (%s) fails: %v", bt.name, err), w)
			return
		}
		written = append(written, project(x))
		if i == eosAfter {
			if err := zw.EndStream(); err != nil {
				c.Violate("roundtrip:boundary:write-error", "EndStream fails: "+err.Error(), w)
				return
			}
		}
	}
	if err := zw.Close(); err != nil {
		c.Violate("roundtrip:boundary:write-error", "Close fails: "+err.Error(), w)
		return
	}
	data := buf.Bytes()
	if frames, err := walk(data); err != nil {
		c.Drift("boundary %s/%s: the frame walker cannot parse the writer's output: %v", bt.name, w.Shape, err)
	} else if err := checkStreamDiscipline(frames); err != nil {
		c.Drift("boundary %s/%s: %v", bt.name, w.Shape, err)
	}
	c.Eval(fmt.Sprintf("boundary|%d|%s|%+v", w.Type, w.Shape, w.Reader), true)
	res := readBack(data, w.Reader, nil)
	bad := ck.judge("boundary", written, res, w, func(detail string) any { w.Detail = detail; return w })
	ck.addTrace(w.Reader.Threads, data, res.events, "boundary "+bt.name, bad)
}

func (ck *checker) partE() {
	n := 0
	for i := range boundaryTypes {
		for j, shape := range boundaryShapes {
			rc := readerCycle[(i+j)%len(readerCycle)]
			ck.boundaryOracle(boundaryWitness{Kind: "boundary", Type: i, Shape: shape, Reader: rc})
			n++
		}
	}
	ck.c.Sample(map[string]any{"part": "E", "boundary_types": len(boundaryTypes), "shapes": boundaryShapes})
	ck.c.Logf("part E: %d boundary-typedef round trips (%d types x %d placements)", n, len(boundaryTypes), len(boundaryShapes))
}

// ------------------------------------------------ part D: trace validation

func (tr *traceRec) ndjson(buf *bytes.Buffer) {
	enc := json.NewEncoder(buf)
	enc.Encode(beginEvent{T: tr.id, E: "begin", Threads: tr.threads, NFrames: tr.nframes, Eos: tr.eos})
	for _, e := range tr.events {
		e.T = tr.id
		enc.Encode(e)
	}
	enc.Encode(hookEvent{T: tr.id, E: "end"})
}

var reVerdict = regexp.MustCompile(`^<<"VERDICT", (\d+), (TRUE|FALSE), (\d+)>>$`)
var reRefused = regexp.MustCompile(`^<<"REFUSED", (\d+), (\d+)>>$`)
var reHigh = regexp.MustCompile(`<<"HIGHWATER", (\d+), (\d+)>>`)

func (ck *checker) validateBatch(traces []*traceRec) (map[int]bool, map[int]bool, error) {
	var buf bytes.Buffer
	for _, tr := range traces {
		tr.ndjson(&buf)
	}
	res, err := ck.c.RunTLC(core.TLCRun{Module: "ZngScannerTrace", Cfg: "ZngScannerTrace.trace.cfg",
		Files: map[string][]byte{"trace.ndjson": buf.Bytes()}, Workers: 1, Timeout: 10 * time.Minute})
	if res == nil {
		return nil, nil, err
	}
	ok, refused := map[int]bool{}, map[int]bool{}
	for _, line := range res.Prints {
		line = strings.TrimSpace(line)
		if m := reVerdict.FindStringSubmatch(line); m != nil {
			id, _ := strconv.Atoi(m[1])
			ok[id] = m[2] == "TRUE"
		} else if m := reRefused.FindStringSubmatch(line); m != nil {
			id, _ := strconv.Atoi(m[1])
			refused[id] = true
		}
	}
	m := reHigh.FindStringSubmatch(res.Out)
	if err != nil || res.Status != "ok" || m == nil || m[1] != m[2] {
		tail := res.Out
		if len(tail) > 2000 {
			tail = tail[len(tail)-2000:]
		}
		return ok, refused, fmt.Errorf("trace validation did not complete (%s): %v\n%s", res.Status, err, tail)
	}
	return ok, refused, nil
}

type control struct {
	name string
	tr   *traceRec
}

func (ck *checker) negativeControls() []control {
	var base *traceRec
	count := func(tr *traceRec, e string) int {
		n := 0
		for _, ev := range tr.events {
			if ev.E == e {
				n++
			}
		}
		return n
	}
	for _, tr := range ck.traces {
		if tr.nframes >= 4 && tr.threads >= 2 && len(tr.eos) > 0 && tr.eos[0] < tr.nframes && !tr.bad &&
			count(tr, "dispatch") == tr.nframes && count(tr, "done") == tr.nframes && count(tr, "deliver") == tr.nframes+1 {
			base = tr
			break
		}
	}
	if base == nil {
		ck.c.Inconclusive("no trace suitable for the negative controls")
		return nil
	}
	next := len(ck.traces)
	mutate := func(f func(evs []hookEvent) []hookEvent) *traceRec {
		cp := *base
		next++
		cp.id = next
		cp.events = f(append([]hookEvent{}, base.events...))
		return &cp
	}
	find := func(evs []hookEvent, e string, nth int) int {
		for i := range evs {
			if evs[i].E == e {
				if nth == 0 {
					return i
				}
				nth--
			}
		}
		return -1
	}
	return []control{
		{"batches delivered out of order", mutate(func(evs []hookEvent) []hookEvent {
			i, j := find(evs, "deliver", 0), find(evs, "deliver", 1)
			evs[i].F, evs[j].F = evs[j].F, evs[i].F
			return evs
		})},
		{"a batch delivered before its worker finished", mutate(func(evs []hookEvent) []hookEvent {
			// move the last frame's deliver event before its done event
			d := -1
			for i := range evs {
				if evs[i].E == "done" && evs[i].F == base.nframes {
					d = i
				}
			}
			var out []hookEvent
			var del hookEvent
			for i := range evs {
				if evs[i].E == "deliver" && evs[i].F == base.nframes {
					del = evs[i]
					continue
				}
				out = append(out, evs[i])
			}
			return append(append(append([]hookEvent{}, out[:d]...), del), out[d:]...)
		})},
		{"worker handed the wrong stream's type context", mutate(func(evs []hookEvent) []hookEvent {
			i := find(evs, "dispatch", base.nframes-1)
			evs[i].Ep = 1
			return evs
		})},
		{"a frame lost (never delivered)", mutate(func(evs []hookEvent) []hookEvent {
			i := find(evs, "deliver", 1)
			return append(evs[:i], evs[i+1:]...)
		})},
		{"a frame completed by a worker that was not given it", mutate(func(evs []hookEvent) []hookEvent {
			i := find(evs, "done", 0)
			evs[i].W = evs[i].W%base.threads + 1
			return evs
		})},
	}
}

func (ck *checker) partD() {
	c := ck.c
	controls := ck.negativeControls()
	all := append([]*traceRec{}, ck.traces...)
	for _, ctl := range controls {
		all = append(all, ctl.tr)
	}
	if len(all) == 0 {
		return
	}
	jvms := 2
	if !c.Quick() {
		jvms = 6
	}
	per := (len(all) + jvms - 1) / jvms
	var wg sync.WaitGroup
	var mu sync.Mutex
	oks, refused := map[int]bool{}, map[int]bool{}
	for b := 0; b < jvms; b++ {
		lo, hi := b*per, (b+1)*per
		if hi > len(all) {
			hi = len(all)
		}
		if lo >= hi {
			continue
		}
		wg.Add(1)
		go func(batch []*traceRec) {
			defer wg.Done()
			o, r, err := ck.validateBatch(batch)
			mu.Lock()
			for k, v := range o {
				oks[k] = v
			}
			for k := range r {
				refused[k] = true
			}
			mu.Unlock()
			if err != nil {
				c.Inconclusive("%v", err)
			}
		}(all[lo:hi])
	}
	wg.Wait()
	valid := 0
	for _, tr := range ck.traces {
		switch {
		case refused[tr.id]:
			c.Add("traces_refused_by_spec", 1)
			if !tr.bad {
				c.Drift("hook trace of %s (threads %d, %d frames) is not a behaviour of ZngScanner.tla although the round trip held: %s",
					tr.what, tr.threads, tr.nframes, compactEvents(tr.events))
			}
		case !oks[tr.id]:
			c.Inconclusive("no positive verdict from TLC for the trace of %s", tr.what)
		default:
			valid++
		}
	}
	c.Add("traces_validated_against_impl", int64(valid))
	c.Set("hook_traces_recorded", len(ck.traces))
	for _, ctl := range controls {
		if !refused[ctl.tr.id] {
			c.Inconclusive("negative control %q: the corrupted trace was accepted by ZngScannerTrace.tla", ctl.name)
		} else {
			c.Add("negative_controls_passed", 1)
		}
	}
	c.Logf("part D: %d hook traces validated against ZngScanner.tla, %d negative controls refused", valid, c.Count("negative_controls_passed"))
}

func compactEvents(evs []hookEvent) string {
	var b strings.Builder
	for _, e := range evs {
		switch e.E {
		case "dispatch":
			fmt.Fprintf(&b, " D%d>w%d/c%d", e.F, e.W, e.Ep)
		case "done":
			fmt.Fprintf(&b, " F%d", e.F)
		case "deliver":
			fmt.Fprintf(&b, " P%d", e.F)
		}
	}
	return strings.TrimSpace(b.String())
}

// ------------------------------------------------------------------- main

func run(c *core.Ctx) error {
	c.Trust("TLC 1.8 (tla2tools 2026.09); the harness's frame walker (encoding/binary + lz4 block decoder), value generator and hook gate; zson.FormatType / zed.EncodeTypeValue for comparing types across contexts")
	c.Assume("scripts of at most MaxOps operations over 9 type tokens in 2 type contexts, thresholds {1, 20, 30, 10^6} bytes (part A); at most 6 values frames and 4 decode threads for the enumerated completion orders (part B); value nesting depth <= 3, at most 40 values, thresholds up to 2^20 sampled (part C)")
	c.Assume("control frames and the buffer-filter (pushdown) path of the scanner are not exercised")
	c.Rule("cases = (A) every script printed by TLC from ZngStream.tla replayed on the real writer and compared frame by frame with the predicted wire, then read back; (B) every worker completion order printed by TLC from ZngScanner.tla forced on the real threaded scanner over a random multi-stream input; (C) seeded random (value sequence, writer options, reader options) round trips; (E) a fixed list of boundary typedefs (empty / look-alike / unicode counted strings in first, middle and last position, empty records, typedefs ending a frame) x placements in the types frame and stream.  Non-trivial = at least two values frames (A, C) / a completion order that is not the dispatch order (B).  Every threaded read's hook trace is validated against ZngScannerTrace.tla")
	tk, err := newTokens()
	if err != nil {
		return err
	}
	ck := &checker{c: c, tk: tk, maxTraces: 400}
	if !c.Quick() {
		ck.maxTraces = 6000
	}
	if c.Replay != "" {
		return ck.replay()
	}
	// The design checks run concurrently; the replays use the process-wide hook and run one after the other.
	var wg sync.WaitGroup
	var cases []*sCase
	var orders []sOrder
	var errA, errB error
	wg.Add(2)
	go func() { defer wg.Done(); cases, errA = ck.tlcA() }()
	go func() { defer wg.Done(); orders, errB = ck.tlcB() }()
	wg.Wait()
	if errA != nil {
		return errA
	}
	if errB != nil {
		return errB
	}
	if cases == nil || orders == nil {
		return nil // a design check failed: already recorded as inconclusive
	}
	ck.partB(orders)
	ck.maxTraces += len(ck.traces)
	ck.partA(cases)
	ck.maxTraces += ck.maxTraces / 2
	ck.partE()
	ck.partC()
	ck.partD()
	return nil
}

func (ck *checker) replay() error {
	var kind struct {
		Kind string `json:"kind"`
	}
	if _, err := ck.c.ReplayWitness(&kind); err != nil {
		return err
	}
	switch kind.Kind {
	case "script":
		var w scriptWitness
		ck.c.ReplayWitness(&w)
		ck.scriptOracle(w, &sCase{Thresh: w.Thresh, Script: w.Script})
	case "order":
		var w orderWitness
		ck.c.ReplayWitness(&w)
		ck.orderOracle(w)
	case "matrix":
		var w matrixWitness
		ck.c.ReplayWitness(&w)
		ck.matrixOracle(w)
	case "boundary":
		var w boundaryWitness
		ck.c.ReplayWitness(&w)
		ck.boundaryOracle(w)
	default:
		return fmt.Errorf("unknown witness kind %q", kind.Kind)
	}
	fmt.Printf("replayed %s witness: violations=%d\n", kind.Kind, ck.c.Violations())
	return nil
}

func main() { core.Main("C01", "model_checking", run) }
