package main

import (
	"fmt"
	"strings"

	zed "github.com/brimdata/super"
	"github.com/brimdata/super/zcode"
)

// term is a type term of ZsonDecor.tla (JSON as written by ndJsonSerialize).
type term struct {
	K    string   `json:"k"`              // prim | rec | arr | set | map | union | named | enum | err
	P    string   `json:"p,omitempty"`    // primitive name
	N    string   `json:"n,omitempty"`    // type name (named)
	Fs   []tfield `json:"fs,omitempty"`   // record fields
	E    *term    `json:"e,omitempty"`    // array / set element type
	Kt   *term    `json:"kt,omitempty"`   // map key type
	Vt   *term    `json:"vt,omitempty"`   // map value type
	T    *term    `json:"t,omitempty"`    // named: underlying; err: inner
	Ts   []term   `json:"ts,omitempty"`   // union members
	Syms []string `json:"syms,omitempty"` // enum symbols
}

type tfield struct {
	N string `json:"n"`
	T term   `json:"t"`
}

// payload is the payload of an abstract value (VNull, VPrim, VRec ... of ZsonDecor.tla).
type payload struct {
	K    string    `json:"k"` // null | prim | rec | seq | map | union | enum | err | tv
	Kids []payload `json:"kids,omitempty"`
	Ents []entry   `json:"ents,omitempty"`
	Mt   *term     `json:"mt,omitempty"`  // union: member type
	Kid  *payload  `json:"kid,omitempty"` // union member / error inner
	Sym  string    `json:"sym,omitempty"`
	Ty   *term     `json:"ty,omitempty"` // type value
}

type entry struct {
	Key payload `json:"key"`
	Val payload `json:"val"`
}

// aval is an abstract value [t, v].
type aval struct {
	T term    `json:"t"`
	V payload `json:"v"`
}

func (t *term) String() string {
	switch t.K {
	case "prim":
		return t.P
	case "rec":
		var fs []string
		for _, f := range t.Fs {
			fs = append(fs, f.N+":"+f.T.String())
		}
		return "{" + strings.Join(fs, ",") + "}"
	case "arr":
		return "[" + t.E.String() + "]"
	case "set":
		return "|[" + t.E.String() + "]|"
	case "map":
		return "|{" + t.Kt.String() + ":" + t.Vt.String() + "}|"
	case "union":
		var ts []string
		for i := range t.Ts {
			ts = append(ts, t.Ts[i].String())
		}
		return "(" + strings.Join(ts, ",") + ")"
	case "named":
		return t.N + "=" + t.T.String()
	case "enum":
		return "enum(" + strings.Join(t.Syms, ",") + ")"
	case "err":
		return "error(" + t.T.String() + ")"
	}
	return "?" + t.K
}

// names maps the spec's abstract field / type / symbol names to the concrete ones of a case.
type names map[string]string

func (n names) of(s string) string {
	if c, ok := n[s]; ok {
		return c
	}
	return s
}

// toType interns the term in zctx.
func toType(zctx *zed.Context, t *term, nm names) (zed.Type, error) {
	switch t.K {
	case "prim":
		typ := zed.LookupPrimitive(t.P)
		if typ == nil {
			return nil, fmt.Errorf("unknown primitive %q", t.P)
		}
		return typ, nil
	case "rec":
		fields := make([]zed.Field, 0, len(t.Fs))
		for i := range t.Fs {
			ft, err := toType(zctx, &t.Fs[i].T, nm)
			if err != nil {
				return nil, err
			}
			fields = append(fields, zed.NewField(nm.of(t.Fs[i].N), ft))
		}
		return zctx.LookupTypeRecord(fields)
	case "arr", "set":
		e, err := toType(zctx, t.E, nm)
		if err != nil {
			return nil, err
		}
		if t.K == "arr" {
			return zctx.LookupTypeArray(e), nil
		}
		return zctx.LookupTypeSet(e), nil
	case "map":
		k, err := toType(zctx, t.Kt, nm)
		if err != nil {
			return nil, err
		}
		v, err := toType(zctx, t.Vt, nm)
		if err != nil {
			return nil, err
		}
		return zctx.LookupTypeMap(k, v), nil
	case "union":
		var types []zed.Type
		for i := range t.Ts {
			m, err := toType(zctx, &t.Ts[i], nm)
			if err != nil {
				return nil, err
			}
			types = append(types, m)
		}
		return zctx.LookupTypeUnion(types), nil
	case "named":
		u, err := toType(zctx, t.T, nm)
		if err != nil {
			return nil, err
		}
		return zctx.LookupTypeNamed(nm.of(t.N), u)
	case "enum":
		var syms []string
		for _, s := range t.Syms {
			syms = append(syms, nm.of(s))
		}
		return zctx.LookupTypeEnum(syms), nil
	case "err":
		u, err := toType(zctx, t.T, nm)
		if err != nil {
			return nil, err
		}
		return zctx.LookupTypeError(u), nil
	}
	return nil, fmt.Errorf("unknown term kind %q", t.K)
}

// builder turns abstract values into real ones.  prim supplies the bytes of
// the n-th primitive of a case (distinct, ascending, so that sets and maps
// keep the order the spec assumed where that is possible).
type builder struct {
	zctx    *zed.Context
	nm      names
	counter int
	// reordered is set when NormalizeSet / NormalizeMap had to reorder or merge elements: the
	// text then lists them in another order than the spec's abstract value.
	reordered bool
}

func (b *builder) prim(typ zed.Type) (zcode.Bytes, error) {
	b.counter++
	n := b.counter
	switch zed.TypeUnder(typ) {
	case zed.TypeInt64:
		return zed.EncodeInt(int64(n)), nil
	case zed.TypeUint8:
		return zed.EncodeUint(uint64(n)), nil
	case zed.TypeUint64:
		return zed.EncodeUint(uint64(n)), nil
	case zed.TypeString:
		return zed.EncodeString(fmt.Sprintf("s%02d", n)), nil
	case zed.TypeFloat64:
		return zed.EncodeFloat64(float64(n) + 0.5), nil
	case zed.TypeBool:
		return zed.EncodeBool(n%2 == 0), nil
	}
	return nil, fmt.Errorf("builder: no payload for primitive %T", typ)
}

func (b *builder) value(v *aval) (zed.Value, error) {
	typ, err := toType(b.zctx, &v.T, b.nm)
	if err != nil {
		return zed.Null, err
	}
	var zb zcode.Builder
	if err := b.build(&zb, typ, &v.V); err != nil {
		return zed.Null, err
	}
	return zed.NewValue(typ, zb.Bytes().Body()).Copy(), nil
}

func (b *builder) build(zb *zcode.Builder, typ zed.Type, p *payload) error {
	if p.K == "null" {
		zb.Append(nil)
		return nil
	}
	switch t := typ.(type) {
	case *zed.TypeNamed:
		return b.build(zb, t.Type, p)
	case *zed.TypeRecord:
		if p.K != "rec" || len(p.Kids) != len(t.Fields) {
			return fmt.Errorf("builder: payload %s for record with %d fields", p.K, len(t.Fields))
		}
		zb.BeginContainer()
		for i := range t.Fields {
			if err := b.build(zb, t.Fields[i].Type, &p.Kids[i]); err != nil {
				return err
			}
		}
		zb.EndContainer()
	case *zed.TypeArray:
		zb.BeginContainer()
		for i := range p.Kids {
			if err := b.build(zb, t.Type, &p.Kids[i]); err != nil {
				return err
			}
		}
		zb.EndContainer()
	case *zed.TypeSet:
		zb.BeginContainer()
		for i := range p.Kids {
			if err := b.build(zb, t.Type, &p.Kids[i]); err != nil {
				return err
			}
		}
		zb.TransformContainer(func(in zcode.Bytes) zcode.Bytes {
			before := append(zcode.Bytes{}, in...)
			out := zed.NormalizeSet(in)
			if string(before) != string(out) {
				b.reordered = true
			}
			return out
		})
		zb.EndContainer()
	case *zed.TypeMap:
		zb.BeginContainer()
		for i := range p.Ents {
			if err := b.build(zb, t.KeyType, &p.Ents[i].Key); err != nil {
				return err
			}
			if err := b.build(zb, t.ValType, &p.Ents[i].Val); err != nil {
				return err
			}
		}
		zb.TransformContainer(func(in zcode.Bytes) zcode.Bytes {
			before := append(zcode.Bytes{}, in...)
			out := zed.NormalizeMap(in)
			if string(before) != string(out) {
				b.reordered = true
			}
			return out
		})
		zb.EndContainer()
	case *zed.TypeUnion:
		if p.K != "union" {
			return fmt.Errorf("builder: payload %s for a union", p.K)
		}
		mt, err := toType(b.zctx, p.Mt, b.nm)
		if err != nil {
			return err
		}
		tag := t.TagOf(mt)
		if tag < 0 {
			return fmt.Errorf("builder: %s is not a member of the union", p.Mt.String())
		}
		var inner zcode.Builder
		if err := b.build(&inner, mt, p.Kid); err != nil {
			return err
		}
		zed.BuildUnion(zb, tag, inner.Bytes().Body())
	case *zed.TypeEnum:
		i := t.Lookup(b.nm.of(p.Sym))
		if i < 0 {
			return fmt.Errorf("builder: enum symbol %q", p.Sym)
		}
		zb.Append(zed.EncodeUint(uint64(i)))
	case *zed.TypeError:
		return b.build(zb, t.Type, p.Kid)
	case *zed.TypeOfType:
		ty, err := toType(b.zctx, p.Ty, b.nm)
		if err != nil {
			return err
		}
		zb.Append(zed.EncodeTypeValue(ty))
	default:
		bytes, err := b.prim(typ)
		if err != nil {
			return err
		}
		zb.Append(bytes)
	}
	return nil
}
