package main

import (
	"fmt"
	"io"
	"strings"
	"unicode/utf8"

	zed "github.com/brimdata/super"
	"github.com/brimdata/super/zcode"
	"github.com/brimdata/super/zio/zsonio"
	"github.com/brimdata/super/zson"
)

// The lexer-buffer stage (specs/ZsonDecorLex.tla).  TLC checks on the
// transcribed lexer, with small buffers, that the token stream does not
// depend on where the buffer refills fall, and exports the refill situations
// (which lookahead met a refill with how many bytes in hand).  Here the real
// lexer, with its real 64 KiB buffer, is driven into each of them: texts that
// the real writer produced are padded so that a chosen byte of a multi-byte
// rune of an unquoted field name / type name / enum symbol (and, as control,
// of a quoted string) sits exactly on the first refill boundary; a recording
// reader confirms that the refill happened there; the values must read back.
// Long streams shifted by 0..7 bytes exercise the later boundaries, and
// primitive candidates around half / all of the buffer size bind PrimLemma.

const lexReadSize = zson.ReadSize

type situation struct {
	Op  string `json:"op"`
	Rem int    `json:"rem"`
}

type lexSpec struct {
	Situations []situation `json:"situations"`
	Cases      int         `json:"cases"`
	Shortbuf   int         `json:"shortbuf"`
}

// recReader records the offset at which every Read starts.
type recReader struct {
	r      *strings.Reader
	off    int
	starts []int
}

func (r *recReader) Read(p []byte) (int, error) {
	r.starts = append(r.starts, r.off)
	n, err := r.r.Read(p)
	r.off += n
	return n, err
}

// names with 2-, 3- and 4-byte letters (identifiers, so the formatter writes them unquoted)
var lexNames = map[int]string{2: "имя", 3: "日本語", 4: "\U00010400\U00010401\U00010402"}

// lexLine builds the i-th value of a stream that shows name in the given place, and the marker after
// which the name starts in the value's text.
func lexLine(zctx *zed.Context, kind, name string, i int) (zed.Value, string) { // (the second result is unused)
	var b zcode.Builder
	switch kind {
	case "fieldname":
		typ := zctx.MustLookupTypeRecord([]zed.Field{zed.NewField("n", zed.TypeInt64), zed.NewField(name, zed.TypeInt64)})
		b.BeginContainer()
		b.Append(zed.EncodeInt(int64(i)))
		b.Append(zed.EncodeInt(int64(i)))
		b.EndContainer()
		return zed.NewValue(typ, b.Bytes().Body()).Copy(), "," + ""
	case "typedef", "typeref":
		// No primitive literal may stand before the decorator: peekPrimitive scans ahead to the next space or
		// comma and would buffer the name before scanTypeName gets to it.
		rec := zctx.MustLookupTypeRecord([]zed.Field{zed.NewField("x", zed.TypeString)})
		named, err := zctx.LookupTypeNamed(name, rec)
		if err != nil {
			panic(err)
		}
		one := func(s string) {
			b.BeginContainer()
			b.Append(zcode.Bytes(s))
			b.EndContainer()
		}
		if kind == "typedef" {
			one(fmt.Sprintf("s%d", i)) // {x:"s1"}(=name)
			return zed.NewValue(named, b.Bytes().Body()).Copy(), ""
		}
		b.BeginContainer() // [{x:"a1"}(=name),{x:"b1"}(name)]
		one(fmt.Sprintf("a%d", i))
		one(fmt.Sprintf("b%d", i))
		b.EndContainer()
		return zed.NewValue(zctx.LookupTypeArray(named), b.Bytes().Body()).Copy(), ""
	case "enumsym":
		// the first symbol of the enum type is buffered by the primitive scan that starts at %; the second is not
		typ := zctx.LookupTypeEnum([]string{"x", name})
		rt := zctx.MustLookupTypeRecord([]zed.Field{zed.NewField("n", zed.TypeInt64), zed.NewField("e", typ)})
		b.BeginContainer()
		b.Append(zed.EncodeInt(int64(i)))
		b.Append(zed.EncodeUint(0))
		b.EndContainer()
		return zed.NewValue(rt, b.Bytes().Body()).Copy(), ""
	default: // "string": the control, a quoted string is scanned byte-wise
		typ := zctx.MustLookupTypeRecord([]zed.Field{zed.NewField("n", zed.TypeInt64), zed.NewField("s", zed.TypeString)})
		b.BeginContainer()
		b.Append(zed.EncodeInt(int64(i)))
		b.Append(zcode.Bytes(name))
		b.EndContainer()
		return zed.NewValue(typ, b.Bytes().Body()).Copy(), `s:"`
	}
}

// lexMarker is the text right before the name in the i-th line of a stream of the given kind.
func lexMarker(kind string, i int) string {
	switch kind {
	case "fieldname":
		return ","
	case "typedef":
		return "}(="
	case "typeref":
		return "}("
	case "enumsym":
		return "enum(x,"
	}
	return `s:"`
}

// readBack reads text with zsonio over a recording reader and compares with the originals.
func readBack(text string, vals []zed.Value) (starts []int, bad int, err error) {
	rr := &recReader{r: strings.NewReader(text)}
	got, err := readAll(zsonio.NewReader(zed.NewContext(), rr).Read)
	if err != nil {
		return rr.starts, len(got), err
	}
	if len(got) != len(vals) {
		return rr.starts, len(got), fmt.Errorf("%d values read, %d written", len(got), len(vals))
	}
	for i := range vals {
		if canon(got[i]) != canon(vals[i]) {
			return rr.starts, i, fmt.Errorf("value %d reads back as %s", i, safeFormat(got[i]))
		}
	}
	return rr.starts, -1, nil
}

func contains(xs []int, x int) bool {
	for _, y := range xs {
		if y == x {
			return true
		}
	}
	return false
}

// lexTarget runs one targeted case: byte h of the second rune of the name, shown as kind, sits on the refill boundary.
func (e *env) lexTarget(kind string, k, h int) (refilled bool) {
	c := e.c
	class := fmt.Sprintf("refill:%s:rune%d:have%d", kind, k, h)
	name := lexNames[k]
	zctx := zed.NewContext()
	var vals []zed.Value
	for i := 0; i < 4200; i++ {
		v, _ := lexLine(zctx, kind, name, 100000+i)
		vals = append(vals, v)
	}
	texts, err := write(vals, &cfg{Scope: "value", Reader: "stream"}, 0, true)
	w := witness{Kind: "lexbuf", Class: class}
	if err != nil {
		c.Violate("lexbuf:format-error", fmt.Sprintf("writing the %s stream fails: %v", kind, err), w)
		return false
	}
	// the offset, in the unpadded text, of the second rune of the name in every line
	var targets []int
	off := 0
	for i, t := range texts {
		m := lexMarker(kind, 100000+i)
		j := strings.Index(t, m+name)
		if j < 0 {
			c.Inconclusive("lexbuf: the text `%s` does not show %s after %q (harness)", t, name, m)
			return false
		}
		_, first := utf8.DecodeRuneInString(name)
		targets = append(targets, off+j+len(m)+first)
		off += len(t) + 1
	}
	want := lexReadSize - h
	pad := -1
	for _, t := range targets {
		if t <= want {
			pad = want - t
		}
	}
	if pad < 0 || off+pad < lexReadSize+100 {
		c.Inconclusive("lexbuf: stream too short for a refill (harness)")
		return false
	}
	text := strings.Repeat(" ", pad) + strings.Join(texts, "\n") + "\n"
	starts, bad, err := readBack(text, vals)
	refilled = contains(starts, lexReadSize)
	c.Eval("lexbuf|"+class, refilled && kind != "string")
	if err != nil {
		c.Violate("lexbuf:refill:"+kind, fmt.Sprintf("a %d-byte rune of an unquoted %s with %d byte(s) before the lexer's %d-byte refill boundary: the stream of %d values that zsonio.Writer wrote stops reading back at value %d (`%s`): %v",
			k, kind, h, lexReadSize, len(vals), bad, texts[min(max(bad, 0), len(texts)-1)], err), w)
	}
	if err == nil && !refilled {
		c.Drift("lexbuf: %s: the real lexer did not refill at offset %d (reads started at %v)", class, lexReadSize, starts)
	}
	return refilled
}

// lexShifted: a long mixed stream shifted by 0..7 bytes (later refill boundaries fall wherever they fall).
func (e *env) lexShifted(shift int) {
	c := e.c
	zctx := zed.NewContext()
	var vals []zed.Value
	kinds := []string{"fieldname", "typedef", "enumsym", "string", "typeref"}
	for i := 0; i < 7000; i++ {
		v, _ := lexLine(zctx, kinds[i%len(kinds)], lexNames[2+(i/len(kinds))%3], i)
		vals = append(vals, v)
	}
	texts, err := write(vals, &cfg{Scope: "value", Reader: "stream"}, 0, true)
	w := witness{Kind: "lexbuf", Class: fmt.Sprintf("shifted:%d", shift)}
	if err != nil {
		c.Violate("lexbuf:format-error", fmt.Sprintf("writing the mixed stream fails: %v", err), w)
		return
	}
	text := strings.Repeat(" ", shift) + strings.Join(texts, "\n") + "\n"
	starts, bad, err := readBack(text, vals)
	c.Eval(fmt.Sprintf("lexbuf|shifted|%d", shift), len(starts) > 3)
	if err != nil {
		c.Violate("lexbuf:refill:mixed", fmt.Sprintf("a %d-byte stream of %d values written by zsonio.Writer, shifted by %d bytes, stops reading back at value %d (`%s`): %v",
			len(text), len(vals), shift, bad, texts[min(max(bad, 0), len(texts)-1)], err), w)
	}
}

// lexPrimitive: a primitive candidate (a bytes literal) of textLen characters that starts at offset start of the stream.
// expect: "ok" / "shortbuf" as PrimLemma says, "" where the lemma says it depends on the alignment.
func (e *env) lexPrimitive(textLen, start int, expect string) {
	c := e.c
	class := fmt.Sprintf("primitive:len%d:at%d", textLen, start)
	v := zed.NewValue(zed.TypeBytes, zcode.Bytes(strings.Repeat("\xab", (textLen-2)/2)))
	filler, after := zed.NewValue(zed.TypeInt64, zed.EncodeInt(7)), zed.NewValue(zed.TypeString, zcode.Bytes("end"))
	text := strings.Repeat(" ", start) + zson.FormatValue(v) + "\n" + zson.FormatValue(filler) + "\n" + zson.FormatValue(after) + "\n"
	_, bad, err := readBack(text, []zed.Value{v, filler, after})
	c.Eval("lexbuf|"+class, true)
	w := witness{Kind: "lexbuf", Class: class}
	real := "ok"
	if err != nil {
		real = "error"
		if strings.Contains(err.Error(), "short buffer") {
			real = "shortbuf"
		}
	}
	if real != "ok" {
		sig := "lexbuf:refill:primitive"
		if real == "shortbuf" && 2*(textLen+utf8.UTFMax) > lexReadSize {
			sig = "lexbuf:long-primitive"
		}
		c.Violate(sig, fmt.Sprintf("a bytes value whose literal is %d characters long, at offset %d of the text, does not read back (value %d): %v", textLen, start, bad, err), w)
	}
	if expect != "" {
		if expect != real {
			c.Drift("lexbuf: primitive candidate of %d characters at offset %d: PrimLemma says %s, real %s", textLen, start, expect, real)
		} else {
			c.Add("predictions_confirmed", 1)
		}
	}
}

func (e *env) lexbufClass(class string) bool {
	var kind string
	var k, h, a, b int
	class2 := strings.NewReplacer(":", " ").Replace(class)
	if n, _ := fmt.Sscanf(class2, "refill %s rune%d have%d", &kind, &k, &h); n == 3 {
		e.lexTarget(kind, k, h)
		return true
	}
	if n, _ := fmt.Sscanf(class2, "shifted %d", &a); n == 1 {
		e.lexShifted(a)
		return true
	}
	if n, _ := fmt.Sscanf(class2, "primitive len%d at%d", &a, &b); n == 2 {
		e.lexPrimitive(a, b, "")
		return true
	}
	return false
}

// lexbuf runs the stage.  spec is what TLC exported from ZsonDecorLex.tla.
func (e *env) lexbuf(spec *lexSpec) {
	c := e.c
	c.Set("lexer_spec_cases", spec.Cases)
	c.Set("lexer_spec_situations", spec.Situations)
	reached := map[situation]bool{}
	for _, kind := range []string{"fieldname", "typedef", "typeref", "enumsym", "string"} {
		for k := 2; k <= 4; k++ {
			for h := 1; h < k; h++ {
				if e.lexTarget(kind, k, h) {
					op := "peekRune"
					rem := h
					if kind == "string" {
						op, rem = "byte", 0
					}
					reached[situation{op, rem}] = true
				}
			}
		}
	}
	shifts := 4
	if !c.Quick() {
		shifts = 8
	}
	for s := 0; s < shifts; s++ {
		e.lexShifted(s)
	}
	// PrimLemma at the real buffer size
	half, full := lexReadSize/2, lexReadSize
	long := "shortbuf"
	if e.fillFixed {
		long = "ok"
	}
	for _, start := range []int{0, 1, half - 100, full - 3, full - 100} {
		e.lexPrimitive(half-utf8.UTFMax-2, start, "ok") // fits in half the buffer: never fails
		e.lexPrimitive(full+utf8.UTFMax+2, start, long) // longer than the buffer: always fails (unless fill is repaired)
	}
	e.lexPrimitive(half+10000, 0, "")
	e.lexPrimitive(half+10000, half-4000, "")
	reached[situation{"primitive", 0}] = true
	// every refill situation of a rune-wise or byte-wise lookahead that TLC found must have been reached on the real lexer
	for _, s := range spec.Situations {
		if s.Op == "primitive" || (s.Op == "peekRune" && s.Rem == 0) {
			continue // a refill with nothing in hand / inside a primitive scan happens in every stream above
		}
		if !reached[s] {
			c.Drift("lexbuf: the refill situation %+v of ZsonDecorLex.tla was not reached on the real lexer", s)
		} else {
			c.Add("lexer_situations_reached", 1)
		}
	}
	c.Logf("lexer-buffer stage done: %d situations of the spec reached", c.Count("lexer_situations_reached"))
}

var _ io.Reader = (*recReader)(nil)
