package main

import (
	"fmt"
	"strings"

	astzed "github.com/brimdata/super/compiler/ast/zed"
)

// The decorator skeleton of a ZSON text: the value AST of zson.Parser with
// primitive texts reduced to the literal's type.  realSkeleton renders the
// parser's AST, specSkeleton the AST predicted by ZsonDecor.tla (ToAST of
// the formatter's node); both in the same notation:
//   I(any)            ImpliedValue
//   D(any,name)       DefValue     (any = nil for the parser's DefValue{Of: nil})
//   C(value,type)     CastValue

func realSkeleton(v astzed.Value) string {
	switch v := v.(type) {
	case *astzed.ImpliedValue:
		return "I(" + realAny(v.Of) + ")"
	case *astzed.DefValue:
		return "D(" + realAny(v.Of) + "," + v.TypeName + ")"
	case *astzed.CastValue:
		return "C(" + realSkeleton(v.Of) + "," + realType(v.Type) + ")"
	case nil:
		return "nil"
	}
	return fmt.Sprintf("?%T", v)
}

func realAny(a astzed.Any) string {
	switch a := a.(type) {
	case nil:
		return "nil"
	case *astzed.Primitive:
		return "p:" + a.Type
	case *astzed.Record:
		var fs []string
		for _, f := range a.Fields {
			fs = append(fs, f.Name+"="+realSkeleton(f.Value))
		}
		return "{" + strings.Join(fs, ";") + "}"
	case *astzed.Array:
		return "[" + realList(a.Elements) + "]"
	case *astzed.Set:
		return "|[" + realList(a.Elements) + "]|"
	case *astzed.Map:
		var es []string
		for _, e := range a.Entries {
			es = append(es, realSkeleton(e.Key)+"=>"+realSkeleton(e.Value))
		}
		return "|{" + strings.Join(es, ";") + "}|"
	case *astzed.Enum:
		return "%" + a.Name
	case *astzed.Error:
		return "error(" + realSkeleton(a.Value) + ")"
	case *astzed.TypeValue:
		return "<" + realType(a.Value) + ">"
	}
	return fmt.Sprintf("?%T", a)
}

func realList(vals []astzed.Value) string {
	var es []string
	for _, e := range vals {
		es = append(es, realSkeleton(e))
	}
	return strings.Join(es, ";")
}

func realType(t astzed.Type) string {
	switch t := t.(type) {
	case *astzed.TypePrimitive:
		return t.Name
	case *astzed.TypeName:
		return "ref:" + t.Name
	case *astzed.TypeDef:
		return "def:" + t.Name + "=" + realType(t.Type)
	case *astzed.TypeRecord:
		var fs []string
		for _, f := range t.Fields {
			fs = append(fs, f.Name+":"+realType(f.Type))
		}
		return "{" + strings.Join(fs, ",") + "}"
	case *astzed.TypeArray:
		return "[" + realType(t.Type) + "]"
	case *astzed.TypeSet:
		return "|[" + realType(t.Type) + "]|"
	case *astzed.TypeMap:
		return "|{" + realType(t.KeyType) + ":" + realType(t.ValType) + "}|"
	case *astzed.TypeUnion:
		var ts []string
		for _, m := range t.Types {
			ts = append(ts, realType(m))
		}
		return "(" + strings.Join(ts, ",") + ")"
	case *astzed.TypeEnum:
		return "enum(" + strings.Join(t.Symbols, ",") + ")"
	case *astzed.TypeError:
		return "error(" + realType(t.Type) + ")"
	case *astzed.TypeNull:
		return "null"
	}
	return fmt.Sprintf("?%T", t)
}

// sast is the JSON of a spec AST (value, any or type node; the fields in use depend on K).
type sast struct {
	K    string  `json:"k"`
	Of   *sast   `json:"of,omitempty"`
	N    string  `json:"n,omitempty"`
	Ty   *sast   `json:"ty,omitempty"`
	Lit  string  `json:"lit,omitempty"`
	Fs   []sfld  `json:"fs,omitempty"`
	Es   []sast  `json:"es,omitempty"`
	Ents []sent  `json:"ents,omitempty"`
	Sym  string  `json:"sym,omitempty"`
	V    *sast   `json:"v,omitempty"`
	P    string  `json:"p,omitempty"`
	E    *sast   `json:"e,omitempty"`
	Kt   *sast   `json:"kt,omitempty"`
	Vt   *sast   `json:"vt,omitempty"`
	Ts   []sast  `json:"ts,omitempty"`
	Syms []string `json:"syms,omitempty"`
	T    *sast   `json:"t,omitempty"`
}

type sfld struct {
	N string `json:"n"`
	V *sast  `json:"v,omitempty"` // value ASTs: field value
	T *sast  `json:"t,omitempty"` // type ASTs: field type
}

type sent struct {
	Key sast `json:"key"`
	Val sast `json:"val"`
}

func specSkeleton(a *sast, nm names) string {
	switch a.K {
	case "implied":
		return "I(" + specAny(a.Of, nm) + ")"
	case "def":
		return "D(" + specAny(a.Of, nm) + "," + nm.of(a.N) + ")"
	case "cast":
		return "C(" + specSkeleton(a.Of, nm) + "," + specType(a.Ty, nm) + ")"
	}
	return "?" + a.K
}

func specAny(a *sast, nm names) string {
	switch a.K {
	case "nil":
		return "nil"
	case "prim":
		return "p:" + a.Lit
	case "rec":
		var fs []string
		for _, f := range a.Fs {
			fs = append(fs, nm.of(f.N)+"="+specSkeleton(f.V, nm))
		}
		return "{" + strings.Join(fs, ";") + "}"
	case "arr", "set":
		var es []string
		for i := range a.Es {
			es = append(es, specSkeleton(&a.Es[i], nm))
		}
		if a.K == "arr" {
			return "[" + strings.Join(es, ";") + "]"
		}
		return "|[" + strings.Join(es, ";") + "]|"
	case "map":
		var es []string
		for i := range a.Ents {
			es = append(es, specSkeleton(&a.Ents[i].Key, nm)+"=>"+specSkeleton(&a.Ents[i].Val, nm))
		}
		return "|{" + strings.Join(es, ";") + "}|"
	case "enum":
		return "%" + nm.of(a.Sym)
	case "err":
		return "error(" + specSkeleton(a.V, nm) + ")"
	case "tv":
		return "<" + specType(a.Ty, nm) + ">"
	}
	return "?" + a.K
}

func specType(t *sast, nm names) string {
	switch t.K {
	case "prim":
		return t.P
	case "ref":
		return "ref:" + nm.of(t.N)
	case "tdef":
		return "def:" + nm.of(t.N) + "=" + specType(t.Ty, nm)
	case "rec":
		var fs []string
		for _, f := range t.Fs {
			fs = append(fs, nm.of(f.N)+":"+specType(f.T, nm))
		}
		return "{" + strings.Join(fs, ",") + "}"
	case "arr":
		return "[" + specType(t.E, nm) + "]"
	case "set":
		return "|[" + specType(t.E, nm) + "]|"
	case "map":
		return "|{" + specType(t.Kt, nm) + ":" + specType(t.Vt, nm) + "}|"
	case "union":
		var ts []string
		for i := range t.Ts {
			ts = append(ts, specType(&t.Ts[i], nm))
		}
		return "(" + strings.Join(ts, ",") + ")"
	case "enum":
		var syms []string
		for _, s := range t.Syms {
			syms = append(syms, nm.of(s))
		}
		return "enum(" + strings.Join(syms, ",") + ")"
	case "err":
		return "error(" + specType(t.T, nm) + ")"
	}
	return "?" + t.K
}
