// C02 -- ZSON text round trip is the identity; JSON is a subset.
//
// TLC (specs/ZsonDecor.tla) transcribes the decoration decision and typedef
// scope logic of zson/formatter.go, the parser's decorator chain and the
// resolution logic of zson/analyzer.go over abstract syntax, checks
// Analyze(Parse(Format(s))) = s for every sequence of one or two values of a
// small alphabet x typedef scope x persist x reader off the named defect
// paths, and exports every case with the predicted value AST (decorator
// skeleton) and the predicted outcome; it also checks the typing of JSON
// documents by jsonio against their typing as ZSON and exports those cases.
//
// This harness instantiates every case to real values, writes them with
// zson.NewFormatter(pretty in {0,2,4}, persist) / zsonio.Writer, compares the
// decorator skeleton of the real text (zson.Parser's AST) with the spec's
// (binding), reads the text back with zsonio.NewReader / zson.ParseValue into
// a fresh context and evaluates the property's oracle: identical type and
// value.  JSON documents are rendered to text and read with zsonio and
// jsonio.  A lexical stage pushes boundary payloads (number, time, address
// and string extremes, odd names) through the same round trip.
package main

import (
	"bytes"
	"encoding/base64"
	"errors"
	"fmt"
	"math"
	"os"
	"path/filepath"
	"regexp"
	"sort"
	"strings"
	"time"

	zed "github.com/brimdata/super"
	"github.com/brimdata/super/zcode"
	"github.com/brimdata/super/zio"
	"github.com/brimdata/super/zio/jsonio"
	"github.com/brimdata/super/zio/zngio"
	"github.com/brimdata/super/zio/zsonio"
	"github.com/brimdata/super/zson"

	"verif/core"
)

type cfg struct {
	Scope     string   `json:"scope"`      // "value": Formatter.FormatRecord / zsonio.Writer; "stream": Formatter.Format
	PersistOn bool     `json:"persist_on"` // a persist regexp is given
	Persist   []string `json:"persist"`    // the names it matches
	Reader    string   `json:"reader"`     // "stream": one zsonio.Reader; "pervalue": zson.ParseValue per value, one context
}

// rtCase is one line of cases.ndjson (Run(c) of ZsonDecor.tla).
type rtCase struct {
	Seq   []aval   `json:"seq"`
	Cfg   cfg      `json:"cfg"`
	Asts  []sast   `json:"asts"`
	Res   []string `json:"res"` // per value: ok | error | differs | skipped
	Taint []string `json:"taint"`
}

func (c *rtCase) key() string {
	var s []string
	for i := range c.Seq {
		s = append(s, c.Seq[i].T.String()+"/"+payloadString(&c.Seq[i].V))
	}
	p := "-"
	if c.Cfg.PersistOn {
		p = "persist=" + strings.Join(c.Cfg.Persist, ",")
	}
	return fmt.Sprintf("%s|%s|%s|%s", c.Cfg.Scope, p, c.Cfg.Reader, strings.Join(s, " ; "))
}

func payloadString(p *payload) string {
	switch p.K {
	case "null":
		return "null"
	case "prim":
		return "_"
	case "rec", "seq":
		var s []string
		for i := range p.Kids {
			s = append(s, payloadString(&p.Kids[i]))
		}
		if p.K == "rec" {
			return "{" + strings.Join(s, ",") + "}"
		}
		return "[" + strings.Join(s, ",") + "]"
	case "map":
		var s []string
		for i := range p.Ents {
			s = append(s, payloadString(&p.Ents[i].Key)+":"+payloadString(&p.Ents[i].Val))
		}
		return "|{" + strings.Join(s, ",") + "}|"
	case "union":
		return payloadString(p.Kid) + "<" + p.Mt.String() + ">"
	case "enum":
		return "%" + p.Sym
	case "err":
		return "error(" + payloadString(p.Kid) + ")"
	case "tv":
		return "<" + p.Ty.String() + ">"
	}
	return "?"
}

// The defect paths of ZsonDecor.tla in the order in which a failing case is attributed to one of them.
var taintOrder = []string{"namedenum", "afterfull", "refbeforedef", "knownunion", "emptylost", "samename", "knownbyname", "tvbinds", "defundercast"}

func primaryTaint(taints []string) string {
	for _, t := range taintOrder {
		for _, x := range taints {
			if x == t {
				return t
			}
		}
	}
	if len(taints) > 0 {
		return taints[0]
	}
	return ""
}

type witness struct {
	Kind   string   `json:"kind"` // roundtrip | json | lexical
	Seq    []aval   `json:"seq,omitempty"`
	Cfg    *cfg     `json:"cfg,omitempty"`
	Pretty int      `json:"pretty"`
	Writer bool     `json:"writer,omitempty"` // written with zsonio.Writer instead of the Formatter
	Text   string   `json:"text,omitempty"`   // json: the document; roundtrip/lexical: the ZSON text produced (informational)
	ZNG    string   `json:"zng,omitempty"`    // lexical: the original values as a base64 ZNG stream
	Got    []string `json:"got,omitempty"`
	Class  string   `json:"class,omitempty"`
	// the spec's verdict on the case, so that a replay gives the violation the same signature
	SpecRes   []string `json:"spec_res,omitempty"`
	SpecTaint []string `json:"spec_taint,omitempty"`
}

type env struct {
	c   *core.Ctx
	lex *lexSpec // exported by ZsonDecorLex.tla
	// probed: Lexer.fill no longer runs into io.ErrShortBuffer on a long primitive candidate (F-C02-18 repaired)
	fillFixed bool
}

// canon renders a value canonically for comparison across contexts: the type as its type value, the
// bytes as they are, except that every NaN is the same NaN (the property says NaN equals NaN).
func canon(v zed.Value) string {
	var b strings.Builder
	b.WriteString(base64.StdEncoding.EncodeToString(zed.EncodeTypeValue(v.Type())))
	b.WriteByte('|')
	canonBytes(&b, v.Type(), v.Bytes())
	return b.String()
}

func canonBytes(b *strings.Builder, typ zed.Type, body zcode.Bytes) {
	if body == nil {
		b.WriteString("null")
		return
	}
	switch t := typ.(type) {
	case *zed.TypeNamed:
		canonBytes(b, t.Type, body)
	case *zed.TypeRecord:
		b.WriteByte('{')
		it := body.Iter()
		for _, f := range t.Fields {
			if it.Done() {
				b.WriteString("!short")
				break
			}
			canonBytes(b, f.Type, it.Next())
			b.WriteByte(',')
		}
		b.WriteByte('}')
	case *zed.TypeArray:
		b.WriteByte('[')
		for it := body.Iter(); !it.Done(); {
			canonBytes(b, t.Type, it.Next())
			b.WriteByte(',')
		}
		b.WriteByte(']')
	case *zed.TypeSet:
		b.WriteString("|[")
		for it := body.Iter(); !it.Done(); {
			canonBytes(b, t.Type, it.Next())
			b.WriteByte(',')
		}
		b.WriteString("]|")
	case *zed.TypeMap:
		b.WriteString("|{")
		for it := body.Iter(); !it.Done(); {
			canonBytes(b, t.KeyType, it.Next())
			b.WriteByte(':')
			if it.Done() {
				b.WriteString("!odd")
				break
			}
			canonBytes(b, t.ValType, it.Next())
			b.WriteByte(',')
		}
		b.WriteString("}|")
	case *zed.TypeUnion:
		it := body.Iter()
		tag := int(zed.DecodeInt(it.Next()))
		if tag < 0 || tag >= len(t.Types) || it.Done() {
			fmt.Fprintf(b, "!badtag%d", tag)
			return
		}
		fmt.Fprintf(b, "u%d:", tag)
		canonBytes(b, t.Types[tag], it.Next())
	case *zed.TypeError:
		b.WriteString("error(")
		canonBytes(b, t.Type, body)
		b.WriteByte(')')
	default:
		switch zed.TypeUnder(typ) {
		case zed.TypeFloat64:
			if math.IsNaN(zed.DecodeFloat64(body)) {
				b.WriteString("NaN")
				return
			}
		case zed.TypeFloat32:
			if math.IsNaN(float64(zed.DecodeFloat32(body))) {
				b.WriteString("NaN")
				return
			}
		case zed.TypeFloat16:
			if math.IsNaN(float64(zed.DecodeFloat16(body))) {
				b.WriteString("NaN")
				return
			}
		}
		fmt.Fprintf(b, "%x", []byte(body))
	}
}

// safe wraps a call into the code under test: a panic there is an outcome, not a harness failure.
func safe[T any](f func() (T, error)) (v T, err error) {
	defer func() {
		if r := recover(); r != nil {
			err = fmt.Errorf("panic: %v", r)
		}
	}()
	return f()
}

func safeFormat(v zed.Value) string {
	s, err := safe(func() (string, error) { return zson.FormatValue(v), nil })
	if err != nil {
		return fmt.Sprintf("<unformattable: %v>", err)
	}
	return s
}

// write formats the values as the configuration says and returns one text per value.
func write(vals []zed.Value, c *cfg, pretty int, useWriter bool) ([]string, error) {
	return safe(func() ([]string, error) {
		var persist *regexp.Regexp
		if c.PersistOn {
			var alts []string
			for _, n := range c.Persist {
				alts = append(alts, regexp.QuoteMeta(n))
			}
			persist = regexp.MustCompile("^(" + strings.Join(alts, "|") + ")$")
		}
		var texts []string
		if useWriter {
			// zsonio.Writer: FormatRecord + newline per value
			for range vals {
				texts = append(texts, "")
			}
			var buf bytes.Buffer
			w := zsonio.NewWriter(zio.NopCloser(&buf), zsonio.WriterOpts{ColorDisabled: true, Pretty: pretty, Persist: persist})
			prev := 0
			for i, v := range vals {
				if err := w.Write(v); err != nil {
					return nil, err
				}
				texts[i] = strings.TrimSuffix(string(buf.Bytes()[prev:]), "\n")
				prev = buf.Len()
			}
			return texts, w.Close()
		}
		f := zson.NewFormatter(pretty, true, persist)
		for _, v := range vals {
			if c.Scope == "value" {
				texts = append(texts, f.FormatRecord(v))
			} else {
				texts = append(texts, f.Format(v))
			}
		}
		return texts, nil
	})
}

// read parses the texts back into a fresh context as the configuration says.  It returns one
// outcome per value: the value, or the error after which the rest is skipped.
func read(texts []string, reader string) ([]zed.Value, []error) {
	zctx := zed.NewContext()
	vals := make([]zed.Value, len(texts))
	errs := make([]error, len(texts))
	if reader == "pervalue" {
		for i, t := range texts {
			v, err := safe(func() (zed.Value, error) { return zson.ParseValue(zctx, t) })
			if err != nil {
				errs[i] = err
				for j := i + 1; j < len(texts); j++ {
					errs[j] = errSkipped
				}
				break
			}
			vals[i] = v.Copy()
		}
		return vals, errs
	}
	r := zsonio.NewReader(zctx, strings.NewReader(strings.Join(texts, "\n")+"\n"))
	for i := range texts {
		v, err := safe(func() (*zed.Value, error) { return r.Read() })
		if err == nil && v == nil {
			err = errors.New("end of input")
		}
		if err != nil {
			errs[i] = err
			for j := i + 1; j < len(texts); j++ {
				errs[j] = errSkipped
			}
			break
		}
		vals[i] = v.Copy()
	}
	return vals, errs
}

var errSkipped = errors.New("skipped")

// outcome compares what was read with the originals: ok | error | differs | skipped per value.
func outcome(orig, got []zed.Value, errs []error) []string {
	res := make([]string, len(orig))
	for i := range orig {
		switch {
		case errs[i] == errSkipped:
			res[i] = "skipped"
		case errs[i] != nil:
			res[i] = "error"
		case canon(orig[i]) == canon(got[i]):
			res[i] = "ok"
		default:
			res[i] = "differs"
		}
	}
	return res
}

func allOK(res []string) bool {
	for _, r := range res {
		if r != "ok" {
			return false
		}
	}
	return true
}

func describe(orig []zed.Value, texts []string, got []zed.Value, errs []error, res []string) string {
	var parts []string
	for i := range orig {
		switch res[i] {
		case "error":
			parts = append(parts, fmt.Sprintf("value %d, %s of type %s, is written as `%s`, which is rejected: %v",
				i, safeFormat(orig[i]), zson.FormatType(orig[i].Type()), texts[i], errs[i]))
		case "differs":
			parts = append(parts, fmt.Sprintf("value %d, of type %s, is written as `%s`, which reads back as %s of type %s",
				i, zson.FormatType(orig[i].Type()), texts[i], safeFormat(got[i]), zson.FormatType(got[i].Type())))
		}
	}
	return strings.Join(parts, "; ")
}

// checkRT replays one round-trip case with one formatter setting.
func (e *env) checkRT(tc *rtCase, pretty int, useWriter bool) error {
	c := e.c
	b := &builder{zctx: zed.NewContext(), nm: names{}}
	var vals []zed.Value
	for i := range tc.Seq {
		v, err := b.value(&tc.Seq[i])
		if err != nil {
			return err
		}
		vals = append(vals, v)
	}
	texts, err := write(vals, &tc.Cfg, pretty, useWriter)
	w := witness{Kind: "roundtrip", Seq: tc.Seq, Cfg: &tc.Cfg, Pretty: pretty, Writer: useWriter, Text: strings.Join(texts, "\n"), SpecRes: tc.Res, SpecTaint: tc.Taint}
	specOK := allOK(tc.Res)
	if err != nil {
		c.Eval(fmt.Sprintf("rt|%s|%d|%v", tc.key(), pretty, useWriter), true)
		c.Violate("roundtrip:format-error", fmt.Sprintf("formatting %s fails: %v", tc.key(), err), w)
		return nil
	}
	got, errs := read(texts, tc.Cfg.Reader)
	res := outcome(vals, got, errs)
	for i := range got {
		if errs[i] == nil {
			w.Got = append(w.Got, safeFormat(got[i]))
		} else {
			w.Got = append(w.Got, "error: "+errs[i].Error())
		}
	}
	decorated := false
	for _, t := range texts {
		if strings.ContainsAny(t, "(") {
			decorated = true
		}
	}
	c.Eval(fmt.Sprintf("rt|%s|%d|%v", tc.key(), pretty, useWriter), decorated || len(tc.Seq) > 1)
	// the property's oracle
	if !allOK(res) {
		sig := "roundtrip:unpredicted"
		if !specOK {
			sig = "roundtrip:" + primaryTaint(tc.Taint)
		}
		c.Violate(sig, fmt.Sprintf("ZSON round trip (%s scope, reader %s, pretty %d): %s", tc.Cfg.Scope, tc.Cfg.Reader, pretty, describe(vals, texts, got, errs, res)), w)
	}
	// binding: the spec's predicted outcome and decorator skeleton
	if tc.Asts == nil {
		return nil // replay of a witness: no prediction to compare with
	}
	ok := true
	if strings.Join(res, ",") != strings.Join(tc.Res, ",") {
		ok = false
		c.Drift("outcome: %s: spec %v real %v (text %s)", tc.key(), tc.Res, res, strings.Join(texts, " ; "))
	}
	if !b.reordered {
		for i, t := range texts {
			if i >= len(tc.Asts) {
				break // the spec stops writing at the first value that is rejected
			}
			ast, err := zson.NewParser(strings.NewReader(t)).ParseValue()
			if err != nil || ast == nil {
				if tc.Res[i] != "error" {
					ok = false
					c.Drift("skeleton: %s: the text `%s` does not parse: %v", tc.key(), t, err)
				}
				continue
			}
			want := specSkeleton(&tc.Asts[i], b.nm)
			if have := realSkeleton(ast); have != want {
				ok = false
				c.Drift("skeleton: %s: value %d is written as `%s`: spec %s real %s", tc.key(), i, t, want, have)
			}
		}
	} else {
		c.Add("skeleton_not_compared_set_or_map_reordered", 1)
	}
	if ok {
		c.Add("predictions_confirmed", 1)
	}
	if c.Count("evaluations")%1300 == 1 {
		c.Sample(map[string]any{"case": tc.key(), "pretty": pretty, "text": texts, "spec_skeleton": specSkeleton(&tc.Asts[0], b.nm), "spec_outcome": tc.Res, "real_outcome": res, "spec_taint": tc.Taint})
	}
	return nil
}

func run(c *core.Ctx) error {
	e := &env{c: c}
	c.Trust("TLC 1.8; zcode.Builder / zed.BuildUnion / NormalizeSet / NormalizeMap / EncodeTypeValue to build the original values; zson.Parser for the skeleton of the produced text; the canonical comparison (type value + bytes, NaN = NaN) of canon()")
	c.Assume("round-trip alphabet: the types of ZsonDecor.tla (int64, uint8, string, float64, type, null; records, arrays, sets, maps, unions, enums, errors; type names N, M incl. rebinding and nesting), 1-2 values per stream; payloads of the spec-bound stage are plain, boundary payloads and odd names go through the lexical stage; numeric type names (aliases) and union types with duplicate members are outside the universe")
	c.Rule("cases = every value sequence x writer scope x persist x reader enumerated by TLC from ZsonDecor.tla (first values reduced to one per distinct writer/reader state), each replayed with pretty in {0,2,4} (pretty 0 also through zsonio.Writer); every JSON document enumerated by TLC rendered with two whitespace styles and read with zsonio and jsonio; the lexical universe (boundary primitives, odd names) in 4 contexts; non-trivial = the text carries a decorator or the stream has more than one value / the JSON document is not a bare scalar / the payload is not the plain one")
	if c.Replay != "" {
		return e.replay()
	}
	cases, jcases, err := e.runTLC()
	if err != nil || cases == nil {
		return err
	}
	// Self-test of the binding (C02_CORRUPT=1): falsify one predicted skeleton and one predicted
	// outcome; the conformance step must report both as drift.
	if os.Getenv("C02_CORRUPT") != "" {
		for i := len(cases) / 2; i < len(cases); i++ {
			if allOK(cases[i].Res) && cases[i].Asts[0].K == "cast" {
				c.Logf("C02_CORRUPT: predicted skeleton of %s: outer decorator removed", cases[i].key())
				cases[i].Asts[0] = *cases[i].Asts[0].Of
				break
			}
		}
		for i := len(cases) / 3; i < len(cases); i++ {
			if allOK(cases[i].Res) {
				c.Logf("C02_CORRUPT: predicted outcome of %s changed to differs", cases[i].key())
				cases[i].Res[0] = "differs"
				cases[i].Taint = []string{"emptylost"}
				break
			}
		}
	}
	c.Set("roundtrip_cases", len(cases))
	c.Set("json_cases", len(jcases))
	c.Set("exhaustive", true)
	tainted := map[string]int{}
	specFail := 0
	for i := range cases {
		for _, t := range cases[i].Taint {
			tainted[t]++
		}
		if !allOK(cases[i].Res) {
			specFail++
		}
	}
	c.Set("spec_tainted_cases", tainted)
	c.Set("spec_predicted_failures", specFail)
	c.Logf("TLC exported %d round-trip cases (%d predicted to fail, on defect paths %v) and %d JSON cases", len(cases), specFail, tainted, len(jcases))
	for i := range cases {
		for _, pretty := range []int{0, 2, 4} {
			if err := e.checkRT(&cases[i], pretty, false); err != nil {
				return fmt.Errorf("case %s: %w", cases[i].key(), err)
			}
		}
		if cases[i].Cfg.Scope == "value" {
			if err := e.checkRT(&cases[i], 0, true); err != nil {
				return fmt.Errorf("case %s: %w", cases[i].key(), err)
			}
		}
	}
	c.Add("traces_validated_against_impl", int64(len(cases)))
	c.Logf("round-trip cases replayed: %d evaluations, %d predictions confirmed, %d drift", c.Count("evaluations"), c.Count("predictions_confirmed"), c.Count("drift_count"))
	for i := range jcases {
		e.checkJSON(&jcases[i])
	}
	c.Add("traces_validated_against_impl", int64(len(jcases)))
	c.Logf("JSON cases replayed: %d", len(jcases))
	e.lexical()
	e.lexbuf(e.lex)
	return nil
}

func (e *env) runTLC() ([]rtCase, []jsonCase, error) {
	c := e.c
	nshards, cfgName, timeout := 4, "ZsonDecor.quick.cfg", 8*time.Minute
	if !c.Quick() {
		nshards, cfgName, timeout = 8, "ZsonDecor.thorough.cfg", 45*time.Minute
	}
	if n := os.Getenv("C02_CFG"); n != "" { // development
		cfgName = n
	}
	cfgBytes, err := os.ReadFile(filepath.Join(core.VerifDir, "specs", "cfg", cfgName))
	if err != nil {
		return nil, nil, err
	}
	fixed := e.probeFixed()
	cfgBytes = bytes.Replace(cfgBytes, []byte("\n  Fixed = {}"), []byte("\n  Fixed = "+fixed), 1)
	os.Setenv("JAVA_TOOL_OPTIONS", "-XX:ParallelGCThreads=2 -XX:TieredStopAtLevel=1")
	type result struct {
		cases []rtCase
		json  []jsonCase
		err   error
		ok    bool
	}
	results := make([]result, nshards)
	done := make(chan int)
	// the lexer-buffer spec runs next to the shards
	lexCfg := "ZsonDecorLex.quick.cfg"
	if !c.Quick() {
		lexCfg = "ZsonDecorLex.thorough.cfg"
	}
	lexDone := make(chan *lexSpec)
	go func() {
		lexCfgBytes, err := os.ReadFile(filepath.Join(core.VerifDir, "specs", "cfg", lexCfg))
		if err != nil {
			c.Inconclusive("%v", err)
			lexDone <- nil
			return
		}
		lexCfgText := string(lexCfgBytes)
		if e.fillFixed {
			lexCfgText = strings.Replace(lexCfgText, "\n  FixedFill = FALSE", "\n  FixedFill = TRUE", 1)
		}
		res := c.MustHold(core.TLCRun{Module: "ZsonDecorLex", Cfg: lexCfgText, Keep: []string{"lex.json"}, Workers: 1, Timeout: timeout, HeapMB: 3072})
		if res == nil {
			lexDone <- nil
			return
		}
		var ls lexSpec
		if err := core.ReadJSONFile(res, "lex.json", &ls); err != nil {
			c.Inconclusive("lex.json: %v", err)
			lexDone <- nil
			return
		}
		lexDone <- &ls
	}()
	for s := 0; s < nshards; s++ {
		go func(s int) {
			defer func() { done <- s }()
			cfg := strings.Replace(string(cfgBytes), "\n  Shard = 0", fmt.Sprintf("\n  Shard = %d", s), 1)
			cfg = strings.Replace(cfg, "\n  NShards = 1", fmt.Sprintf("\n  NShards = %d", nshards), 1)
			res := c.MustHold(core.TLCRun{Module: "ZsonDecor", Cfg: cfg, Keep: []string{"cases.ndjson", "json.ndjson"}, Workers: 1, Timeout: timeout, HeapMB: 3072})
			if res == nil {
				return
			}
			r := &results[s]
			r.cases, r.err = core.ReadNDJSON[rtCase](res, "cases.ndjson")
			if r.err == nil && s == 0 {
				r.json, r.err = core.ReadNDJSON[jsonCase](res, "json.ndjson")
			}
			r.ok = r.err == nil
		}(s)
	}
	for s := 0; s < nshards; s++ {
		<-done
	}
	e.lex = <-lexDone
	if e.lex == nil {
		return nil, nil, nil
	}
	var cases []rtCase
	var jcases []jsonCase
	for s := range results {
		if results[s].err != nil {
			return nil, nil, results[s].err
		}
		if !results[s].ok {
			return nil, nil, nil
		}
		cases = append(cases, results[s].cases...)
		jcases = append(jcases, results[s].json...)
	}
	sort.SliceStable(cases, func(i, j int) bool { return cases[i].key() < cases[j].key() })
	sort.SliceStable(jcases, func(i, j int) bool { return jcases[i].Doc.text(0) < jcases[j].Doc.text(0) })
	return cases, jcases, nil
}

// probeFixed tells which of the switchable defect paths of ZsonDecor.tla the tree under test no longer
// has (constant Fixed), so that the transcription follows a repaired tree.  It decides no verdict.
func (e *env) probeFixed() string {
	var fixed []string
	zctx := zed.NewContext()
	// an empty [uint8] at the top level keeps its decorator
	empty := zed.NewValue(zctx.LookupTypeArray(zed.TypeUint8), zcode.Bytes{})
	if t, err := safe(func() (string, error) { return zson.FormatValue(empty), nil }); err == nil && strings.Contains(t, "(") {
		fixed = append(fixed, `"emptylost"`)
	}
	// a value of a named enum type reads back
	if named, err := zctx.LookupTypeNamed("N", zctx.LookupTypeEnum([]string{"x", "y"})); err == nil {
		v := zed.NewValue(named, zed.EncodeUint(1))
		if t, err := safe(func() (string, error) { return zson.FormatValue(v), nil }); err == nil {
			if got, err := safe(func() (zed.Value, error) { return zson.ParseValue(zed.NewContext(), t) }); err == nil && canon(got) == canon(v) {
				fixed = append(fixed, `"namedenum"`)
			}
		}
	}
	read1 := func(text string) (zed.Value, bool) {
		vals, err := readAll(zsonio.NewReader(zed.NewContext(), strings.NewReader(text)).Read)
		if err != nil || len(vals) != 1 {
			return zed.Null, false
		}
		return vals[0], true
	}
	if v, ok := read1("9223372036854775808"); ok && v.Type() == zed.TypeFloat64 {
		fixed = append(fixed, `"uint64"`)
	}
	if v, ok := read1(`{"a":1,"a":2}`); ok && safeFormat(v) == "{a:2}" {
		fixed = append(fixed, `"dupkey"`)
	}
	// a bytes literal longer than the lexer's buffer reads back
	long := zed.NewValue(zed.TypeBytes, zcode.Bytes(strings.Repeat("\xab", zson.ReadSize)))
	if got, err := safe(func() (zed.Value, error) { return zson.ParseValue(zed.NewContext(), zson.FormatValue(long)) }); err == nil && canon(got) == canon(long) {
		e.fillFixed = true
		fixed = append(fixed, `"shortbuf"`)
	}
	e.c.Set("spec_defect_paths_repaired_in_tree", fixed)
	if len(fixed) > 0 {
		e.c.Logf("probe: the tree under test no longer has the defect path(s) %s; the specs are checked with the matching constants (ZsonDecor.tla Fixed, ZsonDecorLex.tla FixedFill for \"shortbuf\")", strings.Join(fixed, ","))
	}
	var decor []string
	for _, f := range fixed {
		if f != `"shortbuf"` {
			decor = append(decor, f)
		}
	}
	return "{" + strings.Join(decor, ", ") + "}"
}

func (e *env) replay() error {
	var w witness
	if _, err := e.c.ReplayWitness(&w); err != nil {
		return err
	}
	switch w.Kind {
	case "roundtrip":
		tc := rtCase{Seq: w.Seq, Cfg: *w.Cfg, Res: w.SpecRes, Taint: w.SpecTaint}
		for len(tc.Res) < len(w.Seq) {
			tc.Res = append(tc.Res, "ok") // no prediction: any failure is reported as unpredicted
		}
		if err := e.checkRT(&tc, w.Pretty, w.Writer); err != nil {
			return err
		}
		fmt.Printf("replayed: %s\n", tc.key())
		return nil
	case "json":
		e.checkJSONText(w.Text, w.Class, len(w.SpecTaint) == 0, w.SpecTaint)
	case "lexbuf":
		if !e.lexbufClass(w.Class) {
			return fmt.Errorf("unknown lexbuf class %q", w.Class)
		}
	case "lexical":
		raw, err := base64.StdEncoding.DecodeString(w.ZNG)
		if err != nil {
			return err
		}
		zctx := zed.NewContext()
		r := zngio.NewReader(zctx, bytes.NewReader(raw))
		defer r.Close()
		var vals []zed.Value
		for {
			v, err := r.Read()
			if err != nil {
				return err
			}
			if v == nil {
				break
			}
			vals = append(vals, v.Copy())
		}
		e.lexicalCheck(vals, w.Class, w.Pretty)
	}
	return nil
}

func main() { core.Main("C02", "model_checking", run) }

var _ = jsonio.NewReader
