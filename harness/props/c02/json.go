package main

import (
	"fmt"
	"strings"

	zed "github.com/brimdata/super"
	"github.com/brimdata/super/zio/jsonio"
	"github.com/brimdata/super/zio/zsonio"
	"github.com/brimdata/super/zson"
)

// jdoc is a JSON document of ZsonDecor.tla, Part 2.
type jdoc struct {
	K  string   `json:"k"` // num | str | bool | null | arr | obj
	C  string   `json:"c,omitempty"`
	Es []jdoc   `json:"es,omitempty"`
	Fs []jfield `json:"fs,omitempty"`
}

type jfield struct {
	N string `json:"n"`
	V jdoc   `json:"v"`
}

// jsonCase is one line of json.ndjson.
type jsonCase struct {
	Doc    jdoc     `json:"doc"`
	Json   aval     `json:"json"`
	ZsonOK bool     `json:"zson_ok"`
	Zson   aval     `json:"zson"`
	Same   bool     `json:"same"`
	Taint  []string `json:"taint"`
}

// literals of each number class; style selects among them and the whitespace
var numLits = map[string][]string{
	"int":  {"7", "-9223372036854775808", "9223372036854775807", "-0"},
	"uint": {"9223372036854775808", "18446744073709551615"},
	"big":  {"18446744073709551616", "100000000000000000000"},
	"frac": {"1.5", "-2.25e3", "1E+2", "0.5e-3"},
}

type renderer struct {
	style int
	n     int
}

func (r *renderer) next(list []string) string {
	s := list[(r.n+r.style)%len(list)]
	r.n++
	return s
}

func (d *jdoc) render(r *renderer, b *strings.Builder) {
	sp := ""
	if r.style%2 == 1 {
		sp = " "
	}
	switch d.K {
	case "num":
		b.WriteString(r.next(numLits[d.C]))
	case "str":
		b.WriteString(r.next([]string{`"s"`, `""`, `"a b"`, `"é\n"`}))
	case "bool":
		b.WriteString(r.next([]string{"true", "false"}))
	case "null":
		b.WriteString("null")
	case "arr":
		b.WriteString("[" + sp)
		for i := range d.Es {
			if i > 0 {
				b.WriteString("," + sp)
			}
			d.Es[i].render(r, b)
		}
		b.WriteString(sp + "]")
	case "obj":
		b.WriteString("{" + sp)
		for i := range d.Fs {
			if i > 0 {
				b.WriteString("," + sp)
			}
			fmt.Fprintf(b, "%q%s:%s", d.Fs[i].N, sp, sp)
			d.Fs[i].V.render(r, b)
		}
		b.WriteString(sp + "}")
	}
}

func (d *jdoc) text(style int) string {
	var b strings.Builder
	d.render(&renderer{style: style}, &b)
	if style%2 == 1 {
		return "\n " + b.String() + "\n"
	}
	return b.String()
}

func (d *jdoc) scalar() bool { return d.K != "arr" && d.K != "obj" }

func readAll(read func() (*zed.Value, error)) ([]zed.Value, error) {
	return safe(func() ([]zed.Value, error) {
		var out []zed.Value
		for {
			v, err := read()
			if err != nil {
				return out, err
			}
			if v == nil {
				return out, nil
			}
			out = append(out, v.Copy())
		}
	})
}

// checkJSON renders one TLC document in two styles and compares zsonio with jsonio.
func (e *env) checkJSON(jc *jsonCase) {
	for style := 0; style < 2; style++ {
		e.c.Eval(fmt.Sprintf("json|%s|%d", jc.Doc.text(0), style), !jc.Doc.scalar())
		e.checkJSONText(jc.Doc.text(style), "", jc.Same, jc.Taint)
	}
	if e.c.Count("evaluations")%400 < 2 {
		e.c.Sample(map[string]any{"json": jc.Doc.text(1), "spec_same": jc.Same, "spec_taint": jc.Taint, "spec_json_type": jc.Json.T.String(), "spec_zson_type": jc.Zson.T.String()})
	}
}

// checkJSONText reads text as JSON and as ZSON.  class is the payload class of a lexical case ("" for a TLC case).
func (e *env) checkJSONText(text, class string, specSame bool, taint []string) {
	c := e.c
	jr := jsonio.NewReader(zed.NewContext(), strings.NewReader(text))
	jvals, jerr := readAll(jr.Read)
	zr := zsonio.NewReader(zed.NewContext(), strings.NewReader(text))
	zvals, zerr := readAll(zr.Read)
	if jerr != nil {
		// not a document the JSON reader accepts: nothing is claimed about it
		c.Add("json_texts_rejected_by_jsonio", 1)
		return
	}
	w := witness{Kind: "json", Text: text, Class: class, SpecTaint: taint}
	same := zerr == nil && len(jvals) == len(zvals)
	if same {
		for i := range jvals {
			if canon(jvals[i]) != canon(zvals[i]) {
				same = false
			}
		}
	}
	sig := func() string {
		switch {
		case class != "":
			return "json-lexical:" + class
		case !specSame && len(taint) > 0:
			return "json:" + taint[0]
		}
		return "json:unpredicted"
	}
	if !same {
		what := ""
		if zerr != nil {
			what = fmt.Sprintf("the JSON text `%s` is rejected as ZSON: %v", strings.TrimSpace(text), zerr)
		} else {
			var js, zs []string
			for _, v := range jvals {
				js = append(js, safeFormat(v))
			}
			for _, v := range zvals {
				zs = append(zs, safeFormat(v))
			}
			what = fmt.Sprintf("the JSON text `%s` denotes %s for the JSON reader but %s for the ZSON reader", strings.TrimSpace(text), strings.Join(js, " "), strings.Join(zs, " "))
		}
		c.Violate(sig(), what, w)
	}
	dupkey := false
	for _, t := range taint {
		dupkey = dupkey || t == "dupkey"
	}
	// with two members of one name the outcome depends on whether their (opaque, to the spec) values differ
	if class == "" && !dupkey {
		if same != specSame {
			c.Drift("json: `%s`: spec says same=%v (taint %v), real same=%v", strings.TrimSpace(text), specSame, taint, same)
		} else {
			c.Add("predictions_confirmed", 1)
		}
	}
}

var _ = zson.FormatValue
