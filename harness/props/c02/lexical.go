package main

import (
	"bytes"
	"encoding/base64"
	"fmt"
	"math"
	"net/netip"
	"strings"

	zed "github.com/brimdata/super"
	"github.com/brimdata/super/pkg/nano"
	"github.com/brimdata/super/zcode"
	"github.com/brimdata/super/zio"
	"github.com/brimdata/super/zio/zngio"
	"github.com/brimdata/super/zson"
)

// The lexical universe: boundary payloads of every primitive type and odd
// field / type / enum names.  ZsonDecor.tla abstracts from the characters of a
// literal or a name; here the round trip oracle alone decides (DESIGN 4/C02,
// Limits).  Every payload has a class; a violation's signature is
// "lexical:<class>".

// lexGroup maps a payload class to the signature group of its root cause: classes that fail for one
// reason share a signature; every other class is its own group.
func lexGroup(class string) string {
	switch {
	case strings.HasSuffix(class, ":negzero"):
		return "float:negzero" // formatPrimitive writes integral floats as "%d." of int64(f): the sign of -0 is lost
	case class == "ip:v4-mapped" || class == "net:v4-mapped":
		return "addr:v4-mapped"
	case strings.HasPrefix(class, "typename:") && strings.Contains(" space non-nfc slash quote equals ", " "+strings.TrimPrefix(class, "typename:")+" "):
		return "typename:needs-quotes" // Formatter.formatType writes named.Name without QuotedTypeName
	case class == "typename:error" || class == "typename:enum":
		return "typename:keyword"
	case strings.HasPrefix(class, "enumsym:") && strings.Contains(" space leading-digit quote empty ", " "+strings.TrimPrefix(class, "enumsym:")+" "):
		return "enumsym:needs-quotes" // formatValue writes %symbol without quoting
	}
	return class
}

type lexPayload struct {
	class string
	typ   zed.Type
	bytes zcode.Bytes
}

func f16(f float32) zcode.Bytes { return zed.EncodeFloat16(f) }

func lexPayloads(zctx *zed.Context) []lexPayload {
	ip := func(s string) zcode.Bytes { return zed.EncodeIP(netip.MustParseAddr(s)) }
	nt := func(s string) zcode.Bytes { return zed.EncodeNet(netip.MustParsePrefix(s)) }
	tv := func(t zed.Type) zcode.Bytes { return zed.EncodeTypeValue(t) }
	named := func(n string, t zed.Type) zed.Type {
		nt, err := zctx.LookupTypeNamed(n, t)
		if err != nil {
			panic(err)
		}
		return nt
	}
	rec := func(fs ...zed.Field) zed.Type { return zctx.MustLookupTypeRecord(fs) }
	ps := []lexPayload{
		{"int64:plain", zed.TypeInt64, zed.EncodeInt(7)},
		{"int64:zero", zed.TypeInt64, zed.EncodeInt(0)},
		{"int64:min", zed.TypeInt64, zed.EncodeInt(math.MinInt64)},
		{"int64:max", zed.TypeInt64, zed.EncodeInt(math.MaxInt64)},
		{"uint64:max", zed.TypeUint64, zed.EncodeUint(math.MaxUint64)},
		{"uint64:above-int64", zed.TypeUint64, zed.EncodeUint(math.MaxInt64 + 1)},
		{"int8:min", zed.TypeInt8, zed.EncodeInt(math.MinInt8)},
		{"uint8:max", zed.TypeUint8, zed.EncodeUint(math.MaxUint8)},
		{"int16:min", zed.TypeInt16, zed.EncodeInt(math.MinInt16)},
		{"uint16:max", zed.TypeUint16, zed.EncodeUint(math.MaxUint16)},
		{"int32:min", zed.TypeInt32, zed.EncodeInt(math.MinInt32)},
		{"uint32:max", zed.TypeUint32, zed.EncodeUint(math.MaxUint32)},
		{"float64:plain", zed.TypeFloat64, zed.EncodeFloat64(1.5)},
		{"float64:zero", zed.TypeFloat64, zed.EncodeFloat64(0)},
		{"float64:negzero", zed.TypeFloat64, zed.EncodeFloat64(math.Copysign(0, -1))},
		{"float64:negative", zed.TypeFloat64, zed.EncodeFloat64(-2.25)},
		{"float64:integral", zed.TypeFloat64, zed.EncodeFloat64(1e15)},
		{"float64:integral-above-2^53", zed.TypeFloat64, zed.EncodeFloat64(123456789012345678)},
		{"float64:1e21", zed.TypeFloat64, zed.EncodeFloat64(1e21)},
		{"float64:small", zed.TypeFloat64, zed.EncodeFloat64(1e-7)},
		{"float64:max", zed.TypeFloat64, zed.EncodeFloat64(math.MaxFloat64)},
		{"float64:subnormal", zed.TypeFloat64, zed.EncodeFloat64(math.SmallestNonzeroFloat64)},
		{"float64:+inf", zed.TypeFloat64, zed.EncodeFloat64(math.Inf(1))},
		{"float64:-inf", zed.TypeFloat64, zed.EncodeFloat64(math.Inf(-1))},
		{"float64:nan", zed.TypeFloat64, zed.EncodeFloat64(math.NaN())},
		{"float32:plain", zed.TypeFloat32, zed.EncodeFloat32(1.5)},
		{"float32:tenth", zed.TypeFloat32, zed.EncodeFloat32(0.1)},
		{"float32:negzero", zed.TypeFloat32, zed.EncodeFloat32(float32(math.Copysign(0, -1)))},
		{"float32:max", zed.TypeFloat32, zed.EncodeFloat32(math.MaxFloat32)},
		{"float32:+inf", zed.TypeFloat32, zed.EncodeFloat32(float32(math.Inf(1)))},
		{"float32:nan", zed.TypeFloat32, zed.EncodeFloat32(float32(math.NaN()))},
		{"float16:plain", zed.TypeFloat16, f16(1.5)},
		{"float16:negzero", zed.TypeFloat16, f16(float32(math.Copysign(0, -1)))},
		{"float16:max", zed.TypeFloat16, f16(65504)},
		{"float16:+inf", zed.TypeFloat16, f16(float32(math.Inf(1)))},
		{"float16:nan", zed.TypeFloat16, f16(float32(math.NaN()))},
		{"duration:zero", zed.TypeDuration, zed.EncodeDuration(0)},
		{"duration:1ns", zed.TypeDuration, zed.EncodeDuration(1)},
		{"duration:-1ns", zed.TypeDuration, zed.EncodeDuration(-1)},
		{"duration:mixed", zed.TypeDuration, zed.EncodeDuration(nano.Duration(26*3600*1e9 + 3*60*1e9 + 4))},
		{"duration:max", zed.TypeDuration, zed.EncodeDuration(math.MaxInt64)},
		{"duration:min", zed.TypeDuration, zed.EncodeDuration(math.MinInt64)},
		{"time:epoch", zed.TypeTime, zed.EncodeTime(0)},
		{"time:1ns", zed.TypeTime, zed.EncodeTime(1)},
		{"time:-1ns", zed.TypeTime, zed.EncodeTime(-1)},
		{"time:recent", zed.TypeTime, zed.EncodeTime(nano.Ts(1700000000123456789))},
		{"time:max", zed.TypeTime, zed.EncodeTime(nano.Ts(math.MaxInt64))},
		{"time:min", zed.TypeTime, zed.EncodeTime(nano.Ts(math.MinInt64))},
		{"bool:true", zed.TypeBool, zed.EncodeBool(true)},
		{"bytes:empty", zed.TypeBytes, zcode.Bytes{}},
		{"bytes:some", zed.TypeBytes, zcode.Bytes{0, 255, 16}},
		{"string:empty", zed.TypeString, zcode.Bytes{}},
		{"string:plain", zed.TypeString, zcode.Bytes("plain")},
		{"string:quote-backslash", zed.TypeString, zcode.Bytes(`a"b\c`)},
		{"string:newline-tab", zed.TypeString, zcode.Bytes("a\nb\tc\r")},
		{"string:control", zed.TypeString, zcode.Bytes("a\x01b\x7f")},
		{"string:nul", zed.TypeString, zcode.Bytes("a\x00b")},
		{"string:nfc", zed.TypeString, zcode.Bytes("caf\u00e9")},
		{"string:non-nfc", zed.TypeString, zcode.Bytes("cafe\u0301")},
		{"string:emoji", zed.TypeString, zcode.Bytes("\U0001F600 ok")},
		{"string:line-separator", zed.TypeString, zcode.Bytes("a\u2028b\u2029c")},
		{"string:looks-like-null", zed.TypeString, zcode.Bytes("null")},
		{"string:dollar-brace", zed.TypeString, zcode.Bytes("${x}")},
		{"string:backtick", zed.TypeString, zcode.Bytes("a`b")},
		{"ip:v4", zed.TypeIP, ip("1.2.3.4")},
		{"ip:v4-zero", zed.TypeIP, ip("0.0.0.0")},
		{"ip:v6-unspecified", zed.TypeIP, ip("::")},
		{"ip:v6-loopback", zed.TypeIP, ip("::1")},
		{"ip:v4-mapped", zed.TypeIP, ip("::ffff:1.2.3.4")},
		{"ip:v6", zed.TypeIP, ip("2001:db8::1")},
		{"net:v4", zed.TypeNet, nt("10.0.0.0/8")},
		{"net:v4-all", zed.TypeNet, nt("0.0.0.0/0")},
		{"net:v4-host", zed.TypeNet, nt("1.2.3.4/32")},
		{"net:v6-all", zed.TypeNet, nt("::/0")},
		{"net:v6", zed.TypeNet, nt("2001:db8::/32")},
		{"net:v4-mapped", zed.TypeNet, nt("::ffff:1.2.3.0/120")},
		{"type:primitive", zed.TypeType, tv(zed.TypeInt64)},
		{"type:null", zed.TypeType, tv(zed.TypeNull)},
		{"type:record", zed.TypeType, tv(rec(zed.NewField("a", zed.TypeInt64), zed.NewField("b c", zed.TypeString)))},
		{"type:named", zed.TypeType, tv(named("Tn", zed.TypeInt64))},
		{"type:named-twice", zed.TypeType, tv(rec(zed.NewField("a", named("Tn", zed.TypeInt64)), zed.NewField("b", named("Tn", zed.TypeInt64))))},
		{"type:enum", zed.TypeType, tv(zctx.LookupTypeEnum([]string{"x", "y z"}))},
		{"type:error", zed.TypeType, tv(zctx.LookupTypeError(zed.TypeString))},
		{"type:union", zed.TypeType, tv(zctx.LookupTypeUnion([]zed.Type{zed.TypeInt64, zed.TypeString}))},
		{"type:map", zed.TypeType, tv(zctx.LookupTypeMap(zed.TypeString, zctx.LookupTypeSet(zed.TypeIP)))},
		{"null", zed.TypeNull, nil},
	}
	return ps
}

// contexts puts a payload into the places a value can stand in.
func lexContexts(zctx *zed.Context, p lexPayload) []zed.Value {
	var out []zed.Value
	val := func(t zed.Type, build func(b *zcode.Builder)) {
		var b zcode.Builder
		build(&b)
		out = append(out, zed.NewValue(t, b.Bytes().Body()).Copy())
	}
	// bare
	out = append(out, zed.NewValue(p.typ, p.bytes).Copy())
	// record field, next to a plain field
	val(zctx.MustLookupTypeRecord([]zed.Field{zed.NewField("f", p.typ), zed.NewField("g", zed.TypeInt64)}), func(b *zcode.Builder) {
		b.BeginContainer()
		b.Append(p.bytes)
		b.Append(zed.EncodeInt(1))
		b.EndContainer()
	})
	if p.typ == zed.TypeNull {
		return out
	}
	// array of two
	val(zctx.LookupTypeArray(p.typ), func(b *zcode.Builder) {
		b.BeginContainer()
		b.Append(p.bytes)
		b.Append(p.bytes)
		b.EndContainer()
	})
	// member of a union, in an array that shows both members
	other := zed.Type(zed.TypeString)
	otherBytes := zcode.Bytes("s")
	if p.typ == zed.TypeString {
		other, otherBytes = zed.TypeInt64, zed.EncodeInt(1)
	}
	u := zctx.LookupTypeUnion([]zed.Type{p.typ, other})
	val(zctx.LookupTypeArray(u), func(b *zcode.Builder) {
		b.BeginContainer()
		zed.BuildUnion(b, u.TagOf(p.typ), p.bytes)
		zed.BuildUnion(b, u.TagOf(other), otherBytes)
		b.EndContainer()
	})
	// map key and value
	val(zctx.LookupTypeMap(p.typ, p.typ), func(b *zcode.Builder) {
		b.BeginContainer()
		b.Append(p.bytes)
		b.Append(p.bytes)
		b.EndContainer()
	})
	// under a type name
	named, err := zctx.LookupTypeNamed("Lx", p.typ)
	if err == nil {
		out = append(out, zed.NewValue(named, p.bytes).Copy())
	}
	return out
}

type lexName struct {
	class string
	name  string
}

var (
	lexFieldNames = []lexName{
		{"plain", "a"}, {"space", "a b"}, {"empty", ""}, {"null", "null"}, {"true", "true"}, {"error", "error"},
		{"primitive-name", "int64"}, {"type", "type"}, {"nfc", "caf\u00e9"}, {"non-nfc", "cafe\u0301"}, {"leading-digit", "1a"}, {"dot", "a.b"},
		{"dollar", "$x"}, {"underscore", "_"}, {"quote", `q"q`}, {"cjk", "日本"}, {"newline", "a\nb"}, {"colon", "a:b"},
	}
	lexTypeNames = []lexName{
		{"plain", "Tn"}, {"dot", "a.b"}, {"space", "my type"}, {"nfc", "caf\u00e9"}, {"non-nfc", "cafe\u0301"}, {"error", "error"}, {"enum", "enum"},
		{"true", "true"}, {"leading-digit", "1a"}, {"slash", "a/b"}, {"cjk", "日本"}, {"quote", `q"q`}, {"equals", "a=b"},
	}
	lexEnumSyms = []lexName{
		{"plain", "x"}, {"space", "a b"}, {"null", "null"}, {"leading-digit", "1x"}, {"nfc", "caf\u00e9"}, {"quote", `q"q`}, {"empty", ""},
	}
)

// lexical runs the lexical stage.
func (e *env) lexical() {
	c := e.c
	n := 0
	zctx := zed.NewContext()
	for _, p := range lexPayloads(zctx) {
		vals := lexContexts(zctx, p)
		for _, pretty := range []int{0, 4} {
			e.lexicalCheck(vals, p.class, pretty)
			n++
		}
	}
	for _, fn := range lexFieldNames {
		zctx := zed.NewContext()
		var vals []zed.Value
		for _, ft := range []zed.Type{zed.TypeInt64, zed.TypeUint8} {
			typ, err := zctx.LookupTypeRecord([]zed.Field{zed.NewField(fn.name, ft), zed.NewField("z", zed.TypeString)})
			if err != nil {
				c.Inconclusive("lexical: record with field %q: %v", fn.name, err)
				continue
			}
			var b zcode.Builder
			b.BeginContainer()
			if ft == zed.TypeInt64 {
				b.Append(zed.EncodeInt(1))
			} else {
				b.Append(zed.EncodeUint(1))
			}
			b.Append(zcode.Bytes("s"))
			b.EndContainer()
			vals = append(vals, zed.NewValue(typ, b.Bytes().Body()).Copy())
			// the record type as a type value
			vals = append(vals, zed.NewValue(zed.TypeType, zed.EncodeTypeValue(typ)).Copy())
		}
		for _, pretty := range []int{0, 4} {
			e.lexicalCheck(vals, "fieldname:"+fn.class, pretty)
			n++
		}
	}
	for _, tn := range lexTypeNames {
		zctx := zed.NewContext()
		var vals []zed.Value
		for _, ut := range []zed.Type{zed.TypeInt64, zed.TypeUint8} {
			named, err := zctx.LookupTypeNamed(tn.name, ut)
			if err != nil {
				c.Inconclusive("lexical: type name %q: %v", tn.name, err)
				continue
			}
			b := zed.EncodeInt(1)
			if ut == zed.TypeUint8 {
				b = zed.EncodeUint(1)
			}
			vals = append(vals, zed.NewValue(named, b).Copy())
			// a second use in the same value: definition, then reference
			rt := zctx.MustLookupTypeRecord([]zed.Field{zed.NewField("a", named), zed.NewField("b", named)})
			var zb zcode.Builder
			zb.BeginContainer()
			zb.Append(b)
			zb.Append(b)
			zb.EndContainer()
			vals = append(vals, zed.NewValue(rt, zb.Bytes().Body()).Copy())
			vals = append(vals, zed.NewValue(zed.TypeType, zed.EncodeTypeValue(named)).Copy())
		}
		for _, pretty := range []int{0, 4} {
			e.lexicalCheck(vals, "typename:"+tn.class, pretty)
			n++
		}
	}
	for _, es := range lexEnumSyms {
		zctx := zed.NewContext()
		typ := zctx.LookupTypeEnum([]string{es.name, "other"})
		vals := []zed.Value{
			zed.NewValue(typ, zed.EncodeUint(0)).Copy(),
			zed.NewValue(zctx.LookupTypeArray(typ), func() zcode.Bytes {
				var b zcode.Builder
				b.BeginContainer()
				b.Append(zed.EncodeUint(0))
				b.Append(zed.EncodeUint(1))
				b.EndContainer()
				return b.Bytes().Body()
			}()).Copy(),
			zed.NewValue(zed.TypeType, zed.EncodeTypeValue(typ)).Copy(),
		}
		for _, pretty := range []int{0, 4} {
			e.lexicalCheck(vals, "enumsym:"+es.class, pretty)
			n++
		}
	}
	// JSON texts beyond the TLC alphabet: escapes, number spellings
	for _, jt := range [][2]string{
		{"string-escapes", `"a\"b\\c\/d\b\f\n\r\t"`}, {"string-unicode-escape", `"\u0041\u00e9"`}, {"string-surrogate-pair", `"\ud83d\ude00"`},
		{"string-non-nfc", "\"cafe\u0301\""}, {"string-nul-escape", `"a\u0000b"`}, {"number-negative-zero", `-0`}, {"number-negative-zero-float", `-0.0`},
		{"number-exponent-upper", `1E5`}, {"number-exponent-plus", `1e+5`}, {"number-tiny", `1e-320`}, {"number-many-digits", `0.1234567890123456789012345`},
		{"number-int-min", `-9223372036854775808`}, {"number-below-int-min", `-9223372036854775809`}, {"key-empty", `{"":1}`}, {"key-escaped", `{"a\nb":1,"A":2}`},
		{"key-keyword", `{"null":1,"true":2,"error":3}`}, {"nested-empty", `[[],{},[{}]]`}, {"sequence", "1 \"a\"\n[2]\n{\"a\":null}"},
	} {
		e.c.Eval("json-lexical|"+jt[0], true)
		e.checkJSONText(jt[1], jt[0], true, nil)
		n++
	}
	c.Set("lexical_cases", n)
	c.Logf("lexical stage done: %d cases", n)
}

// lexicalCheck writes the values as one stream (per-value typedef scope, zsonio.Writer for pretty 0) and reads them back.
func (e *env) lexicalCheck(vals []zed.Value, class string, pretty int) {
	c := e.c
	c.Eval(fmt.Sprintf("lexical|%s|%d", class, pretty), !strings.HasSuffix(class, ":plain"))
	w := witness{Kind: "lexical", Class: class, Pretty: pretty}
	var zng bytes.Buffer
	zw := zngio.NewWriter(zio.NopCloser(&zng))
	for _, v := range vals {
		zw.Write(v)
	}
	zw.Close()
	w.ZNG = base64.StdEncoding.EncodeToString(zng.Bytes())
	conf := &cfg{Scope: "value", Reader: "stream"}
	texts, err := write(vals, conf, pretty, pretty == 0)
	if err != nil {
		c.Violate("lexical:"+lexGroup(class), fmt.Sprintf("formatting a value of class %s fails: %v", class, err), w)
		return
	}
	w.Text = strings.Join(texts, "\n")
	got, errs := read(texts, "stream")
	res := outcome(vals, got, errs)
	if !allOK(res) {
		c.Violate("lexical:"+lexGroup(class), fmt.Sprintf("ZSON round trip of payload class %s (pretty %d): %s", class, pretty, describe(vals, texts, got, errs, res)), w)
		return
	}
	// each value alone through zson.ParseValue as well
	for i, t := range texts {
		v, err := safe(func() (zed.Value, error) { return zson.ParseValue(zed.NewContext(), t) })
		if err != nil || canon(v) != canon(vals[i]) {
			c.Violate("lexical:"+lexGroup(class), fmt.Sprintf("ZSON round trip of payload class %s through zson.ParseValue: `%s` gives %v %v", class, t, safeFormat(v), err), w)
			return
		}
	}
}
