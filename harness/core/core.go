// Package core is the shared runtime of every /verif check: argument and
// seed handling, scratch space, evidence writing, the known-findings
// protocol and the verdict/exit-code policy of DESIGN.md section 2.3.
package core

import (
	"bufio"
	"crypto/sha256"
	"encoding/hex"
	"encoding/json"
	"fmt"
	"os"
	"path/filepath"
	"sort"
	"strconv"
	"strings"
	"sync"
	"time"
)

// VerifDir is the root of the verification tree.  Checks are always run
// with cwd=/verif but tests may override it.
var VerifDir = func() string {
	if d := os.Getenv("VERIF_DIR"); d != "" {
		return d
	}
	return "/verif"
}()

// RepoDir is the brimdata/zed tree the harness was built against.
func RepoDir() string {
	if d := os.Getenv("VERIF_REPO"); d != "" {
		return d
	}
	return "/repo"
}

// Exit codes.
const (
	ExitHeld         = 0
	ExitViolation    = 1
	ExitInconclusive = 2
)

// Finding is one line of known_findings.jsonl.
type Finding struct {
	Property  string `json:"property"`
	ID        string `json:"id"`
	Status    string `json:"status"` // "known" | "fixed"
	Signature string `json:"signature"`
	What      string `json:"what"`
	Commit    string `json:"commit,omitempty"`
}

// Violation is a concrete, re-runnable witness that the real code violates
// the property.
type Violation struct {
	Signature string `json:"signature"`
	What      string `json:"what"`
	Witness   any    `json:"witness"`
	Path      string `json:"-"`
}

// Ctx is handed to each property's run function.
type Ctx struct {
	Prop    string
	Level   string
	Tier    string // "quick" | "thorough"
	Seed    int64
	Replay  string // non-empty => replay this witness file only
	Scratch string
	Start   time.Time

	mu          sync.Mutex
	cov         map[string]any
	samples     []any
	assumptions []string
	trusted     []string
	violations  []*Violation
	knownHit    map[string]*Finding
	findings    []Finding
	inconcl     []string
	notes       []string
	counters    map[string]int64
	distinct    map[string]struct{}
}

// Quick reports whether this is the quick tier.
func (c *Ctx) Quick() bool { return c.Tier != "thorough" }

// Logf prints a progress line to stderr.
func (c *Ctx) Logf(format string, a ...any) {
	fmt.Fprintf(os.Stderr, "[%s %6.1fs] %s\n", c.Prop, time.Since(c.Start).Seconds(), fmt.Sprintf(format, a...))
}

// Set records a coverage key.
func (c *Ctx) Set(key string, v any) {
	c.mu.Lock()
	defer c.mu.Unlock()
	c.cov[key] = v
}

// Add adds n to an integer coverage counter.
func (c *Ctx) Add(key string, n int64) {
	c.mu.Lock()
	defer c.mu.Unlock()
	c.counters[key] += n
}

// Count returns the current value of a counter.
func (c *Ctx) Count(key string) int64 {
	c.mu.Lock()
	defer c.mu.Unlock()
	return c.counters[key]
}

// Eval records one evaluation (a case run against the real code).  key is a
// canonical form of the case; nontrivial says whether it exercised the
// property-relevant mechanism.  distinct_nontrivial counts distinct keys with
// nontrivial=true.
func (c *Ctx) Eval(key string, nontrivial bool) {
	c.mu.Lock()
	defer c.mu.Unlock()
	c.counters["evaluations"]++
	if nontrivial {
		h := sha256.Sum256([]byte(key))
		c.distinct[string(h[:12])] = struct{}{}
	}
}

// Sample keeps up to 12 sample cases verbatim for the evidence file.
func (c *Ctx) Sample(s any) {
	c.mu.Lock()
	defer c.mu.Unlock()
	if len(c.samples) < 12 {
		c.samples = append(c.samples, s)
	}
}

func (c *Ctx) Assume(s string)  { c.mu.Lock(); c.assumptions = append(c.assumptions, s); c.mu.Unlock() }
func (c *Ctx) Trust(s string)   { c.mu.Lock(); c.trusted = append(c.trusted, s); c.mu.Unlock() }
func (c *Ctx) Note(s string)    { c.mu.Lock(); c.notes = append(c.notes, s); c.mu.Unlock() }
func (c *Ctx) Rule(s string)    { c.Set("rule", s) }
func (c *Ctx) Explain(s string) { c.Set("explanation", s) }

// Inconclusive records a tool failure / dead driver / unreproduced
// counterexample.  The run exits 2 unless a violation was also found.
func (c *Ctx) Inconclusive(format string, a ...any) {
	msg := fmt.Sprintf(format, a...)
	c.mu.Lock()
	c.inconcl = append(c.inconcl, msg)
	c.mu.Unlock()
	fmt.Fprintf(os.Stderr, "INCONCLUSIVE property=%s %s\n", c.Prop, msg)
}

// Drift records that the spec and the code disagree on something that is not
// itself a property violation (DESIGN 2.3): reported, never an alarm.
func (c *Ctx) Drift(format string, a ...any) {
	msg := fmt.Sprintf(format, a...)
	c.mu.Lock()
	d, _ := c.cov["drift"].([]string)
	if len(d) < 50 {
		c.cov["drift"] = append(d, msg)
	}
	c.counters["drift_count"]++
	n := c.counters["drift_count"]
	c.mu.Unlock()
	if n <= 20 {
		fmt.Fprintf(os.Stderr, "DRIFT property=%s %s\n", c.Prop, msg)
	}
}

// Violate reports that the real code violated the property.  signature is the
// stable, minimal identity of the failing case (DESIGN 6.1); if it equals a
// "known" entry of known_findings.jsonl the check prints KNOWN-FINDING once and
// the exit code is unaffected.
func (c *Ctx) Violate(signature, what string, witness any) {
	c.mu.Lock()
	defer c.mu.Unlock()
	for i := range c.findings {
		f := &c.findings[i]
		if f.Property == c.Prop && f.Status == "known" && f.Signature == signature {
			if _, ok := c.knownHit[signature]; !ok {
				c.knownHit[signature] = f
				fmt.Printf("KNOWN-FINDING: property=%s %s [%s]\n", c.Prop, f.What, f.ID)
			}
			c.counters["known_finding_hits"]++
			return
		}
	}
	for _, v := range c.violations {
		if v.Signature == signature {
			c.counters["violation_hits"]++
			return
		}
	}
	v := &Violation{Signature: signature, What: what, Witness: witness}
	b, _ := json.MarshalIndent(map[string]any{
		"property": c.Prop, "signature": signature, "what": what, "witness": witness,
		"seed": c.Seed, "tier": c.Tier,
	}, "", " ")
	h := sha256.Sum256([]byte(c.Prop + "\x00" + signature))
	dir := filepath.Join(VerifDir, "replays")
	os.MkdirAll(dir, 0o755)
	v.Path = filepath.Join(dir, fmt.Sprintf("%s-%s.json", c.Prop, hex.EncodeToString(h[:6])))
	if err := os.WriteFile(v.Path, b, 0o644); err != nil {
		fmt.Fprintf(os.Stderr, "cannot write replay: %v\n", err)
	}
	c.violations = append(c.violations, v)
	fmt.Printf("VIOLATION property=%s replay=%s\n", c.Prop, v.Path)
	fmt.Fprintf(os.Stderr, "  signature: %s\n  what: %s\n", signature, what)
}

// Violations returns the number of (non-known) violations so far.
func (c *Ctx) Violations() int {
	c.mu.Lock()
	defer c.mu.Unlock()
	return len(c.violations)
}

// IsKnown reports whether signature is listed as a known finding.
func (c *Ctx) IsKnown(signature string) bool {
	for _, f := range c.findings {
		if f.Property == c.Prop && f.Status == "known" && f.Signature == signature {
			return true
		}
	}
	return false
}

// KnownFindings returns the known-status findings for this property.
func (c *Ctx) KnownFindings() []Finding {
	var out []Finding
	for _, f := range c.findings {
		if f.Property == c.Prop && f.Status == "known" {
			out = append(out, f)
		}
	}
	return out
}

// ReplayWitness loads the witness of a replay file into v.
func (c *Ctx) ReplayWitness(v any) (signature string, err error) {
	b, err := os.ReadFile(c.Replay)
	if err != nil {
		return "", err
	}
	var r struct {
		Signature string          `json:"signature"`
		Witness   json.RawMessage `json:"witness"`
	}
	if err := json.Unmarshal(b, &r); err != nil {
		return "", err
	}
	return r.Signature, json.Unmarshal(r.Witness, v)
}

func loadFindings() []Finding {
	// known_findings.jsonl plus known_findings.d/*.jsonl (one file per property
	// family); all committed, never written at run time.
	files := []string{filepath.Join(VerifDir, "known_findings.jsonl")}
	more, _ := filepath.Glob(filepath.Join(VerifDir, "known_findings.d", "*.jsonl"))
	sort.Strings(more)
	files = append(files, more...)
	var out []Finding
	for _, name := range files {
		f, err := os.Open(name)
		if err != nil {
			continue
		}
		sc := bufio.NewScanner(f)
		sc.Buffer(make([]byte, 1<<20), 1<<20)
		for sc.Scan() {
			line := strings.TrimSpace(sc.Text())
			if line == "" || strings.HasPrefix(line, "#") {
				continue
			}
			var fd Finding
			if json.Unmarshal([]byte(line), &fd) == nil {
				out = append(out, fd)
			}
		}
		f.Close()
	}
	return out
}

// Main is the entry point of every property binary.
//
//	<bin> quick|thorough        run that tier
//	<bin> --replay <path>       re-run one witness
func Main(prop, level string, run func(*Ctx) error) {
	c := &Ctx{
		Prop: prop, Level: level, Tier: "quick", Start: time.Now(),
		cov: map[string]any{}, knownHit: map[string]*Finding{},
		counters: map[string]int64{}, distinct: map[string]struct{}{},
	}
	if t := os.Getenv("VERIF_TIER"); t == "quick" || t == "thorough" {
		c.Tier = t
	}
	args := os.Args[1:]
	for i := 0; i < len(args); i++ {
		switch a := args[i]; a {
		case "quick", "thorough":
			c.Tier = a
		case "--tier":
			i++
			if i < len(args) {
				c.Tier = args[i]
			}
		case "--replay":
			i++
			if i < len(args) {
				c.Replay = args[i]
			}
		case "--seed":
			i++
			if i < len(args) {
				c.Seed, _ = strconv.ParseInt(args[i], 10, 64)
			}
		}
	}
	if s := os.Getenv("VERIF_SEED"); s != "" {
		if n, err := strconv.ParseInt(s, 10, 64); err == nil {
			c.Seed = n
		}
	}
	c.findings = loadFindings()
	base := os.Getenv("VERIF_SCRATCH")
	if base == "" {
		base = "/var/tmp"
	}
	os.MkdirAll(base, 0o755)
	scratch, err := os.MkdirTemp(base, "verif-"+prop+"-")
	if err != nil {
		fmt.Fprintf(os.Stderr, "cannot create scratch: %v\n", err)
		os.Exit(ExitInconclusive)
	}
	c.Scratch = scratch
	os.Setenv("TMPDIR", scratch)
	code := ExitHeld
	func() {
		defer func() {
			if r := recover(); r != nil {
				c.Inconclusive("harness panic: %v", r)
				panic(r)
			}
		}()
		if err := run(c); err != nil {
			c.Inconclusive("%v", err)
		}
	}()
	if os.Getenv("VERIF_KEEP_SCRATCH") == "" {
		os.RemoveAll(scratch)
	}
	if len(c.inconcl) > 0 {
		code = ExitInconclusive
	}
	if len(c.violations) > 0 {
		code = ExitViolation
	}
	if c.Replay == "" {
		if err := c.writeEvidence(); err != nil {
			fmt.Fprintf(os.Stderr, "cannot write evidence: %v\n", err)
			if code == ExitHeld {
				code = ExitInconclusive
			}
		}
	}
	fmt.Fprintf(os.Stderr, "[%s] tier=%s seed=%d evaluations=%d distinct_nontrivial=%d violations=%d known=%d inconclusive=%d wall=%.1fs exit=%d\n",
		c.Prop, c.Tier, c.Seed, c.counters["evaluations"], len(c.distinct), len(c.violations), len(c.knownHit), len(c.inconcl),
		time.Since(c.Start).Seconds(), code)
	os.Exit(code)
}

func (c *Ctx) writeEvidence() error {
	cov := map[string]any{}
	for k, v := range c.cov {
		cov[k] = v
	}
	for k, v := range c.counters {
		cov[k] = v
	}
	cov["evaluations"] = c.counters["evaluations"]
	cov["distinct_nontrivial"] = len(c.distinct)
	if _, ok := cov["rule"]; !ok {
		cov["rule"] = ""
	}
	samples := c.samples
	if samples == nil {
		samples = []any{}
	}
	cov["samples"] = samples
	// model_checking keys only when really measured (>=1), otherwise the
	// schema's generic fallback applies.
	st, _ := cov["states"].(int64)
	tr, _ := cov["transitions"].(int64)
	if st < 1 || tr < 1 {
		delete(cov, "states")
		delete(cov, "transitions")
	}
	if _, ok := cov["traces_validated_against_impl"]; !ok {
		cov["traces_validated_against_impl"] = int64(0)
	}
	if len(c.trusted) > 0 {
		cov["trusted_base"] = c.trusted
	}
	if len(c.notes) > 0 {
		cov["notes"] = c.notes
	}
	if len(c.inconcl) > 0 {
		cov["inconclusive"] = c.inconcl
	}
	var known []string
	for _, f := range c.knownHit {
		known = append(known, f.ID+": "+f.What)
	}
	sort.Strings(known)
	if len(known) > 0 {
		cov["known_findings_reproduced"] = known
	}
	var vs []map[string]any
	for _, v := range c.violations {
		vs = append(vs, map[string]any{"signature": v.Signature, "what": v.What, "replay": v.Path})
	}
	if len(vs) > 0 {
		cov["violation_list"] = vs
	}
	ev := map[string]any{
		"property_id": c.Prop,
		"tier":        c.Tier,
		"seed":        c.Seed,
		"level":       c.Level,
		"coverage":    cov,
		"assumptions": append([]string{}, c.assumptions...),
		"wall_s":      time.Since(c.Start).Seconds(),
		"violations":  len(c.violations),
	}
	b, err := json.MarshalIndent(ev, "", " ")
	if err != nil {
		return err
	}
	dir := filepath.Join(VerifDir, "evidence")
	os.MkdirAll(dir, 0o755)
	return os.WriteFile(filepath.Join(dir, c.Prop+".json"), append(b, '\n'), 0o644)
}
