package core
