package core

import (
	"bytes"
	"context"
	"encoding/json"
	"fmt"
	"os"
	"os/exec"
	"path/filepath"
	"regexp"
	"strconv"
	"strings"
	"time"
)

const tlaClasspath = "/opt/veriftools/tla/tla2tools.jar:/opt/veriftools/tla/CommunityModules-deps.jar"

// TLCRun describes one TLC invocation.  All of /verif/specs/*.tla is copied
// into a private directory below the scratch dir, together with Files.
type TLCRun struct {
	Module   string            // e.g. "Pruner" (specs/Pruner.tla)
	Cfg      string            // contents of the .cfg file; if it names an existing file under specs/cfg it is read
	Files    map[string][]byte // extra files (traces, generated constant modules)
	Workers  int               // default 8 (1 when Simulate or DFS is set)
	Simulate string            // e.g. "num=200" => -simulate num=200
	Depth    int               // -depth for simulation
	Seed     int64             // -seed (simulation)
	DFS      bool              // depth-first state queue (trace validation with unlogged variables)
	Coverage bool              // -coverage 1
	Deadlock bool              // true => check deadlock (default: -deadlock given, i.e. NOT checked)
	Timeout  time.Duration     // default 10m
	HeapMB   int               // default 4096
	Extra    []string
	Keep     []string // file names (relative to run dir) to read back into Result.Files
}

// TLCResult is the parsed outcome.
type TLCResult struct {
	Status    string // "ok" | "invariant" | "property" | "deadlock" | "assumption" | "error" | "timeout"
	Violated  string // name of violated invariant/property if any
	Generated int64
	Distinct  int64
	Depth     int64
	Out       string
	Prints    []string // lines printed with Print/PrintT (raw)
	Files     map[string][]byte
	Dir       string
	Wall      time.Duration
	ZeroCov   []string // actions/expressions with zero coverage (when Coverage)
}

var (
	reStates   = regexp.MustCompile(`(\d+) states generated, (\d+) distinct states found`)
	reSimStat  = regexp.MustCompile(`The number of states generated: (\d+)`)
	reDepth    = regexp.MustCompile(`The depth of the complete state graph search is (\d+)`)
	reInv      = regexp.MustCompile(`Error: Invariant (\S+) is violated`)
	reActProp  = regexp.MustCompile(`Error: Action property (\S+) is violated`)
	reAssume   = regexp.MustCompile(`Error: Assumption (.*) is false`)
	reZeroCov  = regexp.MustCompile(`(?m)^<(\w+) line (\d+), col \d+ to line \d+, col \d+ of module (\w+)>: 0:0$`)
	rePostcond = regexp.MustCompile(`Error: Evaluating (the )?postcondition|POSTCONDITION|post condition`)
)

var tlcSeq int

// RunTLC runs TLC and adds its state counts to the evidence counters
// "states" (distinct) and "transitions" (generated).
func (c *Ctx) RunTLC(r TLCRun) (*TLCResult, error) {
	c.mu.Lock()
	tlcSeq++
	n := tlcSeq
	c.mu.Unlock()
	dir := filepath.Join(c.Scratch, fmt.Sprintf("tlc-%s-%d", r.Module, n))
	if err := os.MkdirAll(dir, 0o755); err != nil {
		return nil, err
	}
	specs, _ := filepath.Glob(filepath.Join(VerifDir, "specs", "*.tla"))
	for _, s := range specs {
		b, err := os.ReadFile(s)
		if err != nil {
			return nil, err
		}
		os.WriteFile(filepath.Join(dir, filepath.Base(s)), b, 0o644)
	}
	for name, b := range r.Files {
		if err := os.WriteFile(filepath.Join(dir, name), b, 0o644); err != nil {
			return nil, err
		}
	}
	cfg := r.Cfg
	if !strings.Contains(cfg, "\n") {
		b, err := os.ReadFile(filepath.Join(VerifDir, "specs", "cfg", cfg))
		if err != nil {
			return nil, fmt.Errorf("cfg %q: %w", cfg, err)
		}
		cfg = string(b)
	}
	cfgPath := filepath.Join(dir, r.Module+".run.cfg")
	os.WriteFile(cfgPath, []byte(cfg), 0o644)
	workers := r.Workers
	if workers == 0 {
		workers = 8
		if r.Simulate != "" || r.DFS {
			workers = 1
		}
	}
	heap := r.HeapMB
	if heap == 0 {
		heap = 4096
	}
	timeout := r.Timeout
	if timeout == 0 {
		timeout = 10 * time.Minute
	}
	args := []string{"-XX:+UseParallelGC", "-Xss64m", fmt.Sprintf("-Xmx%dm", heap)}
	if r.DFS {
		args = append(args, "-Dtlc2.tool.queue.IStateQueue=StateDeque")
	}
	args = append(args, "-cp", tlaClasspath, "tlc2.TLC",
		"-workers", strconv.Itoa(workers), "-metadir", filepath.Join(dir, "meta"),
		"-config", cfgPath, "-noGenerateSpecTE")
	if !r.Deadlock {
		args = append(args, "-deadlock")
	}
	if r.Coverage {
		args = append(args, "-coverage", "1")
	}
	if r.Simulate != "" {
		args = append(args, "-simulate", r.Simulate)
		if r.Depth > 0 {
			args = append(args, "-depth", strconv.Itoa(r.Depth))
		}
		args = append(args, "-seed", strconv.FormatInt(r.Seed, 10))
	}
	args = append(args, r.Extra...)
	args = append(args, r.Module+".tla")
	cctx, cancel := context.WithTimeout(context.Background(), timeout)
	defer cancel()
	cmd := exec.CommandContext(cctx, "java", args...)
	cmd.Dir = dir
	var out bytes.Buffer
	cmd.Stdout = &out
	cmd.Stderr = &out
	t0 := time.Now()
	err := cmd.Run()
	res := &TLCResult{Out: out.String(), Dir: dir, Wall: time.Since(t0), Files: map[string][]byte{}}
	for _, k := range r.Keep {
		if b, e := os.ReadFile(filepath.Join(dir, k)); e == nil {
			res.Files[k] = b
		}
	}
	if m := reStates.FindAllStringSubmatch(res.Out, -1); len(m) > 0 {
		last := m[len(m)-1]
		res.Generated, _ = strconv.ParseInt(last[1], 10, 64)
		res.Distinct, _ = strconv.ParseInt(last[2], 10, 64)
	} else if m := reSimStat.FindStringSubmatch(res.Out); m != nil {
		res.Generated, _ = strconv.ParseInt(m[1], 10, 64)
		res.Distinct = res.Generated
	}
	if m := reDepth.FindStringSubmatch(res.Out); m != nil {
		res.Depth, _ = strconv.ParseInt(m[1], 10, 64)
	}
	for _, line := range strings.Split(res.Out, "\n") {
		if strings.HasPrefix(line, "<<") || strings.HasPrefix(line, "\"") || strings.HasPrefix(line, "[") || strings.HasPrefix(line, "{") {
			res.Prints = append(res.Prints, line)
		}
	}
	if r.Coverage {
		for _, m := range reZeroCov.FindAllStringSubmatch(res.Out, -1) {
			res.ZeroCov = append(res.ZeroCov, m[1])
		}
	}
	switch {
	case cctx.Err() == context.DeadlineExceeded:
		res.Status = "timeout"
	case reInv.MatchString(res.Out):
		res.Status = "invariant"
		res.Violated = reInv.FindStringSubmatch(res.Out)[1]
	case reActProp.MatchString(res.Out):
		res.Status = "property"
		res.Violated = reActProp.FindStringSubmatch(res.Out)[1]
	case strings.Contains(res.Out, "Temporal properties were violated"):
		res.Status = "property"
		res.Violated = "temporal"
	case strings.Contains(res.Out, "Deadlock reached"):
		res.Status = "deadlock"
	case reAssume.MatchString(res.Out):
		res.Status = "assumption"
		res.Violated = reAssume.FindStringSubmatch(res.Out)[1]
	case strings.Contains(res.Out, "Model checking completed. No error has been found") ||
		(r.Simulate != "" && err == nil && !strings.Contains(res.Out, "Error:")):
		res.Status = "ok"
	default:
		res.Status = "error"
	}
	if res.Status == "ok" && strings.Contains(res.Out, "Error:") {
		res.Status = "error"
	}
	c.Add("states", res.Distinct)
	c.Add("transitions", res.Generated)
	c.Add("tlc_runs", 1)
	c.mu.Lock()
	cmds, _ := c.cov["checker_cmds"].([]string)
	if len(cmds) < 12 {
		c.cov["checker_cmds"] = append(cmds, fmt.Sprintf("tlc -workers %d -config %s %s.tla%s [%s: %d generated, %d distinct, %.1fs]",
			workers, filepath.Base(cfgPath), r.Module, simSuffix(r), res.Status, res.Generated, res.Distinct, res.Wall.Seconds()))
	}
	c.mu.Unlock()
	if os.Getenv("VERIF_KEEP_SCRATCH") == "" {
		os.RemoveAll(filepath.Join(dir, "meta"))
	}
	if res.Status == "error" || res.Status == "timeout" {
		tail := res.Out
		if len(tail) > 3000 {
			tail = tail[len(tail)-3000:]
		}
		return res, fmt.Errorf("TLC %s on %s: %v\n%s", res.Status, r.Module, err, tail)
	}
	return res, nil
}

func simSuffix(r TLCRun) string {
	if r.Simulate == "" {
		return ""
	}
	return fmt.Sprintf(" -simulate %s -depth %d -seed %d", r.Simulate, r.Depth, r.Seed)
}

// MustHold runs TLC and treats anything but "ok" as inconclusive (a design-
// level counterexample is never by itself a verdict on the code, DESIGN 2.3).
// It returns nil if the run was not ok.
func (c *Ctx) MustHold(r TLCRun) *TLCResult {
	res, err := c.RunTLC(r)
	if err != nil {
		c.Inconclusive("%v", err)
		return nil
	}
	if res.Status != "ok" {
		tail := res.Out
		if len(tail) > 4000 {
			tail = tail[len(tail)-4000:]
		}
		c.Inconclusive("TLC reports %s %s on %s (spec-level counterexample; not a verdict on the code)\n%s", res.Status, res.Violated, r.Module, tail)
		return nil
	}
	return res
}

// ReadJSONFile decodes a JSON file produced by TLC's JsonSerialize.
func ReadJSONFile(res *TLCResult, name string, v any) error {
	b, ok := res.Files[name]
	if !ok {
		return fmt.Errorf("TLC did not produce %s", name)
	}
	return json.Unmarshal(b, v)
}

// ReadNDJSON decodes an ndjson file produced by ndJsonSerialize.
func ReadNDJSON[T any](res *TLCResult, name string) ([]T, error) {
	b, ok := res.Files[name]
	if !ok {
		return nil, fmt.Errorf("TLC did not produce %s", name)
	}
	var out []T
	dec := json.NewDecoder(bytes.NewReader(b))
	for dec.More() {
		var t T
		if err := dec.Decode(&t); err != nil {
			return out, err
		}
		out = append(out, t)
	}
	return out, nil
}

// NDJSON renders records as newline-delimited JSON.
func NDJSON[T any](recs []T) []byte {
	var buf bytes.Buffer
	enc := json.NewEncoder(&buf)
	for _, r := range recs {
		enc.Encode(r)
	}
	return buf.Bytes()
}
