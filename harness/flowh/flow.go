// Package flowh is the E-flow engine helper: run a Zed program on real code
// over in-memory inputs, either as the product compiles it (optimized) or
// exactly as analyzed (no optimizer), and return the result as ZSON strings.
package flowh

import (
	"context"
	"fmt"
	"sort"
	"strings"
	"time"

	zed "github.com/brimdata/super"
	"github.com/brimdata/super/compiler"
	"github.com/brimdata/super/compiler/data"
	"github.com/brimdata/super/pkg/storage"
	"github.com/brimdata/super/runtime"
	"github.com/brimdata/super/zbuf"
	"github.com/brimdata/super/zfmt"
	"github.com/brimdata/super/zio"
	"github.com/brimdata/super/zio/zsonio"
	"github.com/brimdata/super/zson"
)

// Opts selects how a program is compiled.
type Opts struct {
	NoOptimize bool          // run the DAG exactly as the semantic analyzer produced it
	Timeout    time.Duration // default 60s
	Zctx       *zed.Context  // default: fresh context
}

// Result of one run.
type Result struct {
	Rows []string // each output value as ZSON (with type decorations)
	DAG  string   // the plan that was executed
	Err  error    // compile or runtime error
}

// ZSONReader returns a zio.Reader over ZSON text.
func ZSONReader(zctx *zed.Context, text string) zio.Reader {
	return zsonio.NewReader(zctx, strings.NewReader(text))
}

// Run compiles program and runs it over the given inputs (ZSON text; one per
// default input, two for a join).
func Run(ctx context.Context, program string, o Opts, inputs ...string) Result {
	zctx := o.Zctx
	if zctx == nil {
		zctx = zed.NewContext()
	}
	var readers []zio.Reader
	for _, in := range inputs {
		readers = append(readers, ZSONReader(zctx, in))
	}
	return RunReaders(ctx, program, o, zctx, readers...)
}

// RunReaders is Run over arbitrary zio.Readers that allocate types in zctx.
func RunReaders(ctx context.Context, program string, o Opts, zctx *zed.Context, readers ...zio.Reader) (res Result) {
	if o.Timeout == 0 {
		o.Timeout = 60 * time.Second
	}
	ctx, cancel := context.WithTimeout(ctx, o.Timeout)
	defer cancel()
	defer func() {
		if r := recover(); r != nil {
			res.Err = fmt.Errorf("panic: %v", r)
		}
	}()
	seq, _, err := compiler.Parse(program)
	if err != nil {
		return Result{Err: err}
	}
	rctx := runtime.NewContext(ctx, zctx)
	defer rctx.Cancel()
	job, err := compiler.NewJob(rctx, seq, data.NewSource(storage.NewLocalEngine(), nil), nil)
	if err != nil {
		return Result{Err: err}
	}
	if !o.NoOptimize {
		if err := job.Optimize(); err != nil {
			return Result{Err: err}
		}
	}
	res.DAG = zfmt.DAG(job.Entry())
	if err := job.Build(readers...); err != nil {
		res.Err = err
		return res
	}
	p := job.Puller()
	if p == nil {
		res.Err = fmt.Errorf("no output")
		return res
	}
	res.Rows, res.Err = Drain(p)
	return res
}

// Drain pulls to completion formatting each value as ZSON.
func Drain(q zbuf.Puller) ([]string, error) {
	var out []string
	for {
		batch, err := q.Pull(false)
		if err != nil {
			q.Pull(true)
			return out, err
		}
		if batch == nil {
			return out, nil
		}
		for _, v := range batch.Values() {
			out = append(out, zson.FormatValue(v))
		}
		batch.Unref()
	}
}

// Multiset returns a sorted copy of rows.
func Multiset(rows []string) []string {
	out := append([]string(nil), rows...)
	sort.Strings(out)
	return out
}

// Equal compares two row slices.
func Equal(a, b []string) bool {
	if len(a) != len(b) {
		return false
	}
	for i := range a {
		if a[i] != b[i] {
			return false
		}
	}
	return true
}
