package lakeh

import (
	"bytes"
	"context"
	"fmt"
	"hash/fnv"
	"sort"
	"strings"

	zed "github.com/brimdata/super"
	"github.com/brimdata/super/api"
	"github.com/brimdata/super/lake/seekindex"
	"github.com/brimdata/super/order"
	"github.com/brimdata/super/runtime/sam/expr"
	"github.com/brimdata/super/zio/zngio"
	"github.com/brimdata/super/zson"
	"github.com/segmentio/ksuid"

	"verif/core"
)

// Finding kinds reported by the replayer (callers decide which are
// property violations for their property).
const (
	KContents   = "contents"    // branch contents differ from the model (multiset)
	KUnsorted   = "unsorted"    // unfiltered scan not in pool-key order
	KUnstable   = "unstable"    // two scans of the same branch return different orders
	KUnreadable = "unreadable"  // a branch that must be readable cannot be read
	KMeta       = "object-meta" // object metadata (count/min/max) differs from its contents
	KSeek       = "seek-index"  // seek index entry does not describe the bytes it points to
	KCommit     = "commit-data" // data visible at an earlier commit changed
	KFailTrace  = "fail-trace"  // an operation that reported failure changed visible state
	KResult     = "result"      // op succeeded where the model says it must fail with an error (or vice versa)
)

// Issue is one discrepancy found while replaying a history.
type Issue struct {
	Kind   string `json:"kind"`
	Step   int    `json:"step"`
	Detail string `json:"detail"`
}

// replayState is the symbol table binding spec ids to real KSUIDs.
type replayState struct {
	store    *MemStore
	pool     ksuid.KSUID
	objs     map[int]ksuid.KSUID // spec object id -> real id
	commits  map[int]ksuid.KSUID // spec commit id -> real id
	cdata    map[int][]int       // spec commit id -> predicted data (value ids) at creation
	cobjs    map[int][]int       // spec commit id -> object ids in its snapshot
	vacuumed map[int]bool        // spec object ids whose files were removed
	prev     *Step
	warm     []*Lake // long-lived handles (Replayer.Warm)
}

func (r *replayState) clone() *replayState {
	n := &replayState{store: r.store.Clone(), pool: r.pool, prev: r.prev,
		objs: map[int]ksuid.KSUID{}, commits: map[int]ksuid.KSUID{}, cdata: map[int][]int{}, cobjs: map[int][]int{}, vacuumed: map[int]bool{}}
	for k, v := range r.objs {
		n.objs[k] = v
	}
	for k, v := range r.commits {
		n.commits[k] = v
	}
	for k, v := range r.cdata {
		n.cdata[k] = v
	}
	for k, v := range r.cobjs {
		n.cobjs[k] = v
	}
	for k, v := range r.vacuumed {
		n.vacuumed[k] = v
	}
	return n
}

// Replayer replays LakeAbs histories on the real lake.
type Replayer struct {
	C   *core.Ctx
	M   *AbsModel
	Ctx context.Context
	// OnIssue is called for every discrepancy with the history prefix that produced it.
	OnIssue func(h History, upto int, is Issue)
	// Opener, if set, returns the API handle used to apply operations (e.g. a
	// remote client for C19); default: a fresh local handle per step.
	// CheckCommits re-reads every earlier commit after every step (C13).
	CheckCommits bool
	// Warm replays every history from the start through ONE long-lived handle
	// (warm journal/snapshot caches, as in the service), reads every branch
	// through it after every step, and still judges every step with a fresh
	// handle that sees persisted state only.
	Warm bool
	// WarmHandles is the number of long-lived handles in Warm mode (default 1).  With more
	// than one, the handle that applies a step is chosen per (history, step) from Seed, and
	// after every step the OTHER handles read first: their journal and snapshot caches were
	// filled before the step and must not hide an acknowledged operation.
	WarmHandles int
	Steps       int64
	Drifts      int64
	cmp         expr.CompareFn
}

const PoolName = "p"

// NewRoot creates a lake with the model's pool and returns the initial state.
func (rp *Replayer) newRoot() (*replayState, error) {
	st := NewMemStore()
	lk, err := Create(rp.Ctx, st, 0, nil)
	if err != nil {
		return nil, err
	}
	thresh := int64(0)
	if rp.M.ObjMode == "single" {
		thresh = 1
	}
	id, err := lk.CreatePool(rp.Ctx, PoolName, "k", rp.M.Dir, rp.M.Stride, thresh)
	if err != nil {
		return nil, err
	}
	return &replayState{store: st, pool: id, objs: map[int]ksuid.KSUID{}, commits: map[int]ksuid.KSUID{},
		cdata: map[int][]int{}, cobjs: map[int][]int{}, vacuumed: map[int]bool{}}, nil
}

type trie struct {
	step  *Step
	kids  map[string]*trie
	order []string
	hist  History
}

// ReplayAll replays the histories as a prefix tree: every distinct prefix is
// executed once on a copy of its parent's storage, with a fresh (cold) lake
// handle per step.
func (rp *Replayer) ReplayAll(hs []History) error {
	rp.cmp = expr.NewValueCompareFn(order.Asc, true)
	emptyVal = rp.M.EmptyVal
	root := &trie{kids: map[string]*trie{}}
	for _, h := range hs {
		n := root
		for i := range h {
			k := h[i].Key()
			kid, ok := n.kids[k]
			if !ok {
				kid = &trie{step: &h[i], kids: map[string]*trie{}, hist: h[:i+1]}
				n.kids[k] = kid
				n.order = append(n.order, k)
			}
			n = kid
		}
	}
	if rp.Warm {
		for _, h := range hs {
			st, err := rp.newRoot()
			if err != nil {
				return err
			}
			n := rp.WarmHandles
			if n < 1 {
				n = 1
			}
			for k := 0; k < n; k++ {
				lk, err := Open(rp.Ctx, st.store, 10+k, nil)
				if err != nil {
					return err
				}
				st.warm = append(st.warm, lk)
			}
			for i := range h {
				ok, err := rp.apply(h[:i+1], st)
				if err != nil {
					return fmt.Errorf("history %s: %w", h[:i+1], err)
				}
				if !ok {
					break
				}
			}
		}
		return nil
	}
	st, err := rp.newRoot()
	if err != nil {
		return err
	}
	return rp.walk(root, st)
}

func (rp *Replayer) walk(n *trie, st *replayState) error {
	for _, k := range n.order {
		kid := n.kids[k]
		cs := st.clone()
		ok, err := rp.apply(kid.hist, cs)
		if err != nil {
			return fmt.Errorf("history %s: %w", kid.hist, err)
		}
		if !ok {
			continue // abandoned (drift or violation already reported)
		}
		if err := rp.walk(kid, cs); err != nil {
			return err
		}
	}
	return nil
}

func (rp *Replayer) issue(h History, kind, format string, a ...any) {
	if rp.OnIssue != nil {
		rp.OnIssue(h, len(h), Issue{Kind: kind, Step: len(h), Detail: fmt.Sprintf(format, a...)})
	}
}

func (rp *Replayer) ids(st *replayState, objs []int) ([]ksuid.KSUID, bool) {
	var out []ksuid.KSUID
	for _, o := range objs {
		id, ok := st.objs[o]
		if !ok {
			return nil, false
		}
		out = append(out, id)
	}
	return out, true
}

func msg() api.CommitMessage { return api.CommitMessage{Author: "verif"} }

// apply executes the last step of h on st and checks all predictions.
// It returns false if the history must be abandoned.
func (rp *Replayer) apply(h History, st *replayState) (bool, error) {
	s := &h[len(h)-1]
	rp.Steps++
	var lk *Lake
	actor := 0
	if len(st.warm) > 0 {
		hh := fnv.New32a()
		hh.Write([]byte(histKey(h)))
		actor = int((hh.Sum32() + uint32(rp.C.Seed)) % uint32(len(st.warm)))
		lk = st.warm[actor]
	} else {
		var err error
		if lk, err = Open(rp.Ctx, st.store, 0, nil); err != nil {
			return false, err
		}
	}
	var commit ksuid.KSUID
	var opErr error
	switch s.Op {
	case "load":
		commit, opErr = lk.LoadZSON(rp.Ctx, st.pool, s.B, rp.M.BatchText(s.Batch))
	case "delete":
		ids, ok := rp.ids(st, []int{s.Obj})
		if !ok {
			return false, nil
		}
		commit, opErr = lk.API.Delete(rp.Ctx, st.pool, s.B, ids, msg())
	case "deletewhere":
		commit, opErr = lk.API.DeleteWhere(rp.Ctx, st.pool, s.B, rp.M.PredText(s.Pred), msg())
	case "compact":
		ids, ok := rp.ids(st, s.Objs)
		if !ok {
			return false, nil
		}
		commit, opErr = lk.API.Compact(rp.Ctx, st.pool, s.B, ids, s.Vec, msg())
	case "addvec":
		ids, ok := rp.ids(st, s.Objs)
		if !ok {
			return false, nil
		}
		commit, opErr = lk.API.AddVectors(rp.Ctx, PoolName, s.B, ids, msg())
	case "delvec":
		ids, ok := rp.ids(st, s.Objs)
		if !ok {
			return false, nil
		}
		commit, opErr = lk.API.DeleteVectors(rp.Ctx, PoolName, s.B, ids, msg())
	case "branch":
		parent := ksuid.Nil
		if s.At != 0 {
			parent = st.commits[s.At]
		}
		opErr = lk.API.CreateBranch(rp.Ctx, st.pool, s.B, parent)
	case "merge":
		commit, opErr = lk.API.MergeBranch(rp.Ctx, st.pool, s.Child, s.B, msg())
	case "revert":
		commit, opErr = lk.API.Revert(rp.Ctx, st.pool, s.B, st.commits[s.Target], msg())
	case "vacuum":
		_, opErr = lk.API.Vacuum(rp.Ctx, PoolName, s.B, false)
	default:
		return false, fmt.Errorf("unknown op %q", s.Op)
	}
	realRes := "ok"
	if opErr != nil {
		realRes = "err"
	}
	rp.C.Eval(histKey(h), s.Op != "load" || len(h) > 1)
	if realRes != s.Res {
		if realRes == "ok" {
			// The model says this operation must be refused.  The real lake
			// accepted it: evaluate the model-free oracles (every branch
			// still readable), then abandon the history.
			for b := range s.Tips {
				if _, err := rp.scan(st, b); err != nil {
					rp.issue(h, KUnreadable, "operation %s was accepted although the model refuses it, and branch %q can no longer be read: %v", h[len(h)-1:], b, err)
				}
			}
			// A merge the real lake accepts must still satisfy the property's own formula,
			// whatever the as-coded model says: parent' = parent + (what the child added since
			// the common ancestor and the parent has not itself added) - (what the child deleted).
			if s.Op == "merge" {
				if rows, err := rp.scan(st, s.B); err == nil {
					base := bagOf(st.cdata[s.Base])
					par, ch := bagOf(s.Data[s.B]), bagOf(s.Data[s.Child])
					want := bagSub(bagAdd(par, bagSub(bagSub(ch, base), bagSub(par, base))), bagSub(base, ch))
					got := bagOf(uids(rows))
					if !bagEq(got, want) {
						rp.issue(h, KContents, "merge of %q into %q was accepted (the model refuses it) and %q now holds values %v, but its previous data %v plus what the child added since the common ancestor c%d minus what the child deleted is %v",
							s.Child, s.B, s.B, bagList(got), bagList(par), s.Base, bagList(want))
					}
				}
			}
			rp.issue(h, KResult, "real lake accepted an operation the model refuses: %s", h[len(h)-1:])
		} else {
			rp.issue(h, KResult, "real lake refused an operation the model accepts: %s: %v", h[len(h)-1:], opErr)
		}
		return false, nil
	}
	// Bind new symbols.
	if s.Res == "ok" && s.Commit != 0 {
		st.commits[s.Commit] = commit
		st.cdata[s.Commit] = s.Data[s.B]
		st.cobjs[s.Commit] = s.ObjsOf[s.B]
	}
	for _, o := range s.Removed {
		st.vacuumed[o] = true
	}
	okAll := true
	// The long-lived handle is read first (before any other process persists snapshots of the new
	// commits) and must show the model's contents.
	for k := 1; k <= len(st.warm); k++ {
		wi := (actor + k) % len(st.warm) // the other handles first, the acting handle last
		for _, b := range sortedKeys(s.Tips) {
			if !s.Readable[b] {
				continue
			}
			rows, err := st.warm[wi].Query(rp.Ctx, fmt.Sprintf("from %s@%s", PoolName, b))
			if err != nil {
				rp.issue(h, KUnreadable, "branch %q cannot be read through long-lived handle %d (step applied by handle %d): %v", b, wi, actor, err)
				okAll = false
				continue
			}
			gs := uids(rows)
			sort.Ints(gs)
			want := append([]int(nil), s.Data[b]...)
			sort.Ints(want)
			if !equalInts(gs, want) {
				rp.issue(h, KContents, "branch %q read through long-lived handle %d (step applied by handle %d) holds values %v but the model predicts %v", b, wi, actor, gs, want)
				okAll = false
			}
		}
	}
	// A fresh handle observes the result (cold caches; persisted state only).
	obs, err := Open(rp.Ctx, st.store, 1, nil)
	if err != nil {
		return false, err
	}
	for _, b := range sortedKeys(s.Tips) {
		rows, err := obs.Query(rp.Ctx, fmt.Sprintf("from %s@%s", PoolName, b))
		if err != nil {
			if s.Readable[b] {
				rp.issue(h, KUnreadable, "branch %q cannot be read: %v", b, err)
				okAll = false
			}
			continue
		}
		if !s.Readable[b] {
			continue // model: objects vacuumed; whatever the real lake returns is outside the property
		}
		got := uids(rows)
		want := append([]int(nil), s.Data[b]...)
		sort.Ints(want)
		gs := append([]int(nil), got...)
		sort.Ints(gs)
		if !equalInts(gs, want) {
			kind := KContents
			if s.Res == "err" {
				kind = KFailTrace
			}
			rp.issue(h, kind, "branch %q holds values %v but the model (loaded minus deleted) predicts %v", b, gs, want)
			okAll = false
			continue
		}
		if i := rp.firstUnsorted(rows); i >= 0 {
			rp.issue(h, KUnsorted, "scan of branch %q (%s) is not in pool-key order at position %d: %v", b, rp.M.Dir, i, rows)
			okAll = false
		}
		// the same scan with one scan thread (the multi-threaded plan re-merges by key)
		if rows1, err := obs.QueryPar(rp.Ctx, fmt.Sprintf("from %s@%s", PoolName, b), 1); err != nil {
			rp.issue(h, KUnreadable, "branch %q cannot be read at parallelism 1: %v", b, err)
			okAll = false
		} else {
			g1 := uids(rows1)
			sort.Ints(g1)
			if !equalInts(g1, want) {
				rp.issue(h, KContents, "branch %q read with one scan thread holds values %v but the model predicts %v", b, g1, want)
				okAll = false
			} else if i := rp.firstUnsorted(rows1); i >= 0 {
				rp.issue(h, KUnsorted, "scan of branch %q (%s, one scan thread) is not in pool-key order at position %d: %v", b, rp.M.Dir, i, rows1)
				okAll = false
			}
		}
		rows2, err := obs.Query(rp.Ctx, fmt.Sprintf("from %s@%s", PoolName, b))
		if err == nil && !Equal(rows, rows2) {
			rp.issue(h, KUnstable, "two scans of branch %q return different orders: %v vs %v", b, rows, rows2)
			okAll = false
		}
	}
	if !okAll {
		return false, nil
	}
	// Bind and check new objects by content.
	if s.Res == "ok" && len(s.NewIds) > 0 {
		if !rp.bindObjects(h, st, obs, s) {
			return false, nil
		}
	}
	// Immutability of every earlier commit (C13).
	for _, c := range sortedIntKeys(st.commits) {
		if c == s.Commit || !rp.CheckCommits {
			continue
		}
		vac := false
		for _, o := range st.cobjs[c] {
			if st.vacuumed[o] {
				vac = true
			}
		}
		if vac {
			continue
		}
		rows, err := obs.Query(rp.Ctx, fmt.Sprintf("from %s@%s", PoolName, st.commits[c]))
		if err != nil {
			rp.issue(h, KCommit, "commit c%d can no longer be read: %v", c, err)
			return false, nil
		}
		gs := uids(rows)
		sort.Ints(gs)
		want := append([]int(nil), st.cdata[c]...)
		sort.Ints(want)
		if !equalInts(gs, want) {
			rp.issue(h, KCommit, "data visible at commit c%d changed: now %v, at creation %v", c, gs, want)
			return false, nil
		}
	}
	st.prev = s
	return true, nil
}

// scan reads branch b with a fresh handle.
func (rp *Replayer) scan(st *replayState, b string) ([]string, error) {
	lk, err := Open(rp.Ctx, st.store, 2, nil)
	if err != nil {
		return nil, err
	}
	return lk.Query(rp.Ctx, fmt.Sprintf("from %s@%s", PoolName, b))
}

// bindObjects maps the objects the step created to the model's by content and
// checks their metadata and seek index against the bytes actually stored.
func (rp *Replayer) bindObjects(h History, st *replayState, obs *Lake, s *Step) bool {
	infos, err := obs.Objects(rp.Ctx, PoolName, s.B)
	if err != nil {
		rp.issue(h, KUnreadable, "cannot list objects of %q: %v", s.B, err)
		return false
	}
	known := map[string]bool{}
	for _, id := range st.objs {
		known[id.String()] = true
	}
	type realObj struct {
		info ObjectInfo
		vals []string
		u    []int
	}
	var fresh []realObj
	for _, oi := range infos {
		if known[oi.ID] {
			continue
		}
		vals, err := rp.readObject(st, oi.ID)
		if err != nil {
			rp.issue(h, KMeta, "object %s listed in the metadata cannot be read back: %v", oi.ID, err)
			return false
		}
		ro := realObj{info: oi, vals: vals, u: uids(vals)}
		sort.Ints(ro.u)
		fresh = append(fresh, ro)
		if !rp.checkObject(h, st, oi, vals) {
			return false
		}
	}
	// match by content
	used := map[int]bool{}
	for i, id := range s.NewIds {
		want := append([]int(nil), s.NewObjs[i]...)
		sort.Ints(want)
		found := -1
		for j, ro := range fresh {
			if !used[j] && equalInts(ro.u, want) {
				found = j
				break
			}
		}
		if found < 0 {
			var have [][]int
			for _, ro := range fresh {
				have = append(have, ro.u)
			}
			rp.Drifts++
			rp.C.Drift("object layout: model predicts new objects %v, real lake created %v (history %s)", s.NewObjs, have, h)
			return false
		}
		used[found] = true
		kid, _ := ksuid.Parse(fresh[found].info.ID)
		st.objs[id] = kid
	}
	if len(fresh) != len(s.NewIds) {
		rp.Drifts++
		rp.C.Drift("object layout: model predicts %d new objects, real lake created %d (history %s)", len(s.NewIds), len(fresh), h)
		return false
	}
	return true
}

// readObject decodes the values of a data object straight from storage.
func (rp *Replayer) readObject(st *replayState, id string) ([]string, error) {
	b, ok := st.store.GetRaw(fmt.Sprintf("%s/data/%s.zng", st.pool, id))
	if !ok {
		return nil, fmt.Errorf("no data file")
	}
	return decodeZNG(b)
}

func decodeZNG(b []byte) ([]string, error) {
	zr := zngio.NewReader(zed.NewContext(), bytes.NewReader(b))
	defer zr.Close()
	var out []string
	for {
		v, err := zr.Read()
		if err != nil {
			return out, err
		}
		if v == nil {
			return out, nil
		}
		out = append(out, zson.FormatValue(*v))
	}
}

func (rp *Replayer) keyOf(row string) zed.Value {
	v, err := zson.ParseValue(zed.NewContext(), row)
	if err != nil {
		return zed.Null
	}
	if k := v.Deref("k"); k != nil {
		return k.Copy()
	}
	return zed.Null
}

// firstUnsorted returns the index of the first row that is out of pool-key
// order under the real nulls-max comparator, or -1.
func (rp *Replayer) firstUnsorted(rows []string) int {
	for i := 1; i < len(rows); i++ {
		c := rp.cmp(rp.keyOf(rows[i-1]), rp.keyOf(rows[i]))
		if rp.M.Dir == "desc" {
			c = -c
		}
		if c > 0 {
			return i
		}
	}
	return -1
}

// checkObject: metadata count/min/max equal the stored values; every seek
// index entry decodes to exactly val_cnt values within [min,max].
func (rp *Replayer) checkObject(h History, st *replayState, oi ObjectInfo, vals []string) bool {
	if int(oi.Count) != len(vals) {
		rp.issue(h, KMeta, "object %s: metadata count %d but the file holds %d values", oi.ID, oi.Count, len(vals))
		return false
	}
	if len(vals) == 0 {
		return true
	}
	zctx := zed.NewContext()
	mn, err1 := zson.ParseValue(zctx, oi.Min)
	mx, err2 := zson.ParseValue(zctx, oi.Max)
	if err1 != nil || err2 != nil {
		return true
	}
	var lo, hi zed.Value
	for i, r := range vals {
		k := rp.keyOf(r)
		if i == 0 || rp.cmp(k, lo) < 0 {
			lo = k
		}
		if i == 0 || rp.cmp(k, hi) > 0 {
			hi = k
		}
	}
	if rp.cmp(mn, lo) != 0 || rp.cmp(mx, hi) != 0 {
		rp.issue(h, KMeta, "object %s: metadata key range [%s,%s] but the values it holds span [%s,%s]", oi.ID, oi.Min, oi.Max, zson.FormatValue(lo), zson.FormatValue(hi))
		return false
	}
	if i := rp.firstUnsorted(vals); i >= 0 {
		rp.issue(h, KUnsorted, "object %s is not internally in pool-key order: %v", oi.ID, vals)
		return false
	}
	// seek index
	raw, ok := st.store.GetRaw(fmt.Sprintf("%s/data/%s-seek.zng", st.pool, oi.ID))
	data, _ := st.store.GetRaw(fmt.Sprintf("%s/data/%s.zng", st.pool, oi.ID))
	if !ok {
		return true
	}
	zr := zngio.NewReader(zed.NewContext(), bytes.NewReader(raw))
	defer zr.Close()
	u := zson.NewZNGUnmarshaler()
	total := 0
	for {
		v, err := zr.Read()
		if err != nil || v == nil {
			break
		}
		var e seekindex.Entry
		if err := u.Unmarshal(*v, &e); err != nil {
			rp.issue(h, KSeek, "object %s: corrupt seek index entry: %v", oi.ID, err)
			return false
		}
		if int(e.Offset+e.Length) > len(data) {
			rp.issue(h, KSeek, "object %s: seek entry [%d,+%d) beyond file size %d", oi.ID, e.Offset, e.Length, len(data))
			return false
		}
		part, err := decodeZNG(data[e.Offset : e.Offset+e.Length])
		if err != nil || len(part) != int(e.ValCnt) {
			rp.issue(h, KSeek, "object %s: seek entry at offset %d claims %d values, the byte range decodes to %d (%v)", oi.ID, e.Offset, e.ValCnt, len(part), err)
			return false
		}
		if int(e.ValOff) != total {
			rp.issue(h, KSeek, "object %s: seek entry val_off %d, expected %d", oi.ID, e.ValOff, total)
			return false
		}
		for _, r := range part {
			k := rp.keyOf(r)
			if rp.cmp(k, e.Min) < 0 || rp.cmp(k, e.Max) > 0 {
				rp.issue(h, KSeek, "object %s: seek entry range [%s,%s] does not cover key of %s", oi.ID, zson.FormatValue(e.Min), zson.FormatValue(e.Max), r)
				return false
			}
		}
		total += len(part)
	}
	if total != 0 && total != len(vals) {
		rp.issue(h, KSeek, "object %s: seek index covers %d values of %d", oi.ID, total, len(vals))
		return false
	}
	return true
}

// emptyVal is the value id the current model renders as {} (set by the replayer).
var emptyVal int

// uids extracts the u field of each row ({} maps to the model's EmptyVal).
func uids(rows []string) []int {
	var out []int
	for _, r := range rows {
		if r == "{}" && emptyVal != 0 {
			out = append(out, emptyVal)
			continue
		}
		i := strings.LastIndex(r, "u:")
		if i < 0 {
			out = append(out, -1)
			continue
		}
		n := 0
		for _, ch := range r[i+2:] {
			if ch < '0' || ch > '9' {
				break
			}
			n = n*10 + int(ch-'0')
		}
		out = append(out, n)
	}
	return out
}

func equalInts(a, b []int) bool {
	if len(a) != len(b) {
		return false
	}
	for i := range a {
		if a[i] != b[i] {
			return false
		}
	}
	return true
}

func sortedKeys(m map[string]int) []string {
	var out []string
	for k := range m {
		out = append(out, k)
	}
	sort.Strings(out)
	return out
}

func sortedIntKeys(m map[int]ksuid.KSUID) []int {
	var out []int
	for k := range m {
		out = append(out, k)
	}
	sort.Ints(out)
	return out
}

func bagOf(xs []int) map[int]int {
	m := map[int]int{}
	for _, x := range xs {
		m[x]++
	}
	return m
}

func bagAdd(a, b map[int]int) map[int]int {
	m := map[int]int{}
	for k, v := range a {
		m[k] += v
	}
	for k, v := range b {
		m[k] += v
	}
	return m
}

func bagSub(a, b map[int]int) map[int]int {
	m := map[int]int{}
	for k, v := range a {
		if v-b[k] > 0 {
			m[k] = v - b[k]
		}
	}
	return m
}

func bagEq(a, b map[int]int) bool {
	if len(a) != len(b) {
		return false
	}
	for k, v := range a {
		if b[k] != v {
			return false
		}
	}
	return true
}

func bagList(a map[int]int) []int {
	var out []int
	for k, v := range a {
		for i := 0; i < v; i++ {
			out = append(out, k)
		}
	}
	sort.Ints(out)
	return out
}
