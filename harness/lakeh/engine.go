// Package lakeh is the E-lake engine of DESIGN.md: storage.Engine
// implementations that can be gated (deterministic schedules), recorded
// (trace validation) and crashed (fault enumeration), plus helpers that drive
// the real lake through lake/api.Interface and project its state onto the
// variables of specs/LakeAbs.tla.
package lakeh

import (
	"bytes"
	"context"
	"errors"
	"fmt"
	"io"
	"io/fs"
	"sort"
	"strings"
	"sync"

	"github.com/brimdata/super/pkg/storage"
)

// ErrCrashed is returned by every storage call after the engine's owner
// has been fail-stopped.
var ErrCrashed = errors.New("verif: process crashed")

// Op is one storage call as seen by the interposer.
type Op struct {
	Client int
	Kind   string // Get Put PutClose PutWrite PutIfNotExists Delete DeleteByPrefix Exists Size List
	Path   string // path relative to the lake root
	N      int    // bytes (PutWrite / PutIfNotExists / PutClose total)
}

// Interposer is called before a storage call takes effect.  It may block
// (gate), and may return an error which is then returned by the storage call
// without any effect on the store (fault injection).
type Interposer func(Op) error

// MemStore is the shared in-memory object store.  Put is atomic at Close
// ("atomic" PutMode of specs/Lake.tla) unless Fill is set, in which case Put
// truncates at open and appends at each Write (what pkg/storage/file.go does).
type MemStore struct {
	mu    sync.Mutex
	objs  map[string][]byte
	Fill  bool
	Calls int64
}

func NewMemStore() *MemStore { return &MemStore{objs: map[string][]byte{}} }

// Snapshot returns a deep copy of the store contents.
func (m *MemStore) Snapshot() map[string][]byte {
	m.mu.Lock()
	defer m.mu.Unlock()
	out := make(map[string][]byte, len(m.objs))
	for k, v := range m.objs {
		out[k] = append([]byte(nil), v...)
	}
	return out
}

// Clone returns an independent store with the same contents.
func (m *MemStore) Clone() *MemStore {
	return &MemStore{objs: m.Snapshot(), Fill: m.Fill}
}

// Paths returns all object paths, sorted.
func (m *MemStore) Paths() []string {
	m.mu.Lock()
	defer m.mu.Unlock()
	var out []string
	for k := range m.objs {
		out = append(out, k)
	}
	sort.Strings(out)
	return out
}

// GetRaw returns the bytes at path.
func (m *MemStore) GetRaw(path string) ([]byte, bool) {
	m.mu.Lock()
	defer m.mu.Unlock()
	b, ok := m.objs[path]
	return append([]byte(nil), b...), ok
}

// SetRaw overwrites (or with nil deletes) the bytes at path.
func (m *MemStore) SetRaw(path string, b []byte) {
	m.mu.Lock()
	defer m.mu.Unlock()
	if b == nil {
		delete(m.objs, path)
		return
	}
	m.objs[path] = append([]byte(nil), b...)
}

// Engine is a client-tagged view of a MemStore implementing storage.Engine.
type Engine struct {
	Store  *MemStore
	Client int
	Root   string // URI prefix stripped from paths (e.g. "file:///lake/")
	Hook   Interposer
}

var _ storage.Engine = (*Engine)(nil)

// NewEngine returns a storage.Engine for client over store.
func NewEngine(store *MemStore, client int, hook Interposer) *Engine {
	return &Engine{Store: store, Client: client, Root: "file:///lake/", Hook: hook}
}

// RootURI is the lake root all harness lakes use.
func RootURI() *storage.URI { return storage.MustParseURI("file:///lake") }

func (e *Engine) rel(u *storage.URI) string {
	s := u.String()
	s = strings.TrimPrefix(s, e.Root)
	s = strings.TrimPrefix(s, strings.TrimSuffix(e.Root, "/"))
	return strings.TrimPrefix(s, "/")
}

func (e *Engine) pre(kind, path string, n int) error {
	e.Store.mu.Lock()
	e.Store.Calls++
	e.Store.mu.Unlock()
	if e.Hook != nil {
		return e.Hook(Op{Client: e.Client, Kind: kind, Path: path, N: n})
	}
	return nil
}

type memReader struct {
	*bytes.Reader
	n int64
}

func (r *memReader) Close() error         { return nil }
func (r *memReader) Size() (int64, error) { return r.n, nil }

func notExist(u *storage.URI) error { return fmt.Errorf("%s: %w", u, fs.ErrNotExist) }

func (e *Engine) Get(ctx context.Context, u *storage.URI) (storage.Reader, error) {
	p := e.rel(u)
	if err := e.pre("Get", p, 0); err != nil {
		return nil, err
	}
	e.Store.mu.Lock()
	b, ok := e.Store.objs[p]
	b = append([]byte(nil), b...)
	e.Store.mu.Unlock()
	if !ok {
		return nil, notExist(u)
	}
	return &memReader{bytes.NewReader(b), int64(len(b))}, nil
}

type memWriter struct {
	e      *Engine
	path   string
	buf    bytes.Buffer
	closed bool
}

func (w *memWriter) Write(b []byte) (int, error) {
	if w.e.Store.Fill {
		if err := w.e.pre("PutWrite", w.path, len(b)); err != nil {
			return 0, err
		}
		w.e.Store.mu.Lock()
		w.e.Store.objs[w.path] = append(w.e.Store.objs[w.path], b...)
		w.e.Store.mu.Unlock()
		return len(b), nil
	}
	return w.buf.Write(b)
}

func (w *memWriter) Close() error {
	if w.closed {
		return nil
	}
	w.closed = true
	if err := w.e.pre("PutClose", w.path, w.buf.Len()); err != nil {
		return err
	}
	if !w.e.Store.Fill {
		w.e.Store.mu.Lock()
		w.e.Store.objs[w.path] = append([]byte(nil), w.buf.Bytes()...)
		w.e.Store.mu.Unlock()
	}
	return nil
}

func (e *Engine) Put(ctx context.Context, u *storage.URI) (io.WriteCloser, error) {
	p := e.rel(u)
	if err := e.pre("Put", p, 0); err != nil {
		return nil, err
	}
	if e.Store.Fill {
		e.Store.mu.Lock()
		e.Store.objs[p] = []byte{}
		e.Store.mu.Unlock()
	}
	return &memWriter{e: e, path: p}, nil
}

func (e *Engine) PutIfNotExists(ctx context.Context, u *storage.URI, b []byte) error {
	p := e.rel(u)
	if err := e.pre("PutIfNotExists", p, len(b)); err != nil {
		return err
	}
	e.Store.mu.Lock()
	defer e.Store.mu.Unlock()
	if _, ok := e.Store.objs[p]; ok {
		return &fs.PathError{Op: "open", Path: u.String(), Err: fs.ErrExist}
	}
	e.Store.objs[p] = append([]byte(nil), b...)
	return nil
}

func (e *Engine) Delete(ctx context.Context, u *storage.URI) error {
	p := e.rel(u)
	if err := e.pre("Delete", p, 0); err != nil {
		return err
	}
	e.Store.mu.Lock()
	defer e.Store.mu.Unlock()
	if _, ok := e.Store.objs[p]; !ok {
		return notExist(u)
	}
	delete(e.Store.objs, p)
	return nil
}

func (e *Engine) DeleteByPrefix(ctx context.Context, u *storage.URI) error {
	p := e.rel(u)
	if err := e.pre("DeleteByPrefix", p, 0); err != nil {
		return err
	}
	e.Store.mu.Lock()
	defer e.Store.mu.Unlock()
	for k := range e.Store.objs {
		if k == p || strings.HasPrefix(k, strings.TrimSuffix(p, "/")+"/") {
			delete(e.Store.objs, k)
		}
	}
	return nil
}

func (e *Engine) Exists(ctx context.Context, u *storage.URI) (bool, error) {
	p := e.rel(u)
	if err := e.pre("Exists", p, 0); err != nil {
		return false, err
	}
	e.Store.mu.Lock()
	defer e.Store.mu.Unlock()
	if _, ok := e.Store.objs[p]; ok {
		return true, nil
	}
	pre := strings.TrimSuffix(p, "/") + "/"
	for k := range e.Store.objs {
		if strings.HasPrefix(k, pre) {
			return true, nil
		}
	}
	return false, nil
}

func (e *Engine) Size(ctx context.Context, u *storage.URI) (int64, error) {
	p := e.rel(u)
	if err := e.pre("Size", p, 0); err != nil {
		return 0, err
	}
	e.Store.mu.Lock()
	defer e.Store.mu.Unlock()
	b, ok := e.Store.objs[p]
	if !ok {
		return 0, notExist(u)
	}
	return int64(len(b)), nil
}

func (e *Engine) List(ctx context.Context, u *storage.URI) ([]storage.Info, error) {
	p := e.rel(u)
	if err := e.pre("List", p, 0); err != nil {
		return nil, err
	}
	e.Store.mu.Lock()
	defer e.Store.mu.Unlock()
	pre := strings.TrimSuffix(p, "/") + "/"
	seen := map[string]int64{}
	for k, v := range e.Store.objs {
		if strings.HasPrefix(k, pre) {
			rest := k[len(pre):]
			name, _, nested := strings.Cut(rest, "/")
			if nested {
				seen[name] += 0
			} else {
				seen[name] = int64(len(v))
			}
		}
	}
	if len(seen) == 0 {
		return nil, notExist(u)
	}
	var out []storage.Info
	for n, s := range seen {
		out = append(out, storage.Info{Name: n, Size: s})
	}
	sort.Slice(out, func(i, j int) bool { return out[i].Name < out[j].Name })
	return out, nil
}
