package lakeh

import (
	"context"
	"errors"
	"fmt"
	"sort"
	"strings"

	zed "github.com/brimdata/super"
	"github.com/brimdata/super/api"
	"github.com/brimdata/super/compiler"
	"github.com/brimdata/super/compiler/parser"
	"github.com/brimdata/super/lake"
	lakeapi "github.com/brimdata/super/lake/api"
	"github.com/brimdata/super/lakeparse"
	"github.com/brimdata/super/order"
	"github.com/brimdata/super/pkg/field"
	"github.com/brimdata/super/runtime"
	"github.com/brimdata/super/zbuf"
	"github.com/brimdata/super/zio/zsonio"
	"github.com/brimdata/super/zson"
	"github.com/segmentio/ksuid"
)

// Lake is one client's handle (its own lake.Root, hence its own caches).
type Lake struct {
	Eng  *Engine
	Root *lake.Root
	API  lakeapi.Interface
}

// Create initializes a new lake on store and returns client 0's handle.
func Create(ctx context.Context, store *MemStore, client int, hook Interposer) (*Lake, error) {
	eng := NewEngine(store, client, hook)
	root, err := lake.Create(ctx, eng, nil, RootURI())
	if err != nil {
		return nil, err
	}
	return &Lake{Eng: eng, Root: root, API: lakeapi.FromRoot(root)}, nil
}

// Open opens an existing lake with a fresh handle (cold caches).
func Open(ctx context.Context, store *MemStore, client int, hook Interposer) (*Lake, error) {
	eng := NewEngine(store, client, hook)
	root, err := lake.Open(ctx, eng, nil, RootURI())
	if err != nil {
		return nil, err
	}
	return &Lake{Eng: eng, Root: root, API: lakeapi.FromRoot(root)}, nil
}

// SortKeys builds pool sort keys, e.g. ("k","asc"), ("a.k","desc"), ("this","asc").
func SortKeys(key, dir string) order.SortKeys {
	which := order.Asc
	if dir == "desc" {
		which = order.Desc
	}
	var path field.Path
	if key != "this" && key != "" {
		path = field.Dotted(key)
	}
	return order.SortKeys{order.NewSortKey(which, path)}
}

// CreatePool creates a pool.  thresh<=0 means the default object threshold;
// stride<=0 the default seek stride.
func (l *Lake) CreatePool(ctx context.Context, name, key, dir string, stride int, thresh int64) (ksuid.KSUID, error) {
	return l.API.CreatePool(ctx, name, SortKeys(key, dir), stride, thresh)
}

// LoadZSON loads ZSON text into pool@branch and returns the commit id.
func (l *Lake) LoadZSON(ctx context.Context, pool ksuid.KSUID, branch, text string) (ksuid.KSUID, error) {
	zctx := zed.NewContext()
	r := zsonio.NewReader(zctx, strings.NewReader(text))
	return l.API.Load(ctx, zctx, pool, branch, r, api.CommitMessage{Author: "verif"})
}

// Query runs src through the lake API (default parallelism) and returns each
// result value formatted as ZSON.
func (l *Lake) Query(ctx context.Context, src string) ([]string, error) {
	q, err := l.API.Query(ctx, nil, src)
	if err != nil {
		return nil, err
	}
	return Drain(q)
}

// QueryPar compiles and runs src at an explicit parallelism.
func (l *Lake) QueryPar(ctx context.Context, src string, parallelism int) ([]string, error) {
	seq, sset, err := parser.ParseSuperPipe(nil, src)
	if err != nil {
		return nil, err
	}
	rctx := runtime.NewContext(ctx, zed.NewContext())
	comp := compiler.NewLakeCompiler(l.Root)
	q, err := comp.NewLakeQuery(rctx, seq, parallelism, (*lakeparse.Commitish)(nil))
	if err != nil {
		rctx.Cancel()
		if list, ok := err.(parser.ErrorList); ok {
			list.SetSourceSet(sset)
		}
		return nil, err
	}
	return Drain(q)
}

// Drain pulls a scanner/puller to completion and formats each value as ZSON.
func Drain(q zbuf.Puller) ([]string, error) {
	var out []string
	for {
		batch, err := q.Pull(false)
		if err != nil {
			q.Pull(true)
			return out, err
		}
		if batch == nil {
			return out, nil
		}
		for _, v := range batch.Values() {
			out = append(out, zson.FormatValue(v))
		}
		batch.Unref()
	}
}

// ObjectInfo is the projection of one data object's metadata.
type ObjectInfo struct {
	ID    string
	Min   string
	Max   string
	Count uint64
	Size  int64
}

// Objects lists the data objects of pool@rev via the :objects meta query.
func (l *Lake) Objects(ctx context.Context, pool, rev string) ([]ObjectInfo, error) {
	rows, err := l.Query(ctx, fmt.Sprintf("from %s@%s:objects | yield {id:ksuid(id),min:min,max:max,count:count,size:size}", pool, rev))
	if err != nil {
		return nil, err
	}
	var out []ObjectInfo
	for _, r := range rows {
		val, err := zson.ParseValue(zed.NewContext(), r)
		if err != nil {
			return nil, err
		}
		var oi ObjectInfo
		oi.ID = val.Deref("id").AsString()
		oi.Min = fmtField(&val, "min")
		oi.Max = fmtField(&val, "max")
		if v := val.Deref("count"); v != nil {
			oi.Count = v.Uint()
		}
		if v := val.Deref("size"); v != nil {
			oi.Size = v.Int()
		}
		out = append(out, oi)
	}
	return out, nil
}

// fmtField formats a record field as ZSON; a null field (for which Deref
// returns nil) is rendered with its declared type.
func fmtField(rec *zed.Value, name string) string {
	if v := rec.Deref(name); v != nil {
		return zson.FormatValue(*v)
	}
	if typ := zed.TypeRecordOf(rec.Type()); typ != nil {
		if i, ok := typ.IndexOfField(name); ok {
			return zson.FormatValue(zed.NewValue(typ.Fields[i].Type, nil))
		}
	}
	return "null"
}

// ErrClass maps an error to a coarse, refactoring-stable class used when
// comparing the real lake with the reference model.
func ErrClass(err error) string {
	if err == nil {
		return "ok"
	}
	s := err.Error()
	switch {
	case errors.Is(err, ErrCrashed):
		return "crashed"
	case strings.Contains(s, "already exists"):
		return "exists"
	case strings.Contains(s, "not found"), strings.Contains(s, "no such"), strings.Contains(s, "non-existent"):
		return "notfound"
	case strings.Contains(s, "empty"):
		return "empty"
	case strings.Contains(s, "conflict"):
		return "conflict"
	default:
		return "error"
	}
}

// Multiset returns a sorted copy (canonical multiset form).
func Multiset(rows []string) []string {
	out := append([]string(nil), rows...)
	sort.Strings(out)
	return out
}

// Equal compares two string slices.
func Equal(a, b []string) bool {
	if len(a) != len(b) {
		return false
	}
	for i := range a {
		if a[i] != b[i] {
			return false
		}
	}
	return true
}
