package lakeh

import (
	"context"
	"io"
	"os"
	"os/exec"
	"path/filepath"
	"strings"

	"github.com/brimdata/super/lake"
	lakeapi "github.com/brimdata/super/lake/api"
	"github.com/brimdata/super/pkg/storage"
)

// FSBackend is a lake directory on the real file system accessed through the
// repository's own storage.FileSystem engine, with the same interposer as the
// in-memory engine.  Unlike the in-memory engine it exposes the engine's real
// write behaviour: every Write call of a Put is a separate interposed call
// ("PutWrite"), so a fail-stop can leave whatever the engine leaves on disk.
type FSBackend struct {
	Dir string // directory that holds the lake (Dir/lake)
}

// NewFSBackend creates an empty backend under dir.
func NewFSBackend(dir string) (*FSBackend, error) {
	if err := os.MkdirAll(dir, 0o755); err != nil {
		return nil, err
	}
	return &FSBackend{Dir: dir}, nil
}

// Root is the lake root URI.
func (b *FSBackend) Root() *storage.URI {
	return storage.MustParseURI("file://" + filepath.Join(b.Dir, "lake"))
}

// Clone copies the directory tree to dst.
func (b *FSBackend) Clone(dst string) (*FSBackend, error) {
	os.RemoveAll(dst)
	if err := os.MkdirAll(filepath.Dir(dst), 0o755); err != nil {
		return nil, err
	}
	if out, err := exec.Command("cp", "-a", b.Dir, dst).CombinedOutput(); err != nil {
		return nil, &os.PathError{Op: "cp", Path: dst, Err: errOut(out, err)}
	}
	return &FSBackend{Dir: dst}, nil
}

type cpErr struct {
	out string
	err error
}

func (e cpErr) Error() string            { return e.err.Error() + ": " + e.out }
func errOut(out []byte, err error) error { return cpErr{string(out), err} }

// fsEngine wraps storage.FileSystem with the interposer.
type fsEngine struct {
	inner  *storage.FileSystem
	root   string
	client int
	hook   Interposer
}

func (e *fsEngine) rel(u *storage.URI) string {
	return strings.TrimPrefix(strings.TrimPrefix(u.Filepath(), e.root), "/")
}

func (e *fsEngine) pre(kind string, u *storage.URI, n int) error {
	if e.hook != nil {
		return e.hook(Op{Client: e.client, Kind: kind, Path: e.rel(u), N: n})
	}
	return nil
}

func (e *fsEngine) Get(ctx context.Context, u *storage.URI) (storage.Reader, error) {
	if err := e.pre("Get", u, 0); err != nil {
		return nil, err
	}
	return e.inner.Get(ctx, u)
}

type fsWriter struct {
	e *fsEngine
	u *storage.URI
	w io.WriteCloser
}

func (w *fsWriter) Write(b []byte) (int, error) {
	if err := w.e.pre("PutWrite", w.u, len(b)); err != nil {
		return 0, err
	}
	return w.w.Write(b)
}

func (w *fsWriter) Close() error {
	if err := w.e.pre("PutClose", w.u, 0); err != nil {
		return err // the process died: the underlying file is simply never closed/renamed
	}
	return w.w.Close()
}

func (e *fsEngine) Put(ctx context.Context, u *storage.URI) (io.WriteCloser, error) {
	if err := e.pre("Put", u, 0); err != nil {
		return nil, err
	}
	w, err := e.inner.Put(ctx, u)
	if err != nil {
		return nil, err
	}
	return &fsWriter{e: e, u: u, w: w}, nil
}

func (e *fsEngine) PutIfNotExists(ctx context.Context, u *storage.URI, b []byte) error {
	if err := e.pre("PutIfNotExists", u, len(b)); err != nil {
		return err
	}
	// storage.FileSystem.PutIfNotExists creates the file exclusively and then writes it:
	// a fail-stop between the two leaves an empty file under the final name.
	if err := e.pre("PutIfNotExistsWrite", u, len(b)); err != nil {
		if f, cerr := os.OpenFile(u.Filepath(), os.O_WRONLY|os.O_CREATE|os.O_EXCL, 0o644); cerr == nil {
			f.Close()
		}
		return err
	}
	return e.inner.PutIfNotExists(ctx, u, b)
}

func (e *fsEngine) Delete(ctx context.Context, u *storage.URI) error {
	if err := e.pre("Delete", u, 0); err != nil {
		return err
	}
	return e.inner.Delete(ctx, u)
}

func (e *fsEngine) DeleteByPrefix(ctx context.Context, u *storage.URI) error {
	if err := e.pre("DeleteByPrefix", u, 0); err != nil {
		return err
	}
	return e.inner.DeleteByPrefix(ctx, u)
}

func (e *fsEngine) Exists(ctx context.Context, u *storage.URI) (bool, error) {
	if err := e.pre("Exists", u, 0); err != nil {
		return false, err
	}
	return e.inner.Exists(ctx, u)
}

func (e *fsEngine) Size(ctx context.Context, u *storage.URI) (int64, error) {
	if err := e.pre("Size", u, 0); err != nil {
		return 0, err
	}
	return e.inner.Size(ctx, u)
}

func (e *fsEngine) List(ctx context.Context, u *storage.URI) ([]storage.Info, error) {
	if err := e.pre("List", u, 0); err != nil {
		return nil, err
	}
	return e.inner.List(ctx, u)
}

// Engine returns an interposed engine for client.
func (b *FSBackend) Engine(client int, hook Interposer) storage.Engine {
	return &fsEngine{inner: storage.NewFileSystem(), root: filepath.Join(b.Dir, "lake"), client: client, hook: hook}
}

// Create initializes a lake in the backend.
func (b *FSBackend) Create(ctx context.Context, client int, hook Interposer) (*Lake, error) {
	root, err := lake.Create(ctx, b.Engine(client, hook), nil, b.Root())
	if err != nil {
		return nil, err
	}
	return &Lake{Root: root, API: lakeapi.FromRoot(root)}, nil
}

// Open opens the lake with a fresh handle.
func (b *FSBackend) Open(ctx context.Context, client int, hook Interposer) (*Lake, error) {
	root, err := lake.Open(ctx, b.Engine(client, hook), nil, b.Root())
	if err != nil {
		return nil, err
	}
	return &Lake{Root: root, API: lakeapi.FromRoot(root)}, nil
}
