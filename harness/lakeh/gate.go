package lakeh

import (
	"fmt"
	"regexp"
	"strconv"
	"strings"
	"sync"
	"time"
)

// GateStep is one scheduled step: client C performs the gated storage
// operation labelled Lbl (labels of specs/Journal.tla: rh cas wh putc rmc).
type GateStep struct {
	C   int    `json:"c"`
	Lbl string `json:"lbl"`
	N   int    `json:"n"`
	R   string `json:"r"`
}

type gateReq struct {
	lbl   string
	n     int
	path  string
	grant chan error
}

// Gate is a deterministic scheduler over the storage operations that touch
// the shared metadata of one journal (and the commit objects of one pool).
// Every other storage operation passes through ungated.
//
// Clients are goroutines that call Begin/End around their script; inside, a
// gated storage call blocks until the scheduler grants it.  The scheduler
// only takes a decision when every live client is blocked or finished, so a
// schedule (sequence of client ids) determines the execution completely.
type Gate struct {
	Journal string // path prefix of the journal, e.g. "pools" or "<poolid>/branches"
	Commits string // path prefix of commit objects, e.g. "<poolid>/commits" ("" = none)
	Data    string // path prefix of data objects, e.g. "<poolid>/data" ("" = none)

	mu      sync.Mutex
	cond    *sync.Cond
	state   map[int]string // "running" | "blocked" | "done"
	pending map[int]*gateReq
	lastC   int
	lastLbl string
	crashed map[int]bool
	wantUp  map[int]bool // client is in a load operation whose upload has not started yet
	Trace   []GateStep   // steps actually granted (with coalesced reads as one step)
	free    bool         // when true every request is granted immediately (drain mode)
	store   *MemStore
}

var reEntry = regexp.MustCompile(`^(\d+)\.zng$`)

// NewGate creates a gate for the given journal / commits prefixes.
func NewGate(store *MemStore, journal, commits string) *Gate {
	g := &Gate{Journal: journal, Commits: commits, state: map[int]string{}, pending: map[int]*gateReq{}, crashed: map[int]bool{}, wantUp: map[int]bool{}, store: store}
	g.cond = sync.NewCond(&g.mu)
	return g
}

// classify maps a storage op to a Journal.tla step label ("" = ungated).
// (The "up" label -- first data-object Put of a load -- is decided in Hook
// because it depends on the client's current operation.)
func (g *Gate) classify(o Op) (string, int) {
	if strings.HasPrefix(o.Path, g.Journal+"/") {
		rest := o.Path[len(g.Journal)+1:]
		switch {
		case rest == "HEAD" && o.Kind == "Get":
			return "rh", 0
		case rest == "HEAD" && o.Kind == "PutClose":
			return "wh", 0
		case o.Kind == "PutIfNotExists":
			if m := reEntry.FindStringSubmatch(rest); m != nil {
				n, _ := strconv.Atoi(m[1])
				return "cas", n
			}
		}
		return "", 0
	}
	if g.Commits != "" && strings.HasPrefix(o.Path, g.Commits+"/") && strings.HasSuffix(o.Path, ".zng") && !strings.HasSuffix(o.Path, ".snap.zng") {
		switch o.Kind {
		case "PutClose":
			return "putc", 0
		case "Delete":
			return "rmc", 0
		}
	}
	return "", 0
}

// Hook returns the storage interposer for client c.
func (g *Gate) Hook(c int) Interposer {
	return func(o Op) error {
		lbl, n := g.classify(o)
		g.mu.Lock()
		if g.crashed[c] {
			g.mu.Unlock()
			return ErrCrashed
		}
		if lbl == "" && g.wantUp[c] && g.Data != "" && o.Kind == "Put" && strings.HasPrefix(o.Path, g.Data+"/") {
			lbl = "up"
			g.wantUp[c] = false
		}
		if lbl == "" || g.free || g.state[c] != "running" {
			g.mu.Unlock()
			return nil
		}
		req := &gateReq{lbl: lbl, n: n, path: o.Path, grant: make(chan error, 1)}
		g.pending[c] = req
		g.state[c] = "blocked"
		g.cond.Broadcast()
		g.mu.Unlock()
		return <-req.grant
	}
}

// Point is an explicit scheduling point of client c (label lbl) that is not a
// storage call, e.g. "fin": a query that has been compiled (commit pinned)
// waits here before it reads its data.
func (g *Gate) Point(c int, lbl string) error {
	g.mu.Lock()
	if g.crashed[c] {
		g.mu.Unlock()
		return ErrCrashed
	}
	if g.free || g.state[c] != "running" {
		g.mu.Unlock()
		return nil
	}
	req := &gateReq{lbl: lbl, grant: make(chan error, 1)}
	g.pending[c] = req
	g.state[c] = "blocked"
	g.cond.Broadcast()
	g.mu.Unlock()
	return <-req.grant
}

// Begin marks client c as running (call before its first operation).
func (g *Gate) Begin(c int) {
	g.mu.Lock()
	g.state[c] = "running"
	g.mu.Unlock()
}

// OpBoundary tells the gate that client c starts a new API operation: its next
// HEAD read is a step of its own (not coalesced with the previous operation's).
func (g *Gate) OpBoundary(c int) {
	g.mu.Lock()
	if g.lastC == c {
		g.lastLbl = ""
	}
	g.wantUp[c] = false
	g.mu.Unlock()
}

// ExpectUpload tells the gate that client c starts a load: its first data-object
// Put is the scheduling point "up" (other clients may commit during the upload).
func (g *Gate) ExpectUpload(c int) {
	g.mu.Lock()
	g.wantUp[c] = true
	g.mu.Unlock()
}

// End marks client c as finished.
func (g *Gate) End(c int) {
	g.mu.Lock()
	g.state[c] = "done"
	g.cond.Broadcast()
	g.mu.Unlock()
}

// quiesce waits until no client is running.  It returns false on timeout.
func (g *Gate) quiesce(timeout time.Duration) bool {
	deadline := time.Now().Add(timeout)
	g.mu.Lock()
	defer g.mu.Unlock()
	for {
		running := false
		for _, s := range g.state {
			if s == "running" {
				running = true
			}
		}
		if !running {
			return true
		}
		if time.Now().After(deadline) {
			return false
		}
		// cond.Wait with a timeout
		t := time.AfterFunc(50*time.Millisecond, func() { g.mu.Lock(); g.cond.Broadcast(); g.mu.Unlock() })
		g.cond.Wait()
		t.Stop()
	}
}

// Pending returns the label/n of client c's blocked request ("" if none).
func (g *Gate) Pending(c int) (string, int, string) {
	g.mu.Lock()
	defer g.mu.Unlock()
	if r := g.pending[c]; r != nil {
		return r.lbl, r.n, r.path
	}
	return "", 0, ""
}

// State returns the state of client c.
func (g *Gate) State(c int) string {
	g.mu.Lock()
	defer g.mu.Unlock()
	return g.state[c]
}

// Blocked returns the clients currently blocked at the gate, ascending.
func (g *Gate) Blocked() []int {
	g.mu.Lock()
	defer g.mu.Unlock()
	var out []int
	for c, s := range g.state {
		if s == "blocked" {
			out = append(out, c)
		}
	}
	for i := range out {
		for j := i + 1; j < len(out); j++ {
			if out[j] < out[i] {
				out[i], out[j] = out[j], out[i]
			}
		}
	}
	return out
}

// Grant lets client c's pending request proceed and waits until every client
// is blocked or done again.
func (g *Gate) Grant(c int) error {
	g.mu.Lock()
	req := g.pending[c]
	if req == nil {
		g.mu.Unlock()
		return fmt.Errorf("client %d has no pending request", c)
	}
	delete(g.pending, c)
	g.state[c] = "running"
	g.lastC, g.lastLbl = c, req.lbl
	st := GateStep{C: c, Lbl: req.lbl, N: req.n}
	switch req.lbl {
	case "rh":
		if b, ok := g.store.GetRaw(req.path); ok {
			st.N, _ = strconv.Atoi(strings.TrimSpace(string(b)))
			// Queue.ReadHead probes for the entries behind the HEAD object (ungated
			// Exists calls in the same scheduling step): what it returns is the last
			// entry of the unbroken run that starts there.
			dir := strings.TrimSuffix(req.path, "HEAD")
			for {
				if _, ok := g.store.GetRaw(fmt.Sprintf("%s%d.zng", dir, st.N+1)); !ok {
					break
				}
				st.N++
			}
		}
	case "cas":
		if _, ok := g.store.GetRaw(req.path); ok {
			st.R = "exists"
		} else {
			st.R = "ok"
		}
	}
	g.Trace = append(g.Trace, st)
	g.mu.Unlock()
	req.grant <- nil
	if !g.quiesce(20 * time.Second) {
		return fmt.Errorf("client did not reach the next gate point within 20s")
	}
	return nil
}

// Crash fail-stops client c: its pending request and all later storage calls
// return ErrCrashed.
func (g *Gate) Crash(c int) {
	g.mu.Lock()
	g.crashed[c] = true
	req := g.pending[c]
	delete(g.pending, c)
	g.state[c] = "running"
	g.Trace = append(g.Trace, GateStep{C: c, Lbl: "crash"})
	g.mu.Unlock()
	if req != nil {
		req.grant <- ErrCrashed
	}
	g.quiesce(20 * time.Second)
}

// Drain releases every blocked client and lets everything run to completion.
func (g *Gate) Drain() {
	g.mu.Lock()
	g.free = true
	for c, req := range g.pending {
		delete(g.pending, c)
		g.state[c] = "running"
		req.grant <- nil
	}
	g.mu.Unlock()
	g.quiesce(60 * time.Second)
}

// WaitQuiescent waits for the initial quiescence (all clients blocked/done).
func (g *Gate) WaitQuiescent() bool { return g.quiesce(20 * time.Second) }
