package lakeh

import (
	"encoding/json"
	"fmt"
	"sort"
	"strconv"
	"strings"

	"verif/core"
)

// JOp is one scripted operation of specs/Journal.tla.
type JOp struct {
	K   string `json:"k"`             // tip insert rmkey rename rmid read
	Key string `json:"key,omitempty"` // branch / pool name
	ID  int    `json:"id,omitempty"`  // spec id (rename, rmid)
	New string `json:"new,omitempty"` // rename target
	Arg string `json:"arg,omitempty"` // how a "tip" is realized on the real lake (ignored by the spec)
	Pre int    `json:"pre"`           // number of preliminary HEAD reads before the decisive one (measured on the real code)
}

// JScenario is one parameter set of Journal.tla.
type JScenario struct {
	Name             string         `json:"name"`
	Journal          string         `json:"journal"` // "branches" | "pools"
	Script           [][]JOp        `json:"script"`  // per client (client ids 1..n)
	Init             map[string]int `json:"init"`    // initial table
	MaxRetries       int            `json:"max_retries"`
	MaxCommitRetries int            `json:"max_commit_retries"`
	PreemptBound     int            `json:"preempt_bound"`
	CrashBound       int            `json:"crash_bound"`
	MoveChecksID     bool           `json:"move_checks_id"`
	Invariants       []string       `json:"invariants"`
}

// JResp is one finished operation as predicted by the spec.
type JResp struct {
	C   int    `json:"c"`
	I   int    `json:"i"`
	Op  JOp    `json:"op"`
	Res string `json:"res"`
	Val int    `json:"val"`
	Txn int    `json:"txn"`
}

// JBehaviour is one complete behaviour exported by TLC.
type JBehaviour struct {
	Sched    []GateStep     `json:"sched"`
	Resp     []JResp        `json:"resp"`
	Final    map[string]int `json:"final"`
	NEntries int            `json:"nentries"`
	Head     int            `json:"head"`
}

func (op JOp) tla(journal string, ival int) string {
	open := 0
	if journal == "branches" && op.K == "insert" {
		open = 1 // CreateBranch opens the branches journal (a HEAD read that checks nothing) before its lookup
	}
	switch op.K {
	case "rename":
		return fmt.Sprintf(`[k |-> "rename", id |-> %d, new |-> %q, pre |-> %d, open |-> 0]`, op.ID, op.New, op.Pre)
	case "rmid":
		return fmt.Sprintf(`[k |-> "rmid", id |-> %d, pre |-> %d, open |-> 0]`, op.ID, op.Pre)
	case "insert":
		return fmt.Sprintf(`[k |-> "insert", key |-> %q, pre |-> %d, open |-> %d, ival |-> %d]`, op.Key, op.Pre, open, ival)
	default:
		return fmt.Sprintf(`[k |-> %q, key |-> %q, pre |-> %d, open |-> %d]`, op.K, op.Key, op.Pre, open)
	}
}

// MCModule renders the parameter module.
func (s *JScenario) MCModule(mod string) string {
	var b strings.Builder
	fmt.Fprintf(&b, "---- MODULE %s ----\nEXTENDS Journal\n", mod)
	var cs []string
	for i := range s.Script {
		cs = append(cs, strconv.Itoa(i+1))
	}
	fmt.Fprintf(&b, "MCClients == {%s}\n", strings.Join(cs, ", "))
	b.WriteString("MCScript == ")
	for i, ops := range s.Script {
		var os []string
		for _, o := range ops {
			// a branch is created at main's initial commit (jrun: CreateBranch(pool, name, mainTip)); a pool gets a fresh id
			ival := -1
			if s.Journal == "branches" {
				ival = s.Init["main"]
			}
			os = append(os, o.tla(s.Journal, ival))
		}
		fmt.Fprintf(&b, "%d :> <<%s>>", i+1, strings.Join(os, ", "))
		if i < len(s.Script)-1 {
			b.WriteString(" @@ ")
		}
	}
	b.WriteString("\n")
	var keys []string
	for k := range s.Init {
		keys = append(keys, k)
	}
	sort.Strings(keys)
	if len(keys) == 0 {
		b.WriteString("MCInit == <<>>\n")
	} else {
		var kv []string
		for _, k := range keys {
			kv = append(kv, fmt.Sprintf("%q :> %d", k, s.Init[k]))
		}
		fmt.Fprintf(&b, "MCInit == %s\n", strings.Join(kv, " @@ "))
	}
	b.WriteString("====\n")
	return b.String()
}

// Cfg renders the TLC configuration.
func (s *JScenario) Cfg(export bool, view bool) string {
	var b strings.Builder
	fmt.Fprintf(&b, "\\* generated from lakeh.JScenario %q\nSPECIFICATION Spec\nCONSTANTS\n", s.Name)
	fmt.Fprintf(&b, "  Clients <- MCClients\n  Script <- MCScript\n  InitTable <- MCInit\n")
	fmt.Fprintf(&b, "  MaxRetries = %d\n  MaxCommitRetries = %d\n  PreemptBound = %d\n  CrashBound = %d\n", s.MaxRetries, s.MaxCommitRetries, s.PreemptBound, s.CrashBound)
	fmt.Fprintf(&b, "  MoveChecksId = %s\n  Export = %s\n", strings.ToUpper(strconv.FormatBool(s.MoveChecksID)), strings.ToUpper(strconv.FormatBool(export)))
	inv := append([]string{}, s.Invariants...)
	if export {
		inv = append(inv, "ExportInv")
	}
	fmt.Fprintf(&b, "INVARIANTS %s\n", strings.Join(inv, " "))
	if view {
		b.WriteString("VIEW View\n")
	}
	return b.String()
}

// Run runs TLC on the scenario.  With export, every complete behaviour is returned.
func (s *JScenario) Run(c *core.Ctx, export, view bool, workers int) ([]JBehaviour, *core.TLCResult) {
	mod := "MCJ_" + s.Name
	res := c.MustHold(core.TLCRun{
		Module:  mod,
		Cfg:     s.Cfg(export, view),
		Files:   map[string][]byte{mod + ".tla": []byte(s.MCModule(mod))},
		Workers: workers,
	})
	if res == nil {
		return nil, nil
	}
	var out []JBehaviour
	for _, line := range strings.Split(res.Out, "\n") {
		if !strings.HasPrefix(line, `<<"SCHED", "`) {
			continue
		}
		body := strings.TrimSuffix(strings.TrimPrefix(line, `<<"SCHED", `), ">>")
		var js string
		if err := json.Unmarshal([]byte(body), &js); err != nil {
			c.Inconclusive("cannot unquote schedule line: %v", err)
			return nil, res
		}
		var bh JBehaviour
		if err := json.Unmarshal([]byte(js), &bh); err != nil {
			c.Inconclusive("cannot parse schedule: %v: %.200s", err, js)
			return nil, res
		}
		out = append(out, bh)
	}
	sort.Slice(out, func(i, j int) bool { return SchedKey(out[i].Sched) < SchedKey(out[j].Sched) })
	return out, res
}

// SchedKey is the client-id sequence of a schedule.
func SchedKey(s []GateStep) string {
	var b strings.Builder
	for _, st := range s {
		if st.Lbl == "crash" {
			fmt.Fprintf(&b, "X%d", st.C)
		} else {
			b.WriteString(strconv.Itoa(st.C))
		}
	}
	return b.String()
}

// TraceCheck validates recorded executions (code -> spec): it asks TLC whether
// the concatenation of traces is a behaviour of Journal.tla for this scenario
// (JournalTrace.tla), evaluating every safety invariant in every state of the
// observed executions.  It returns accepted, the number of trace lines matched,
// and the TLC result.
func (s *JScenario) TraceCheck(c *core.Ctx, traces [][]GateStep) (bool, int, *core.TLCResult, error) {
	mod := "MCT_" + s.Name
	var lines []GateStep
	for i, t := range traces {
		if i > 0 {
			lines = append(lines, GateStep{Lbl: "reset"})
		}
		lines = append(lines, t...)
	}
	m := strings.Replace(s.MCModule(mod), "EXTENDS Journal\n", "EXTENDS JournalTrace\n", 1)
	var b strings.Builder
	fmt.Fprintf(&b, "\\* trace validation, generated from lakeh.JScenario %q\nSPECIFICATION TraceSpec\nCONSTANTS\n", s.Name)
	fmt.Fprintf(&b, "  Clients <- MCClients\n  Script <- MCScript\n  InitTable <- MCInit\n")
	fmt.Fprintf(&b, "  MaxRetries = %d\n  MaxCommitRetries = %d\n  PreemptBound = 99\n  CrashBound = %d\n", s.MaxRetries, s.MaxCommitRetries, s.CrashBound)
	fmt.Fprintf(&b, "  MoveChecksId = %s\n  Export = FALSE\n", strings.ToUpper(strconv.FormatBool(s.MoveChecksID)))
	fmt.Fprintf(&b, "INVARIANTS %s NotAccepted\n", strings.Join(s.Invariants, " "))
	res, err := c.RunTLC(core.TLCRun{
		Module:  mod,
		Cfg:     b.String(),
		Files:   map[string][]byte{mod + ".tla": []byte(m), "trace.ndjson": core.NDJSON(lines)},
		Workers: 1,
	})
	if err != nil {
		return false, 0, res, err
	}
	switch {
	case res.Status == "invariant" && res.Violated == "NotAccepted":
		return true, len(lines), res, nil
	case res.Status == "ok":
		// no behaviour of the spec matches the whole trace
		return false, int(res.Depth) - 1, res, nil
	default:
		// a real safety invariant failed on the observed execution, or a TLC problem
		return false, int(res.Depth) - 1, res, nil
	}
}
