package lakeh

import (
	"encoding/json"
	"fmt"
	"sort"
	"strconv"
	"strings"

	"verif/core"
)

// AbsModel is one parameter set of specs/LakeAbs.tla.  The same struct drives
// TLC (MC module + cfg are generated from it) and the Go side (values,
// batches and predicates are rendered from it), so there is one source of
// truth for the model constants.
type AbsModel struct {
	Name       string     `json:"name"`
	MaxOps     int        `json:"max_ops"`
	KeyOf      []int      `json:"key_of"`   // key of value id i+1; NullKey = null, NullKey+1 = missing
	NullKey    int        `json:"null_key"` // keys >= NullKey sort last and are equal to each other
	Batches    [][]int    `json:"batches"`
	ObjMode    string     `json:"obj_mode"` // "single" | "all"
	Branches   []string   `json:"branches"`
	OpKinds    []string   `json:"op_kinds"`
	Preds      [][]int    `json:"preds"`               // predicate i is true of v iff KeyOf[v] in Preds[i]
	Dir        string     `json:"dir"`                 // pool order: "asc" | "desc"
	Shape      [][]string `json:"shape,omitempty"`     // op kinds allowed at each position (nil = unconstrained)
	Stride     int        `json:"stride,omitempty"`    // pool seek stride in bytes (0 = default)
	EmptyVal   int        `json:"empty_val,omitempty"` // value id rendered as the empty record {} (0 = none); its key must be NullKey+1
	BigFrom    int        `json:"big_from,omitempty"`  // keys >= BigFrom (and < NullKey) are rendered multiplied by 100000 (mixed encoded sizes)
	Invariants []string   `json:"invariants"`
	Properties []string   `json:"properties"`
}

func tlaSeq(xs []int) string {
	s := make([]string, len(xs))
	for i, x := range xs {
		s[i] = strconv.Itoa(x)
	}
	return "<<" + strings.Join(s, ", ") + ">>"
}

func tlaSet(xs []int) string {
	s := make([]string, len(xs))
	for i, x := range xs {
		s[i] = strconv.Itoa(x)
	}
	return "{" + strings.Join(s, ", ") + "}"
}

func tlaStrSet(xs []string) string {
	s := make([]string, len(xs))
	for i, x := range xs {
		s[i] = strconv.Quote(x)
	}
	return "{" + strings.Join(s, ", ") + "}"
}

// MCModule renders the model-parameter module (TLC cfg files cannot hold tuples).
func (m *AbsModel) MCModule(modname string) string {
	var b strings.Builder
	fmt.Fprintf(&b, "---- MODULE %s ----\nEXTENDS LakeAbs\n", modname)
	fmt.Fprintf(&b, "MCKeyOf == %s\n", tlaSeq(m.KeyOf))
	var bs []string
	for _, x := range m.Batches {
		bs = append(bs, tlaSeq(x))
	}
	fmt.Fprintf(&b, "MCBatches == <<%s>>\n", strings.Join(bs, ", "))
	var ps []string
	for _, x := range m.Preds {
		ps = append(ps, tlaSet(x))
	}
	fmt.Fprintf(&b, "MCPreds == <<%s>>\n", strings.Join(ps, ", "))
	var sh []string
	for _, x := range m.Shape {
		sh = append(sh, tlaStrSet(x))
	}
	fmt.Fprintf(&b, "MCShape == <<%s>>\n====\n", strings.Join(sh, ", "))
	return b.String()
}

// Cfg renders the TLC configuration.
func (m *AbsModel) Cfg(export bool) string {
	var b strings.Builder
	fmt.Fprintf(&b, "\\* generated from lakeh.AbsModel %q\nSPECIFICATION Spec\nCONSTANTS\n", m.Name)
	fmt.Fprintf(&b, "  MaxOps = %d\n  KeyOf <- MCKeyOf\n  NullKey = %d\n  Batches <- MCBatches\n  ObjMode = %q\n", m.MaxOps, m.NullKey, m.ObjMode)
	fmt.Fprintf(&b, "  CompactSplit = %s\n", strings.ToUpper(strconv.FormatBool(m.ObjMode == "single" && m.Stride > 0 && m.Stride < 16)))
	fmt.Fprintf(&b, "  BranchNames = %s\n  OpKinds = %s\n  PredKeys <- MCPreds\n  Shape <- MCShape\n  Export = %s\n", tlaStrSet(m.Branches), tlaStrSet(m.OpKinds), strings.ToUpper(strconv.FormatBool(export)))
	inv := append([]string{}, m.Invariants...)
	if export {
		inv = append(inv, "ExportInv")
	}
	fmt.Fprintf(&b, "INVARIANTS %s\n", strings.Join(inv, " "))
	for _, p := range m.Properties {
		fmt.Fprintf(&b, "PROPERTY %s\n", p)
	}
	return b.String()
}

// Step is one record of a LakeAbs history: operation, predicted result and
// predicted observable state after it.
type Step struct {
	Op      string  `json:"op"`
	B       string  `json:"b"`
	Res     string  `json:"res"`
	Batch   int     `json:"batch,omitempty"`
	Obj     int     `json:"obj,omitempty"`
	Pred    int     `json:"pred,omitempty"`
	Objs    []int   `json:"objs,omitempty"`
	Vec     bool    `json:"vec,omitempty"`
	From    string  `json:"from,omitempty"`
	At      int     `json:"at,omitempty"`
	Child   string  `json:"child,omitempty"`
	Target  int     `json:"target,omitempty"`
	Base    int     `json:"base,omitempty"`
	Commit  int     `json:"commit,omitempty"`
	NewObjs [][]int `json:"newobjs,omitempty"`
	NewIds  []int   `json:"newids,omitempty"`
	Removed []int   `json:"removed,omitempty"`

	Tips     map[string]int   `json:"tips"`
	Data     map[string][]int `json:"data"`
	ObjsOf   map[string][]int `json:"objsOf"`
	VecsOf   map[string][]int `json:"vecsOf"`
	Readable map[string]bool  `json:"readable"`
	NCommits int              `json:"ncommits"`
	NObjs    int              `json:"nobjs"`
}

// Key is the canonical identity of the operation (not of the predictions).
func (s *Step) Key() string {
	o := append([]int(nil), s.Objs...)
	sort.Ints(o)
	return fmt.Sprintf("%s|%s|%d|%d|%d|%v|%v|%s|%s|%d", s.Op, s.B, s.Batch, s.Obj, s.Pred, o, s.Vec, s.From, s.Child, s.Target)
}

// History is a sequence of steps.
type History []Step

func (h History) String() string {
	var parts []string
	for _, s := range h {
		var a string
		switch s.Op {
		case "load":
			a = fmt.Sprintf("load(%s,batch%d)", s.B, s.Batch)
		case "delete":
			a = fmt.Sprintf("delete(%s,o%d)", s.B, s.Obj)
		case "deletewhere":
			a = fmt.Sprintf("deletewhere(%s,p%d)", s.B, s.Pred)
		case "compact":
			a = fmt.Sprintf("compact(%s,%v,vec=%v)", s.B, s.Objs, s.Vec)
		case "addvec", "delvec":
			a = fmt.Sprintf("%s(%s,%v)", s.Op, s.B, s.Objs)
		case "branch":
			a = fmt.Sprintf("branch(%s from %s@c%d)", s.B, s.From, s.At)
		case "merge":
			a = fmt.Sprintf("merge(%s into %s)", s.Child, s.B)
		case "revert":
			a = fmt.Sprintf("revert(%s,c%d)", s.B, s.Target)
		case "vacuum":
			a = fmt.Sprintf("vacuum(%s)", s.B)
		default:
			a = s.Op
		}
		parts = append(parts, a+"->"+s.Res)
	}
	return strings.Join(parts, "; ")
}

// ParseHistories extracts the histories TLC printed with
// PrintT(<<"HIST", ToJson(hist)>>).
func ParseHistories(res *core.TLCResult) ([]History, error) {
	var out []History
	for _, line := range strings.Split(res.Out, "\n") {
		if !strings.HasPrefix(line, `<<"HIST", "`) {
			continue
		}
		body := strings.TrimSuffix(strings.TrimPrefix(line, `<<"HIST", `), ">>")
		var js string
		if err := json.Unmarshal([]byte(body), &js); err != nil {
			return nil, fmt.Errorf("cannot unquote history line: %v", err)
		}
		var h History
		if err := json.Unmarshal([]byte(js), &h); err != nil {
			return nil, fmt.Errorf("cannot parse history: %v: %.200s", err, js)
		}
		out = append(out, h)
	}
	return out, nil
}

// GenHistories runs TLC on LakeAbs with model m: exhaustive BFS over all
// histories of length m.MaxOps (simulate == "") or random behaviours
// (simulate = "num=N").  The spec's invariants are checked on the way; a
// violation makes the run inconclusive (spec-level counterexample).
func GenHistories(c *core.Ctx, m *AbsModel, simulate string, workers int) ([]History, *core.TLCResult) {
	mod := "MC_" + m.Name
	run := core.TLCRun{
		Module:  mod,
		Cfg:     m.Cfg(true),
		Files:   map[string][]byte{mod + ".tla": []byte(m.MCModule(mod))},
		Workers: workers,
	}
	if simulate != "" {
		run.Simulate = simulate
		run.Depth = m.MaxOps + 1
		run.Seed = c.Seed
		run.Workers = 1
	}
	res := c.MustHold(run)
	if res == nil {
		return nil, nil
	}
	hs, err := ParseHistories(res)
	if err != nil {
		c.Inconclusive("%v", err)
		return nil, res
	}
	// de-duplicate (simulation may repeat)
	seen := map[string]bool{}
	var out []History
	for _, h := range hs {
		var ks []string
		for i := range h {
			ks = append(ks, h[i].Key())
		}
		k := strings.Join(ks, ";")
		if !seen[k] {
			seen[k] = true
			out = append(out, h)
		}
	}
	sort.Slice(out, func(i, j int) bool { return histKey(out[i]) < histKey(out[j]) })
	return out, res
}

func histKey(h History) string {
	var ks []string
	for i := range h {
		ks = append(ks, h[i].Key())
	}
	return strings.Join(ks, ";")
}

// ValueText renders value id v (1-based) as a ZSON record.  Key NullKey is an
// explicit null, NullKey+1 a missing key field.
func (m *AbsModel) ValueText(v int) string {
	k := m.KeyOf[v-1]
	if m.BigFrom > 0 && k >= m.BigFrom && k < m.NullKey {
		return fmt.Sprintf("{k:%d,u:%d}", k*100000, v)
	}
	switch {
	case v == m.EmptyVal && v != 0:
		return "{}"
	case k == m.NullKey:
		return fmt.Sprintf("{k:null,u:%d}", v)
	case k > m.NullKey:
		return fmt.Sprintf("{u:%d}", v)
	default:
		return fmt.Sprintf("{k:%d,u:%d}", k, v)
	}
}

// BatchText renders batch i (1-based) as ZSON text.
func (m *AbsModel) BatchText(i int) string {
	var b strings.Builder
	for _, v := range m.Batches[i-1] {
		b.WriteString(m.ValueText(v))
		b.WriteByte('\n')
	}
	return b.String()
}

// PredText renders predicate i (1-based) as a Zed boolean expression that is
// true exactly for the values whose key is in Preds[i].
func (m *AbsModel) PredText(i int) string {
	var terms []string
	for _, k := range m.Preds[i-1] {
		switch {
		case k == m.NullKey:
			terms = append(terms, "k==null")
		case m.BigFrom > 0 && k >= m.BigFrom && k < m.NullKey:
			terms = append(terms, fmt.Sprintf("k==%d", k*100000))
		default:
			terms = append(terms, fmt.Sprintf("k==%d", k))
		}
	}
	return strings.Join(terms, " or ")
}

// CheckOnly runs TLC exhaustively on model m without exporting histories
// (design-level check with larger bounds).
func CheckOnly(c *core.Ctx, m *AbsModel, workers int) *core.TLCResult {
	mod := "MC_" + m.Name
	return c.MustHold(core.TLCRun{
		Module:  mod,
		Cfg:     m.Cfg(false),
		Files:   map[string][]byte{mod + ".tla": []byte(m.MCModule(mod))},
		Workers: workers,
	})
}

// Sub returns up to n histories chosen deterministically by seed.
func Sub(hs []History, n int, seed int64) []History {
	if len(hs) <= n {
		return hs
	}
	// stride sampling with a seed-dependent offset keeps prefix sharing high
	out := make([]History, 0, n)
	step := len(hs) / n
	off := int(seed) % step
	if off < 0 {
		off = -off
	}
	for i := off; i < len(hs) && len(out) < n; i += step {
		out = append(out, hs[i])
	}
	return out
}

// WarmModel is the family of histories replayed through one long-lived handle:
// two branches forking at a commit whose snapshot the handle has cached, with
// data and vector operations on both sides of the fork.
func WarmModel(quick bool) *AbsModel {
	m := &AbsModel{
		Name:  "lake_warm",
		KeyOf: []int{1, 2, 3, 4}, NullKey: 9,
		Batches:    [][]int{{1, 2}, {3, 4}},
		Preds:      [][]int{{1}},
		Branches:   []string{"main", "b1"},
		ObjMode:    "single",
		Dir:        "asc",
		MaxOps:     4,
		OpKinds:    []string{"load", "branch", "addvec", "delvec", "delete", "compact"},
		Shape:      [][]string{{"load"}, {"branch"}, {"addvec", "delete", "delvec", "load"}, {"delvec", "addvec", "delete", "compact", "load"}},
		Invariants: []string{"TypeOK", "Replayable", "ContentsEqualLive", "TipsReadable", "FailedUntouched"},
	}
	if !quick {
		m.MaxOps = 5
		m.Shape = append(m.Shape, []string{"delvec", "addvec", "delete", "compact", "load"})
	}
	return m
}
