// Package jrun replays behaviours of specs/Journal.tla on real lake handles
// through the storage gate and evaluates the property oracles on the real storage.
package jrun

import (
	"context"
	"fmt"
	"math/rand"
	"sort"
	"strings"
	"sync"
	"sync/atomic"

	"github.com/segmentio/ksuid"

	"verif/core"
	"verif/lakeh"
)

// OpResult is the real outcome of one scripted operation.
type OpResult struct {
	C    int       `json:"c"`
	I    int       `json:"i"`
	Op   lakeh.JOp `json:"op"`
	Res  string    `json:"res"`
	Err  string    `json:"err,omitempty"`
	ID   string    `json:"id,omitempty"` // commit / pool id returned
	UID  int       `json:"uid,omitempty"`
	T0   int64     `json:"t0"` // global sequence numbers taken at the start / end of the operation
	T1   int64     `json:"t1"`
	Rows []int     `json:"rows,omitempty"` // scan: the u values returned
}

// Calibrate measures, on the real code, how many HEAD reads each operation of
// the scenario performs before its decisive one (JOp.Pre): each distinct kind of
// operation is run alone on a fresh lake and its granted steps are inspected.
func (r *Runner) Calibrate(sc *lakeh.JScenario) error {
	type key struct{ k, arg string }
	seen := map[key]int{}
	saveRand := r.Rand
	defer func() { r.Rand = saveRand }()
	for i := range sc.Script {
		for k := range sc.Script[i] {
			op := &sc.Script[i][k]
			if op.K == "load" || op.K == "scan" || op.K == "read" {
				continue
			}
			kk := key{op.K, op.Arg}
			if n, ok := seen[kk]; ok {
				op.Pre = n
				continue
			}
			mini := *sc
			mini.Name = sc.Name + "_cal"
			probe := *op
			switch op.K {
			case "insert":
				probe.Key = "calprobe" // a name that does not exist yet
			case "rename":
				probe.New = "calprobe"
			}
			mini.Script = [][]lakeh.JOp{{probe}}
			r.Rand = rand.New(rand.NewSource(1))
			results, _, _, err := r.Execute(&mini, nil, nil)
			if err != nil {
				return fmt.Errorf("calibration of %s %s: %w", op.K, op.Arg, err)
			}
			if len(results) != 1 || results[0].Res != "ok" {
				return fmt.Errorf("calibration of %s %s: the operation did not succeed alone: %+v", op.K, op.Arg, results)
			}
			n := 0
			for _, st := range r.LastTrace {
				if st.Lbl != "rh" {
					break
				}
				n++
			}
			if n == 0 {
				// The real operation wrote without reading HEAD first; Journal.tla has no such
				// behaviour, so every replay of this scenario will be reported as drift and
				// only the model-free oracles judge it.
				r.C.Drift("calibration of %s %s: no HEAD read before the first write: %v", op.K, op.Arg, r.LastTrace)
				n = 1
			}
			seen[kk] = n - 1
			op.Pre = n - 1
		}
	}
	return nil
}

// Crashed reports whether the operation was cut short by the client's fail-stop.
func (o OpResult) Crashed() bool { return strings.Contains(o.Err, "process crashed") }

// Witness is the replayable record of one executed schedule.
type Witness struct {
	Scenario *lakeh.JScenario `json:"scenario"`
	Sched    []lakeh.GateStep `json:"sched"`
	Results  []OpResult       `json:"results"`
	Detail   string           `json:"detail"`
}

// Runner executes Journal.tla schedules on real lake handles.
type Runner struct {
	C   *core.Ctx
	Ctx context.Context
	// Setup, if set, prepares pool p beyond the default single initial value.
	Setup func(ctx context.Context, lk *lakeh.Lake, pool ksuid.KSUID) error
	// Thresh is pool p's object threshold (0 = default).
	Thresh int64
	// Tip, if set, realizes the k-th "tip" operation of client c (default: load one value).
	Tip func(ctx context.Context, lk *lakeh.Lake, pool ksuid.KSUID, c, k int, op lakeh.JOp) (ksuid.KSUID, error)
	// CommitData, filled by Execute: real commit id (string) -> sorted u values visible at it (read cold after the run).
	CommitData map[string][]int
	MainTip    string
	// Final, filled by Execute: u values of p@main read cold after the run (nil if unreadable).
	Final []int
	// SkipTipData disables the "value of every acknowledged tip is visible" oracle
	// (for runs whose tips are not loads).
	SkipTipData bool
	// Rand, if set and Execute is called with a nil schedule, makes the
	// scheduler pick a blocked client at random at every step.
	Rand *rand.Rand
	// LastTrace is the sequence of steps granted in the last Execute, with entry
	// numbers and HEAD values normalized to the start of the run (as in Journal.tla).
	LastTrace []lakeh.GateStep
}

// run one schedule on the real lake; returns the real results and the list of oracle failures.
func (r *Runner) Execute(sc *lakeh.JScenario, sched []lakeh.GateStep, want *lakeh.JBehaviour) (results []OpResult, fails []string, drift string, err error) {
	ctx := r.Ctx
	store := lakeh.NewMemStore()
	lk0, err := lakeh.Create(ctx, store, 0, nil)
	if err != nil {
		return nil, nil, "", err
	}
	poolP, err := lk0.CreatePool(ctx, "p", "k", "asc", 0, r.Thresh)
	if err != nil {
		return nil, nil, "", err
	}
	if r.Setup != nil {
		if err := r.Setup(ctx, lk0, poolP); err != nil {
			return nil, nil, "", err
		}
	} else if _, err := lk0.LoadZSON(ctx, poolP, "main", "{k:0,u:0}"); err != nil {
		return nil, nil, "", err
	}
	ids := map[int]ksuid.KSUID{1: poolP} // spec id -> real pool id
	if sc.Journal == "pools" {
		q, err := lk0.CreatePool(ctx, "q", "k", "asc", 0, 0)
		if err != nil {
			return nil, nil, "", err
		}
		ids[2] = q
	}
	mainTip, err := lk0.API.CommitObject(ctx, poolP, "main")
	if err != nil {
		return nil, nil, "", err
	}
	if _, ok := sc.Init["b1"]; ok && sc.Journal == "branches" {
		if err := lk0.API.CreateBranch(ctx, poolP, "b1", mainTip); err != nil && !strings.Contains(err.Error(), "already exists") {
			return nil, nil, "", err
		}
	}
	var gate *lakeh.Gate
	headPath := "pools/HEAD"
	if sc.Journal == "branches" {
		gate = lakeh.NewGate(store, poolP.String()+"/branches", poolP.String()+"/commits")
		gate.Data = poolP.String() + "/data"
		headPath = poolP.String() + "/branches/HEAD"
	} else {
		gate = lakeh.NewGate(store, "pools", "")
	}
	hb, _ := store.GetRaw(headPath)
	var head0 int
	fmt.Sscanf(strings.TrimSpace(string(hb)), "%d", &head0)

	n := len(sc.Script)
	clients := make([]*lakeh.Lake, n+1)
	for i := 1; i <= n; i++ {
		lk, err := lakeh.Open(ctx, store, i, gate.Hook(i))
		if err != nil {
			return nil, nil, "", err
		}
		// warm the handle's caches (ungated: Begin has not been called)
		lk.API.CommitObject(ctx, poolP, "main")
		clients[i] = lk
	}
	var mu sync.Mutex
	var wg sync.WaitGroup
	var clock int64
	for i := 1; i <= n; i++ {
		gate.Begin(i)
		wg.Add(1)
		go func(i int) {
			defer wg.Done()
			defer gate.End(i)
			lk := clients[i]
			for k, op := range sc.Script[i-1] {
				res := OpResult{C: i, I: k + 1, Op: op, UID: 100*i + k + 1}
				gate.OpBoundary(i)
				// the scheduler decides when the operation begins (real-time order of operations)
				if err := gate.Point(i, "begin"); err != nil {
					res.Res, res.Err = "err", err.Error()
					mu.Lock()
					results = append(results, res)
					mu.Unlock()
					continue
				}
				res.T0 = atomic.AddInt64(&clock, 1)
				var e error
				switch op.K {
				case "load":
					var cm ksuid.KSUID
					gate.ExpectUpload(i)
					cm, e = lk.LoadZSON(ctx, poolP, op.Key, fmt.Sprintf("{k:%d,u:%d}", res.UID, res.UID))
					res.ID = cm.String()
				case "tip":
					var cm ksuid.KSUID
					if r.Tip == nil {
						e = fmt.Errorf("scenario has a tip operation but the runner has no Tip realization")
					} else {
						cm, e = r.Tip(ctx, lk, poolP, i, k+1, op)
					}
					res.ID = cm.String()
				case "scan":
					q, qe := lk.API.Query(ctx, nil, "from p@"+op.Key)
					e = qe
					if e == nil {
						if e = gate.Point(i, "fin"); e == nil {
							var rows []string
							rows, e = lakeh.Drain(q)
							for _, row := range rows {
								var kk, u int
								if _, err := fmt.Sscanf(row, "{k:%d,u:%d}", &kk, &u); err == nil {
									res.Rows = append(res.Rows, u)
								}
							}
							sort.Ints(res.Rows)
						} else {
							q.Pull(true)
						}
					}
				case "insert":
					if sc.Journal == "branches" {
						e = lk.API.CreateBranch(ctx, poolP, op.Key, mainTip)
					} else {
						var id ksuid.KSUID
						id, e = lk.API.CreatePool(ctx, op.Key, lakeh.SortKeys("k", "asc"), 0, 0)
						res.ID = id.String()
					}
				case "rmkey":
					e = lk.API.RemoveBranch(ctx, poolP, op.Key)
				case "rename":
					e = lk.API.RenamePool(ctx, ids[op.ID], op.New)
				case "rmid":
					e = lk.API.RemovePool(ctx, ids[op.ID])
				}
				res.T1 = atomic.AddInt64(&clock, 1)
				res.Res = "ok"
				if e != nil {
					res.Res, res.Err = "err", e.Error()
				}
				mu.Lock()
				results = append(results, res)
				mu.Unlock()
			}
		}(i)
	}
	if !gate.WaitQuiescent() {
		gate.Drain()
		wg.Wait()
		return results, nil, "", fmt.Errorf("clients did not reach the gate")
	}
	if sched == nil && r.Rand != nil {
		for steps := 0; steps < 2000; steps++ {
			bl := gate.Blocked()
			if len(bl) == 0 {
				break
			}
			if err := gate.Grant(bl[r.Rand.Intn(len(bl))]); err != nil {
				gate.Drain()
				wg.Wait()
				return results, nil, "", err
			}
		}
	}
	for si, st := range sched {
		if st.Lbl == "crash" {
			gate.Crash(st.C)
			continue
		}
		lbl, rn, _ := gate.Pending(st.C)
		if gate.State(st.C) == "blocked" && lbl == "begin" {
			// the operation starts now, i.e. after everything scheduled before this step
			if err := gate.Grant(st.C); err != nil {
				gate.Drain()
				wg.Wait()
				return results, nil, "", err
			}
			lbl, rn, _ = gate.Pending(st.C)
		}
		if drift != "" {
			// The real code has left the spec's behaviour (reported as drift).  Keep following
			// the schedule's client order one storage operation at a time, so that the
			// model-free oracles still judge a controlled interleaving rather than a free run.
			if gate.State(st.C) == "blocked" {
				if err := gate.Grant(st.C); err != nil {
					gate.Drain()
					wg.Wait()
					return results, nil, "", err
				}
			}
			continue
		}
		if gate.State(st.C) != "blocked" || lbl != st.Lbl {
			drift = fmt.Sprintf("step %d: spec expects client %d to do %s, real client is %s with pending %q", si+1, st.C, st.Lbl, gate.State(st.C), lbl)
			if gate.State(st.C) == "blocked" {
				if err := gate.Grant(st.C); err != nil {
					gate.Drain()
					wg.Wait()
					return results, nil, "", err
				}
			}
			continue
		}
		if (lbl == "cas") && rn != st.N+head0 {
			drift = fmt.Sprintf("step %d: spec expects cas of entry %d, real client writes entry %d (offset %d)", si+1, st.N, rn, head0)
		}
		if err := gate.Grant(st.C); err != nil {
			gate.Drain()
			wg.Wait()
			return results, nil, "", err
		}
		tr := gate.Trace[len(gate.Trace)-1]
		if drift == "" && lbl == "rh" && tr.N != st.N+head0 {
			drift = fmt.Sprintf("step %d: spec predicts HEAD=%d, real HEAD=%d (offset %d)", si+1, st.N, tr.N, head0)
		}
		if drift == "" && lbl == "cas" && tr.R != st.R {
			drift = fmt.Sprintf("step %d: spec predicts cas %s, real %s", si+1, st.R, tr.R)
		}
	}
	if drift != "" {
		// finish what the schedule left over, one client at a time in client order
		for steps := 0; steps < 5000; steps++ {
			bl := gate.Blocked()
			if len(bl) == 0 {
				break
			}
			if err := gate.Grant(bl[0]); err != nil {
				break
			}
		}
	}
	if drift == "" {
		for i := 1; i <= n; i++ {
			if gate.State(i) != "done" {
				l, _, _ := gate.Pending(i)
				drift = fmt.Sprintf("after the schedule client %d is not finished (pending %q)", i, l)
			}
		}
	}
	gate.Drain()
	wg.Wait()
	r.LastTrace = nil
	for _, st := range gate.Trace {
		if st.Lbl == "begin" {
			continue
		}
		if st.Lbl == "rh" || st.Lbl == "cas" || st.Lbl == "wh" {
			if st.Lbl == "wh" {
				// the gate does not know the value being written; Journal.tla's wh carries at+1 = the entry just created
				st.N = 0
			} else {
				st.N -= head0
			}
		}
		r.LastTrace = append(r.LastTrace, st)
	}
	sort.Slice(results, func(a, b int) bool {
		if results[a].C != results[b].C {
			return results[a].C < results[b].C
		}
		return results[a].I < results[b].I
	})
	// compare responses with the spec's (binding; a mismatch is drift, the oracles below decide)
	if drift == "" && want != nil {
		for _, w := range want.Resp {
			for _, g := range results {
				if g.C == w.C && g.I == w.I && !g.Crashed() && (g.Res == "ok") != (w.Res == "ok") {
					drift = fmt.Sprintf("client %d op %d (%s): spec result %s, real %s %s", w.C, w.I, w.Op.K, w.Res, g.Res, g.Err)
				}
			}
		}
	}
	r.MainTip = mainTip.String()
	r.CommitData = map[string][]int{}
	if obs, err := lakeh.Open(ctx, store, 98, nil); err == nil {
		want := map[string]bool{r.MainTip: true}
		for _, g := range results {
			if (g.Op.K == "tip" || g.Op.K == "load") && g.Res == "ok" {
				want[g.ID] = true
			}
		}
		r.Final = nil
		if rows, err := obs.Query(ctx, "from p@main"); err == nil {
			r.Final = []int{}
			for _, row := range rows {
				var kk, u int
				if _, err := fmt.Sscanf(row, "{k:%d,u:%d}", &kk, &u); err == nil {
					r.Final = append(r.Final, u)
				}
			}
			sort.Ints(r.Final)
		}
		for id := range want {
			rows, err := obs.Query(ctx, "from p@"+id)
			if err != nil {
				continue
			}
			var us []int
			for _, row := range rows {
				var kk, u int
				if _, err := fmt.Sscanf(row, "{k:%d,u:%d}", &kk, &u); err == nil {
					us = append(us, u)
				}
			}
			sort.Ints(us)
			r.CommitData[id] = us
		}
	}
	fails = r.Oracles(sc, store, poolP, ids, results)
	return results, fails, drift, nil
}

// oracles evaluates the property on the real storage with a cold handle.
func (r *Runner) Oracles(sc *lakeh.JScenario, store *lakeh.MemStore, poolP ksuid.KSUID, ids map[int]ksuid.KSUID, results []OpResult) (fails []string) {
	ctx := r.Ctx
	obs, err := lakeh.Open(ctx, store, 99, nil)
	if err != nil {
		return []string{"unreadable: lake cannot be reopened: " + err.Error()}
	}
	if sc.Journal == "branches" {
		rows, err := obs.Query(ctx, "from :branches | pool.name=='p' | yield branch.name")
		if err != nil {
			return []string{"unreadable: branch table of pool p cannot be read: " + err.Error()}
		}
		names := map[string]int{}
		for _, n := range rows {
			names[strings.Trim(n, `"`)]++
		}
		for n, k := range names {
			if k > 1 {
				fails = append(fails, fmt.Sprintf("names: branch name %q appears %d times", n, k))
			}
		}
		removed := map[string]bool{}
		for _, g := range results {
			if g.Op.K == "rmkey" && g.Res == "ok" {
				removed[g.Op.Key] = true
			}
		}
		// acked creates are present unless an acked remove exists
		for _, g := range results {
			if g.Crashed() && g.Op.K == "rmkey" {
				removed[g.Op.Key] = true // may or may not have taken effect
			}
		}
		for _, g := range results {
			if g.Op.K == "insert" && g.Res == "ok" && !removed[g.Op.Key] && names[g.Op.Key] == 0 {
				fails = append(fails, fmt.Sprintf("lost-update: acknowledged create of branch %q is not in the branch table", g.Op.Key))
			}
		}
		for b := range names {
			got, err := obs.Query(ctx, "from p@"+b)
			if err != nil {
				fails = append(fails, fmt.Sprintf("unreadable: branch %q cannot be read: %v", b, err))
				continue
			}
			have := map[int]int{}
			for _, row := range got {
				var k, u int
				fmt.Sscanf(row, "{k:%d,u:%d}", &k, &u)
				have[u]++
			}
			for _, g := range results {
				if g.Op.K != "load" || g.Op.Key != b || g.Crashed() || r.SkipTipData {
					continue
				}
				switch {
				case g.Res == "ok" && have[g.UID] != 1 && !removed[b]:
					fails = append(fails, fmt.Sprintf("lost-update: acknowledged commit of value u=%d on branch %q appears %d times in the branch", g.UID, b, have[g.UID]))
				case g.Res != "ok" && have[g.UID] != 0:
					fails = append(fails, fmt.Sprintf("fail-trace: commit of u=%d on %q reported failure (%s) but the value is visible", g.UID, b, g.Err))
				}
			}
		}
		// usable: a new client can still commit to main and create a branch
		if _, err := obs.LoadZSON(ctx, poolP, "main", "{k:999,u:999}"); err != nil && !r.SkipTipData {
			fails = append(fails, fmt.Sprintf("usable: a fresh client cannot commit to branch main afterwards: %v", err))
		}
		return fails
	}
	// pools journal
	rows, err := obs.Query(ctx, "from :pools | yield {name:name,id:ksuid(id)}")
	if err != nil {
		return []string{"unreadable: pool table cannot be read: " + err.Error()}
	}
	byName, byID := map[string]int{}, map[string]string{}
	for _, row := range rows {
		var name, id string
		row = strings.NewReplacer("{name:", "", "id:", "", "}", "", `"`, "").Replace(row)
		parts := strings.Split(row, ",")
		if len(parts) == 2 {
			name, id = parts[0], parts[1]
		}
		byName[name]++
		if prev, ok := byID[id]; ok {
			fails = append(fails, fmt.Sprintf("names: pool id %s is registered under two names %q and %q", id, prev, name))
		}
		byID[id] = name
	}
	for n, k := range byName {
		if k > 1 {
			fails = append(fails, fmt.Sprintf("names: pool name %q appears %d times", n, k))
		}
	}
	removedID, renamedID := map[string]bool{}, map[string]string{}
	maybeRemoved := map[string]bool{}
	for _, g := range results {
		if g.Crashed() && g.Op.K == "rmid" {
			maybeRemoved[ids[g.Op.ID].String()] = true
		}
		if g.Res != "ok" {
			continue
		}
		switch g.Op.K {
		case "rmid":
			removedID[ids[g.Op.ID].String()] = true
		case "rename":
			renamedID[ids[g.Op.ID].String()] = g.Op.New
		}
	}
	// an acknowledged create is present unless that pool id was removed by an acknowledged operation
	for _, g := range results {
		if g.Op.K == "insert" && g.Res == "ok" && !removedID[g.ID] && !maybeRemoved[g.ID] {
			if _, ok := byID[g.ID]; !ok {
				fails = append(fails, fmt.Sprintf("lost-update: pool %q (id %s) was created and acknowledged, never removed, but is not in the pool table", g.Op.Key, g.ID))
			}
		}
	}
	// initial pools that nobody removed must still be registered
	for sid, id := range ids {
		if !removedID[id.String()] && !maybeRemoved[id.String()] {
			if _, ok := byID[id.String()]; !ok {
				fails = append(fails, fmt.Sprintf("lost-update: initial pool #%d (id %s) was never removed but is not in the pool table", sid, id))
			}
		}
	}
	// every registered pool is usable; a pool removed by an acknowledged operation is not registered
	for id, name := range byID {
		if removedID[id] {
			fails = append(fails, fmt.Sprintf("fail-trace: pool id %s was removed (acknowledged) but is still registered as %q", id, name))
			continue
		}
		if maybeRemoved[id] {
			continue // a crashed RemovePool may have deleted the data but not (yet) the entry, or vice versa
		}
		if _, err := obs.Query(ctx, "from "+name); err != nil {
			fails = append(fails, fmt.Sprintf("unreadable: registered pool %q (id %s) cannot be read: %v", name, id, err))
		}
	}
	// usable: a new client can still create a pool
	if _, err := obs.CreatePool(ctx, "usable-probe", "k", "asc", 0, 0); err != nil {
		fails = append(fails, fmt.Sprintf("usable: a fresh client cannot create a pool afterwards: %v", err))
	}
	return fails
}
